"""Source fingerprints of the code each property is anchored in.

The Lean models are written by hand; what ties them to /repo is the behavioural correspondence
check of every run.  This module adds a cheap, purely syntactic side channel: for every
function/method of the files a property is anchored in (properties.jsonl -> anchors.files) it
hashes the normalised AST (docstrings dropped, formatting and comments irrelevant) and compares
it with the hash recorded when the model was last aligned (lean/anchors.json, written only by
`python harness/anchors.py --update`, never by a check).

A difference is NOT a violation and NOT a broken correspondence: it only tells the run that the
code it is looking at is not the code the model was aligned with, so
  * the evidence lists the changed functions, and
  * the quick tier spends extra search effort (further seeds of the same generators) on it.
"""
from __future__ import annotations

import ast
import hashlib
import json
import sys
from pathlib import Path

VERIF = Path(__file__).resolve().parent.parent
RECORD = VERIF / "lean" / "anchors.json"


def _strip_doc(node):
    for n in ast.walk(node):
        if isinstance(n, (ast.FunctionDef, ast.AsyncFunctionDef, ast.ClassDef, ast.Module)):
            b = n.body
            if b and isinstance(b[0], ast.Expr) and isinstance(getattr(b[0], "value", None), ast.Constant) \
                    and isinstance(b[0].value.value, str):
                n.body = b[1:] or [ast.Pass()]
    return node


def file_fingerprints(path: Path) -> dict:
    """qualname -> sha256[:16] of the normalised AST of every function, method and of the module rest"""
    try:
        tree = _strip_doc(ast.parse(path.read_text()))
    except (OSError, SyntaxError) as e:  # unreadable file: one pseudo entry
        return {"<file>": "unreadable:" + type(e).__name__}
    out = {}

    def visit(body, prefix):
        rest = []
        for n in body:
            if isinstance(n, (ast.FunctionDef, ast.AsyncFunctionDef)):
                out[prefix + n.name] = hashlib.sha256(ast.dump(n).encode()).hexdigest()[:16]
            elif isinstance(n, ast.ClassDef):
                visit(n.body, prefix + n.name + ".")
                rest.append(ast.dump(ast.ClassDef(name=n.name, bases=n.bases, keywords=n.keywords, body=[],
                                                  decorator_list=n.decorator_list)))
            else:
                rest.append(ast.dump(n))
        out[prefix + "<rest>"] = hashlib.sha256("\n".join(rest).encode()).hexdigest()[:16]

    visit(tree.body, "")
    return out


def anchored_files(prop: str) -> list:
    for l in (VERIF / "properties.jsonl").read_text().splitlines():
        if l.strip():
            p = json.loads(l)
            if p["id"] == prop:
                return list(p.get("anchors", {}).get("files", []))
    return []


def current(prop: str, repo: Path) -> dict:
    out = {}
    for f in anchored_files(prop):
        for q, h in file_fingerprints(repo / f).items():
            out[f"{f}::{q}"] = h
    return out


def repo_for_import() -> Path:
    """the tree the harness actually imports infretis from (PYTHONPATH shadows the install)"""
    try:
        import infretis
        return Path(infretis.__file__).resolve().parent.parent
    except Exception:  # noqa: BLE001
        return Path("/repo")


def compare(prop: str, repo: Path | None = None) -> dict:
    repo = repo or repo_for_import()
    rec = {}
    if RECORD.exists():
        rec = json.loads(RECORD.read_text()).get(prop, {})
    cur = current(prop, repo)
    changed = sorted(k for k in set(rec) | set(cur) if rec.get(k) != cur.get(k))
    return {"tree": str(repo), "functions": len(cur), "recorded": len(rec), "changed": changed}


def update(repo: Path = Path("/repo")):
    props = [json.loads(l)["id"] for l in (VERIF / "properties.jsonl").read_text().splitlines() if l.strip()]
    RECORD.write_text(json.dumps({p: current(p, repo) for p in props}, indent=0, sort_keys=True))
    print(f"recorded fingerprints of {sum(len(current(p, repo)) for p in props)} anchored functions -> {RECORD}")


if __name__ == "__main__":
    if "--update" in sys.argv:
        update()
    else:
        for p in sys.argv[1:]:
            print(p, json.dumps(compare(p.upper()), indent=1))
