"""Lattice random-walk plug-in engine + order parameter for the C06 tie.

Loaded only through the real plug-in interface (`create_external`: the `class`/`module` keys of the
`[engine]` / `[orderparameter]` sections).  Sites are integers x; the order parameter is x/4, a dyadic
number with two decimals, so the `%12.6f` text of the stored order files represents every value exactly
(scope of C06).  Interfaces sit at (k + 1/2)/4: an order value never equals an interface.
Every frame goes through the real `EngineBase.add_to_path`; every random draw comes from `self.rgen`,
the engine stream infretis installs per job (`rgen-eng`).
"""
import os

import numpy as np

from infretis.classes.engines.enginebase import EngineBase
from infretis.classes.orderparameter import OrderParameter

SCALE = 0.25


def order_of(x, scale=SCALE, cv2=False):
    """order row of site x: [x·scale] or, with an extra collective variable, [x·scale, (x·scale)²] — dyadic for
    scale 1/4 (at most four decimals) and integer for scale 1: exact at the six decimals of order.txt"""
    v = float(x) * scale
    return [v, v * v] if cv2 else [v]


class LatticeOP(OrderParameter):
    """order parameter = lattice site / 4"""

    def __init__(self, scale=SCALE, cv2=False):
        super().__init__(description="lattice position / 4", velocity=False)
        self.scale = scale
        self.cv2 = cv2

    def calculate(self, system):
        return order_of(system.pos[0][0], self.scale, self.cv2)


class LatticeEngine(EngineBase):
    """Lazy symmetric walk on the integers (stay with probability 1/4) with a reflecting wall."""

    def __init__(self, timestep=1.0, subcycles=1, wall=-6, temperature=1.0, scale=SCALE, cv2=False, tag="",
                 p_up=0.375, p_down=0.375):
        super().__init__("lattice walk", timestep, subcycles)
        self.scale = scale
        self.cv2 = cv2
        # several engine sections in one configuration (`ensemble_engines` with more than one name per ensemble): the
        # engines differ observably (step probabilities) and say which of them ran a job (`tag`, logged per propagation)
        self.tag = tag
        self.p_up = float(p_up)
        self.p_down = float(p_down)
        self.ext = "lat"
        self.wall = wall
        self.name = "lattice"
        self._beta = 1.0

    def step(self):  # required by create_external's method check
        pass

    def set_mdrun(self, md_items):
        self.exe_dir = md_items["exe_dir"]

    @staticmethod
    def _read_frames(fn):
        with open(fn) as f:
            return [int(x) for x in f.read().split()]

    def _read_configuration(self, filename):
        x = self._read_frames(filename)[0]
        return np.array([[float(x)]]), np.zeros((1, 1)), None, None

    def _extract_frame(self, traj_file, idx, out_file):
        x = self._read_frames(traj_file)[idx]
        with open(out_file, "w") as f:
            f.write(f"{x}\n")

    def _reverse_velocities(self, filename, outfile):
        self._copyfile(filename, outfile)

    def modify_velocities(self, system, vel_settings):
        pos = self.dump_frame(system)
        out = os.path.join(self.exe_dir, f"genvel.{self.ext}")
        if pos != out:
            self._copyfile(pos, out)
        system.config = (out, 0)
        system.ekin = 0.0
        return 0.0, 0.0

    def _propagate_from(self, name, path, system, ens_set, msg_file, reverse=False):
        left, _, right = ens_set["interfaces"]
        if self.tag:
            import json
            with open(os.path.join(os.path.dirname(os.path.abspath(self.exe_dir)), "_c06_eng.jsonl"), "a") as f:
                f.write(json.dumps({"tag": self.tag, "ens": ens_set.get("ens_name"),
                                    "w": os.path.basename(os.path.abspath(self.exe_dir)), "name": name}) + "\n")
        x = self._read_frames(system.config[0])[0]
        traj_file = os.path.join(self.exe_dir, f"{name}.{self.ext}")
        xs = []
        success = False
        status = ""
        for i in range(path.maxlen):
            xs.append(x)
            snapshot = {"order": order_of(x, self.scale, self.cv2), "config": (traj_file, i), "vel_rev": reverse}
            pp = self.snapshot_to_system(system, snapshot)
            status, success, stop, _ = self.add_to_path(path, pp, left, right)
            if stop:
                break
            if x <= self.wall:
                x += 1
            else:
                u = self.rgen.random()
                x += 1 if u < self.p_up else (-1 if u < self.p_up + self.p_down else 0)
        with open(traj_file, "w") as f:
            f.write("\n".join(map(str, xs)) + "\n")
        path.update_energies([0.0] * len(xs), [0.0] * len(xs))
        return success, status
