"""Runs "legs" of REAL infretis simulations for the C06 tie.

A *leg* is one invocation of what `infretisrun -i <input>` does (`setup_config` + `scheduler`), run to its
end or stopped ("killed") after a given step.  A *scenario* is a list of ops executed in order:
  {"op": "prepare", "dir", "engine": "lattice"|"turtle", "cfg": {...}}   make a fresh run directory
  {"op": "leg", "dir", "input", "set_steps", "policy", "kill_at", "snap", "leg", "crash"}
  {"op": "copy", "src", "dst"}

Only `infretis.scheduler.setup_runner` is replaced (monkeypatch inside the child that runs the leg):
the process pool becomes a synchronous runner (the job runs at submission, behind a pickle boundary as
with the real ProcessPool) whose futures complete in an order fixed by `policy`.  `setup_config`,
`setup_internal`, `REPEX_state`, `run_md`, the moves, `treat_output`, `write_to_pathens`, `write_toml`,
`PathStorage`, `create_external` run unmodified from the current tree.

Fresh module-level state per leg: infretis keeps module-level state (`enginebase.counter()`, `tis.ENGINES`,
logging handlers).  Every leg runs in a child forked from a server process that has *imported* infretis and
never run anything, i.e. in the state of a new interpreter right after its imports (`--fresh` runs a leg in
a brand-new interpreter instead; the tie checks that both give the same bytes).

Stops: "steps" stops are runs that end by themselves (steps = k, then the user raises `steps` in
restart.toml, as the repo's own test does).  "kill" stops end the process after step k completed (its
restart file written, the next job possibly submitted): the futures list raises StopLeg when asked for the
next result.  `snap` copies the run directory at exactly such a moment (the on-disk state a kill leaves).
"""
from __future__ import annotations

import importlib.util  # noqa: F401  (infretis.factory relies on it being imported)
import json
import os
import pickle
import random
import shutil
import sys
import traceback

HERE = os.path.dirname(os.path.abspath(__file__))
PLUGIN = os.path.join(HERE, "lattice_plugin.py")
REPO = os.environ.get("INFRETIS_REPO", "/repo")
LOG = "_c06_log.jsonl"


class StopLeg(BaseException):
    """the process is "killed" here"""


class _Fut:
    def __init__(self, r, idx, ordinal=0):
        self.r = r
        self.idx = idx
        self.ordinal = ordinal      # ordinal of the job's random stream: survives a restart

    def done(self):
        return True

    def result(self):
        return self.r


def _sid(g):
    ss = g.bit_generator._seed_seq
    ent = ss.entropy
    return [int(ent) if ent is not None else -1] + [int(k) for k in ss.spawn_key]


class Recorder:
    def __init__(self, leg):
        self.leg = leg
        self.n = 0

    def write(self, obj):
        obj["leg"] = self.leg
        with open(LOG, "a") as f:
            f.write(json.dumps(obj) + "\n")


class SyncRunner:
    """same interface as aiorunner; the job runs at submission, behind a pickle boundary"""

    def __init__(self, task, state, rec):
        self.task = task
        self.state = state
        self.rec = rec

    def submit_work(self, md):
        st = self.state
        picked = md["picked"]
        ens = [int(e) for e in picked.keys()]
        pns = [int(d["pn_old"]) for d in picked.values()]
        slots_ok = all(bool(st._locks[e + st._offset]) and st._trajs[e + st._offset] != ""
                       and int(st._trajs[e + st._offset].path_number) == p for e, p in zip(ens, pns))
        idx = self.rec.n
        self.rec.n += 1
        self.rec.write({"ev": "submit", "idx": idx, "cstep": int(st.cstep), "pin": int(md["pin"]), "ens": ens, "pn": pns,
                        "streams": [_sid(d["ens"]["rgen"]) for d in picked.values()],
                        "eng_streams": [_sid(d["rgen-eng"]) for d in picked.values()],
                        "slots_ok": slots_ok,
                        "locked": [[[int(e) for e in ent[0]], [str(p) for p in ent[1]],
                                    (int(ent[2]) if len(ent) > 2 else None)] for ent in st.locked],
                        "locked0_left": len(st.locked0)})
        md_in = pickle.loads(pickle.dumps(md))
        out = self.task(md_in)
        self.rec.write({"ev": "outcome", "idx": idx, "status": str(out.get("status")), "n_ens": len(ens)})
        ordinal = _sid(next(iter(picked.values()))["ens"]["rgen"])[1]
        return _Fut(pickle.loads(pickle.dumps(out)), idx, ordinal)

    def stop(self):
        pass


class Futures:
    """future_list with a scripted completion order, the stop and the snapshots"""

    def __init__(self, state, rec, policy, kill_at, snap, rundir):
        self.l = []
        self.state = state
        self.rec = rec
        self.kill_at = kill_at
        self.snap = set(snap or [])
        self.rundir = rundir
        self.last_completed = None
        # completion orders.  fifo / lifo / rand:<seed> act on the list of futures of THIS process; the ord-* orders
        # are functions of the set of jobs in flight (identified by the ordinals of their random streams, which a
        # restart preserves), so a straight run and a restarted run follow the same order.
        if policy.startswith("rand:"):
            self.rng = random.Random(policy)
            self.pick = lambda n: self.rng.randrange(n)
        elif policy == "lifo":
            self.pick = lambda n: n - 1
        elif policy == "ord-max":
            self.pick = lambda n: max(range(n), key=lambda i: self.l[i].ordinal)
        elif policy == "ord-min":
            self.pick = lambda n: min(range(n), key=lambda i: self.l[i].ordinal)
        elif policy.startswith("ord-hash:"):
            def pick(n):
                order = sorted(range(n), key=lambda i: self.l[i].ordinal)
                key = f"{policy}:{int(self.state.cstep)}:{[self.l[i].ordinal for i in order]}"
                return order[random.Random(key).randrange(n)]
            self.pick = pick
        else:
            self.pick = lambda n: 0

    def add(self, f):
        self.l.append(f)

    def as_completed(self):
        done = int(self.state.cstep) - 1      # steps whose treat_output (and restart file) are complete
        if done in self.snap:
            self.snap.discard(done)
            shutil.copytree(self.rundir, f"{self.rundir}.snap{done}")
            # the snapshot is the disk state a kill at this moment leaves: say so in *its* log
            with open(f"{self.rundir}.snap{done}/{LOG}", "a") as f:
                f.write(json.dumps({"ev": "kill", "after_step": done, "in_flight": [x.idx for x in self.l],
                                    "leg": self.rec.leg, "snapshot": True}) + "\n")
        if self.kill_at is not None and done >= self.kill_at:
            self.rec.write({"ev": "kill", "after_step": done, "in_flight": [f.idx for f in self.l]})
            raise StopLeg()
        if not self.l:
            return None
        f = self.l.pop(self.pick(len(self.l)))
        self.last_completed = f.idx
        self.rec.write({"ev": "complete", "idx": f.idx, "step": done + 1})
        return f


# ----------------------------------------------------------------------------- run directories
def _write_path(d, xs, scale=0.25, cv2=False):
    os.makedirs(f"{d}/accepted")
    with open(f"{d}/accepted/init.lat", "w") as f:
        f.write("\n".join(map(str, xs)) + "\n")
    with open(f"{d}/traj.txt", "w") as f:
        f.write("# Cycle: 0, status: ACC\n#     Step              Filename       index    vel\n")
        for i, _ in enumerate(xs):
            f.write(f"{i:>10}  {'init.lat':>20s}  {i:>10}  {1:>5}\n")
    with open(f"{d}/order.txt", "w") as f:
        f.write("# Cycle: 0, status: ACC, move: ('ld', 0, 0, 0)\n#     Time       Orderp\n")
        for i, x in enumerate(xs):
            v = x * scale
            f.write(f"{i:>10d} {v:>12.6f}" + (f" {v * v:>12.6f}" if cv2 else "") + "\n")


def lattice_config(c):
    n = c["nintf"]
    scale = float(c.get("scale", 0.25))
    off = 1.0 if c.get("on_intf") else 0.5          # on_intf: interfaces exactly on lattice values
    tis = {"maxlength": 400, "allowmaxlength": bool(c.get("allowmaxlength", True)), "zero_momentum": False, "n_jumps": 3}
    if c.get("cap") is not None:
        tis["interface_cap"] = float(c["cap"])
    if c.get("lm1") is not None:
        tis["lambda_minus_one"] = float(c["lm1"])
    if c.get("quantis"):
        tis["quantis"] = True
    eng = {"class": "LatticeEngine", "module": PLUGIN, "timestep": 1.0, "subcycles": 1, "wall": -6, "temperature": 1.0,
           "scale": scale, "cv2": bool(c.get("cv2", False))}
    cfg = {
        "runner": {"workers": c["workers"], "wmdrun": ["x"] * c["workers"]},
        "simulation": {"interfaces": [(k + off) * scale for k in range(n)], "steps": c["steps"], "seed": c["seed"],
                       "load_dir": "load", "shooting_moves": list(c["moves"]), "tis_set": tis},
        "engine": eng,
        "orderparameter": {"class": "LatticeOP", "module": PLUGIN, "scale": scale, "cv2": bool(c.get("cv2", False))},
        "output": {"data_dir": "./", "screen": int(c.get("screen", 0)), "pattern": False,
                   "delete_old": bool(c.get("delete_old", False)),
                   "delete_old_all": bool(c.get("delete_old_all", c.get("delete_old", False)))},
    }
    if c.get("quantis"):
        cfg["engine0"] = dict(eng)
    if c.get("multi_eng"):
        # a legal but unusual configuration (examples/gromacs/H2_multi_engine): ensembles that list SEVERAL engines, in
        # both orders; the move uses the first one listed.  The two engines differ observably and log which one ran.
        cfg["engine"]["tag"] = "base"
        cfg["engine_hot"] = dict(eng, tag="hot", p_up=0.5, p_down=0.375)
        pat = [["engine"], ["engine", "engine_hot"], ["engine_hot", "engine"], ["engine_hot"], ["engine", "engine_hot"]]
        cfg["simulation"]["ensemble_engines"] = [list(pat[i % len(pat)]) for i in range(n)]
    return cfg


def prepare(op):
    import tomli
    import tomli_w
    d, c = op["dir"], op["cfg"]
    os.makedirs(d)
    if op["engine"] == "lattice":
        os.makedirs(f"{d}/load")
        sc, cv2 = float(c.get("scale", 0.25)), bool(c.get("cv2", False))
        if c.get("on_intf"):      # interfaces at x = 1, 2, …: paths start/end on the far side of lambda_0
            _write_path(f"{d}/load/0", [1, 0, -1, -2, -1, 0, 1], sc, cv2)
            for k in range(1, c["nintf"]):
                up = list(range(0, k + 2))
                _write_path(f"{d}/load/{k}", up + up[::-1][1:], sc, cv2)
        else:
            _write_path(f"{d}/load/0", [1, 0, -1, -2, -1, 0, 1] if c.get("lm1") is None else [1, 0, -1, 0, 1], sc, cv2)
            for k in range(1, c["nintf"]):
                up = list(range(0, k + 1))
                _write_path(f"{d}/load/{k}", up + up[::-1][1:], sc, cv2)
        cfg = lattice_config(c)
    else:
        base = f"{REPO}/examples/turtlemd/double_well"
        shutil.copytree(f"{base}/load_copy", f"{d}/load")
        shutil.copy(f"{base}/orderp.py", d)
        with open(f"{REPO}/test/simulations/data/wf.toml", "rb") as f:
            cfg = tomli.load(f)
        cfg["simulation"]["seed"] = c["seed"]
        cfg["simulation"]["steps"] = c["steps"]
        cfg["simulation"]["shooting_moves"] = list(c["moves"])
        cfg["simulation"]["tis_set"]["allowmaxlength"] = bool(c.get("allowmaxlength", True))
        if c.get("cap") is not None:
            cfg["simulation"]["tis_set"]["interface_cap"] = float(c["cap"])
        cfg["runner"]["workers"] = c["workers"]
        cfg["output"]["screen"] = int(c.get("screen", 0))
        cfg["output"]["pattern"] = 0
        cfg["output"]["delete_old"] = bool(c.get("delete_old", True))
        cfg["output"]["delete_old_all"] = bool(c.get("delete_old_all", c.get("delete_old", True)))
    with open(f"{d}/infretis.toml", "wb") as f:
        tomli_w.dump(cfg, f)


# ----------------------------------------------------------------------------- one leg (child process)
def run_leg(op):
    """runs in a process of its own; returns a plain dict"""
    import logging

    import tomli
    import tomli_w

    os.chdir(op["dir"])
    logging.disable(logging.CRITICAL)
    os.fsync = lambda fd: None      # durability only; no effect on what is written
    import infretis.scheduler as sched
    from infretis.core.tis import run_md
    from infretis.setup import setup_config

    rec = Recorder(op.get("leg", 0))
    if op.get("set_steps") is not None:
        # the user's edit between two runs (as in the repo's test: load, set, dump)
        with open(op["input"], "rb") as f:
            cfg = tomli.load(f)
        cfg["simulation"]["steps"] = op["set_steps"]
        with open(op["input"], "wb") as f:
            tomli_w.dump(cfg, f)
    toml_before = None
    if os.path.exists("restart.toml"):
        with open("restart.toml", "rb") as f:
            toml_before = tomli.load(f)["current"]
    rec.write({"ev": "leg-start", "input": op["input"],
               "recorded_locked": None if toml_before is None else toml_before.get("locked", []),
               "recorded_cstep": None if toml_before is None else toml_before.get("cstep"),
               "recorded_spawned": None if toml_before is None else toml_before.get("spawned")})

    def fake_setup_runner(state):
        futs = Futures(state, rec, op.get("policy", "fifo"), op.get("kill_at"), op.get("snap"), op["dir"])
        crash = op.get("crash")      # {"step": c, "where": "before_toml" | "torn" | "after_toml"}
        if crash:
            # `treat_output` appends the data rows (write_to_pathens) and then rewrites the restart file
            # (write_toml): these are the two effect boundaries of a step on the files C06 compares
            orig = state.write_toml

            def write_toml():
                at = int(state.cstep) == int(crash["step"]) and futs.last_completed is not None \
                    and not getattr(write_toml, "done", False)
                if at and crash["where"] in ("before_toml", "torn"):
                    write_toml.done = True
                    if crash["where"] == "torn":
                        df = state.config["output"]["data_file"]
                        size = os.path.getsize(df)
                        with open(df, "rb+") as f:      # the last row loses its tail (and its newline)
                            f.truncate(max(0, size - int(crash.get("cut", 7))))
                    rec.write({"ev": "kill", "after_step": int(state.cstep) - 1, "inside_step": int(state.cstep),
                               "where": crash["where"], "in_flight": [x.idx for x in futs.l] + [futs.last_completed]})
                    raise StopLeg()
                orig()
                if at and crash["where"] == "after_toml":
                    write_toml.done = True
                    rec.write({"ev": "kill", "after_step": int(state.cstep), "where": "after_toml",
                               "in_flight": [x.idx for x in futs.l]})
                    raise StopLeg()

            state.write_toml = write_toml
        return (SyncRunner(run_md, state, rec), futs)

    sched.setup_runner = fake_setup_runner
    config = setup_config(op["input"])
    if config is None:
        return {"ok": False, "error": "setup_config returned None"}
    try:
        sched.scheduler(config)
        fl = fc = fs = None
        try:
            with open("restart.toml", "rb") as f:
                cur = tomli.load(f)["current"]
            fl, fc, fs = cur.get("locked", []), cur.get("cstep"), cur.get("spawned")
        except Exception:  # noqa: BLE001
            pass
        rec.write({"ev": "leg-end", "how": "finished", "final_locked": fl, "final_cstep": fc, "final_spawned": fs})
        return {"ok": True, "how": "finished"}
    except StopLeg:
        rec.write({"ev": "leg-end", "how": "killed"})
        return {"ok": True, "how": "killed"}


def leg_in_child(op, many=None):
    """fork, run the leg (or, `many`: several legs one after the other in the SAME process) in the child, hand the
    result back through a pipe; a leg that does not return within its time limit is killed and reported"""
    import select
    import signal
    r, w = os.pipe()
    pid = os.fork()
    if pid == 0:
        code = 0
        try:
            os.close(r)
            os.setsid()
            # whatever an engine prints must not reach the server's line protocol
            dn = os.open(os.devnull, os.O_WRONLY)
            os.dup2(dn, 1)
            os.dup2(dn, 2)
            try:
                if many is None:
                    res = run_leg(op)
                else:
                    res = {"ok": True, "how": []}
                    for one in many:
                        r1 = run_leg(one)
                        res["how"].append(r1.get("how"))
                        if not r1.get("ok"):
                            res = r1
                            break
            except BaseException as e:  # noqa: BLE001
                res = {"ok": False, "error": f"{type(e).__name__}: {e}", "trace": traceback.format_exc()[-3000:]}
            with os.fdopen(w, "w") as f:
                f.write(json.dumps(res))
        except BaseException:  # noqa: BLE001
            code = 1
        finally:
            os._exit(code)
    os.close(w)
    limit = float((op or {}).get("timeout", 600) if many is None else 600 * len(many))
    data = ""
    with os.fdopen(r) as f:
        ready, _, _ = select.select([f], [], [], limit)
        if ready:
            data = f.read()
        else:
            try:
                os.killpg(pid, signal.SIGKILL)
            except OSError:
                try:
                    os.kill(pid, signal.SIGKILL)
                except OSError:
                    pass
            os.waitpid(pid, 0)
            return {"ok": False, "error": f"leg did not return within {limit:.0f} s (killed)"}
    os.waitpid(pid, 0)
    try:
        return json.loads(data)
    except ValueError:
        return {"ok": False, "error": "child died without a result"}


def leg_fresh(op):
    """the leg in a brand-new interpreter"""
    import subprocess
    env = None
    if op.get("hashseed") is not None:
        # two runs of one configuration under different string-hash seeds (set / dict-of-str iteration orders differ),
        # in different working directories and processes, must write the same bytes
        env = dict(os.environ)
        env["PYTHONHASHSEED"] = str(op["hashseed"])
    p = subprocess.run([sys.executable, os.path.abspath(__file__), "--one", json.dumps(op)],
                       stdout=subprocess.PIPE, stderr=subprocess.PIPE, text=True, env=env)
    try:
        return json.loads(p.stdout.strip().splitlines()[-1])
    except (ValueError, IndexError):
        return {"ok": False, "error": "fresh interpreter failed: " + p.stderr[-2000:]}


def run_scenario(sc):
    out = {"name": sc.get("name"), "ok": True, "legs": []}
    for op in sc["ops"]:
        try:
            if op["op"] == "prepare":
                prepare(op)
            elif op["op"] == "copy":
                shutil.copytree(op["src"], op["dst"])
            elif op["op"] == "legs1p":      # several legs in ONE process (module-level state is shared)
                res = leg_in_child(None, many=op["legs"])
                out["legs"].append(res)
                if not res.get("ok"):
                    out["ok"] = False
                    out["error"] = res.get("error")
                    out["trace"] = res.get("trace")
                    break
            elif op["op"] == "leg":
                res = leg_fresh(op) if op.get("fresh") else leg_in_child(op)
                out["legs"].append(res)
                if not res.get("ok"):
                    out["ok"] = False
                    out["error"] = res.get("error")
                    out["trace"] = res.get("trace")
                    break
        except BaseException as e:  # noqa: BLE001
            out["ok"] = False
            out["error"] = f"{type(e).__name__}: {e}"
            out["trace"] = traceback.format_exc()[-3000:]
            break
    return out


def serve():
    """line protocol: one scenario (JSON) per line in, one result per line out"""
    # import everything a leg needs, run nothing: children forked from here start like a new interpreter
    import numpy  # noqa: F401
    import tomli  # noqa: F401
    import tomli_w  # noqa: F401
    import infretis.scheduler  # noqa: F401
    import infretis.setup  # noqa: F401
    import infretis.core.tis  # noqa: F401
    try:
        import infretis.classes.engines.turtlemdengine  # noqa: F401
    except Exception:  # noqa: BLE001
        pass
    for line in sys.stdin:
        line = line.strip()
        if not line:
            continue
        res = run_scenario(json.loads(line))
        sys.stdout.write(json.dumps(res) + "\n")
        sys.stdout.flush()


class LegPool:
    """P server processes; `map(scenarios)` runs them in parallel and keeps the input order"""

    def __init__(self, nproc):
        import subprocess
        env = dict(os.environ)
        env["PYTHONDONTWRITEBYTECODE"] = "1"
        for v in ("OMP_NUM_THREADS", "OPENBLAS_NUM_THREADS", "MKL_NUM_THREADS"):
            env[v] = "1"
        self.procs = [subprocess.Popen([sys.executable, os.path.abspath(__file__), "--serve"], stdin=subprocess.PIPE,
                                       stdout=subprocess.PIPE, stderr=subprocess.DEVNULL, text=True, env=env, cwd="/var/tmp",
                                       start_new_session=True)
                      for _ in range(nproc)]

    def map(self, scenarios):
        import queue
        from concurrent.futures import ThreadPoolExecutor
        free = queue.Queue()
        for p in self.procs:
            free.put(p)

        def one(sc):
            p = free.get()
            try:
                p.stdin.write(json.dumps(sc) + "\n")
                p.stdin.flush()
                line = p.stdout.readline()
                if not line:
                    return {"name": sc.get("name"), "ok": False, "error": "leg server died"}
                return json.loads(line)
            finally:
                free.put(p)

        with ThreadPoolExecutor(len(self.procs)) as ex:
            return list(ex.map(one, scenarios))

    def close(self):
        for p in self.procs:
            try:
                p.stdin.close()
            except Exception:  # noqa: BLE001
                pass
        import signal
        for p in self.procs:
            try:
                p.wait(timeout=10)
            except Exception:  # noqa: BLE001
                try:
                    os.killpg(p.pid, signal.SIGKILL)
                except OSError:
                    p.kill()
                try:
                    p.wait(timeout=5)
                except Exception:  # noqa: BLE001
                    pass


if __name__ == "__main__":
    if len(sys.argv) > 1 and sys.argv[1] == "--serve":
        serve()
    elif len(sys.argv) > 2 and sys.argv[1] == "--one":
        try:
            r = run_leg(json.loads(sys.argv[2]))
        except BaseException as e:  # noqa: BLE001
            r = {"ok": False, "error": f"{type(e).__name__}: {e}", "trace": traceback.format_exc()[-3000:]}
        print(json.dumps(r))
