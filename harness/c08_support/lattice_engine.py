"""Lattice random-walk plug-in engine + order parameter used by the C08 fault enumeration.

A symmetric +-1 walk on the integers with a reflecting wall.  It is loaded by the REAL
infretis `create_external` machinery (engine.class / engine.module in the toml file), subclasses the
real `EngineBase` and feeds every frame through the real `add_to_path`.  One tiny text file per
trajectory (one integer per line).  Nothing in /repo is touched.
"""
import os

import numpy as np

from infretis.classes.engines.enginebase import EngineBase
from infretis.classes.orderparameter import OrderParameter


class LatticeOP(OrderParameter):
    def __init__(self):
        super().__init__(description="lattice position", velocity=False)

    def calculate(self, system):
        x = float(system.pos[0][0])
        return [x, 2.0 * x + 1.0]      # two order columns (the second is a collective variable)


class LatticeEngine(EngineBase):
    """Symmetric +-1 walk on the integers with a reflecting wall at `wall`."""

    def __init__(self, timestep=1.0, subcycles=1, wall=-6, temperature=1.0, aux=False):
        super().__init__("lattice walk", timestep, subcycles)
        self.aux = aux            # write a side file <traj>.aux next to every trajectory (keep_traj_fnames)
        self.ext = "lat"
        self.wall = wall
        self.name = "lattice"
        self._beta = 1.0

    def step(self):  # required by create_external
        pass

    def set_mdrun(self, md_items):
        self.exe_dir = md_items["exe_dir"]

    def _read_frames(self, fn):
        with open(fn) as f:
            return [int(x) for x in f.read().split()]

    def _read_configuration(self, filename):
        x = self._read_frames(filename)[0]
        return np.array([[float(x)]]), np.zeros((1, 1)), None, None

    def _extract_frame(self, traj_file, idx, out_file):
        x = self._read_frames(traj_file)[idx]
        with open(out_file, "w") as f:
            f.write(f"{x}\n")

    def _reverse_velocities(self, filename, outfile):
        self._copyfile(filename, outfile)

    def modify_velocities(self, system, vel_settings):
        pos = self.dump_frame(system)
        out = os.path.join(self.exe_dir, f"genvel.{self.ext}")
        if pos != out:
            self._copyfile(pos, out)
        system.config = (out, 0)
        system.ekin = 0.0
        return 0.0, 0.0

    def _propagate_from(self, name, path, system, ens_set, msg_file, reverse=False):
        left, _, right = ens_set["interfaces"]
        x = self._read_frames(system.config[0])[0]
        traj_file = os.path.join(self.exe_dir, f"{name}.{self.ext}")
        xs = []
        success = False
        status = ""
        for i in range(path.maxlen):
            xs.append(x)
            snapshot = {"order": [float(x), 2.0 * x + 1.0], "config": (traj_file, i), "vel_rev": reverse}
            pp = self.snapshot_to_system(system, snapshot)
            status, success, stop, _ = self.add_to_path(path, pp, left, right)
            if stop:
                break
            if x <= self.wall:
                x += 1
            else:
                x += 1 if self.rgen.random() < 0.5 else -1
        with open(traj_file, "w") as f:
            f.write("\n".join(map(str, xs)) + "\n")
        if self.aux:
            with open(os.path.splitext(traj_file)[0] + ".aux", "w") as f:
                f.write(f"{len(xs)} frames\n")
        path.update_energies([0.0] * len(xs), [0.0] * len(xs))
        return success, status
