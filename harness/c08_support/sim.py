"""Running the REAL infretis main loop with fault injection (C08 tie support).

Everything here drives unmodified infretis code: `setup_config`, `scheduler`, `REPEX_state`,
`treat_output`, `PathStorage`, `write_toml`, `load_paths_from_disk`.  The only replacements are
made from the outside, in the harness process:

  * `infretis.scheduler.setup_runner`  ->  a synchronous runner (DESIGN 4.4) that calls the real
    `run_md` in-process; effects of `run_md` (the worker's effects) are not main-process effects and
    are masked from the tracer;
  * `infretis.scheduler.setup_internal` -> the real one, wrapped only to remember the state object
    (so that the harness can read cstep / weights; nothing is changed);
  * `sys.addaudithook`  logs every file-system effect of the main process (DESIGN 4.5) and can kill
    the process with `os._exit` just before effect number k;
  * `builtins.open` wrapper: for effect k being an open-for-write, kill right after the
    open returned (file created/truncated, nothing written: mode "trunc") or after half of the bytes
    the code wanted to write have reached the file (mode "half").  In pass-through mode it only
    records the bytes written (content ids for the disk comparison).

A job is executed inside a forked child (`runjobs`), the child writes its result as JSON.
"""
from __future__ import annotations

import builtins
import hashlib
import importlib.util  # noqa: F401
import json
import os
import shutil
import signal
import sys
import time
import traceback

HERE = os.path.dirname(os.path.abspath(__file__))
ENGINE_PY = os.path.join(HERE, "lattice_engine.py")
CRASH_RC = 77
_REAL_OPEN = builtins.open
_REAL_REPLACE = os.replace

WRITE_EVENTS = ("os.mkdir", "os.rmdir", "os.remove", "os.rename", "open", "os.truncate", "os.link",
                "os.symlink", "shutil.copyfile", "shutil.rmtree")


# --------------------------------------------------------------------------------------------
# run directory
# --------------------------------------------------------------------------------------------
def write_path(d, xs, fname="init.lat"):
    os.makedirs(f"{d}/accepted")
    with _REAL_OPEN(f"{d}/accepted/{fname}", "w") as f:
        f.write("\n".join(map(str, xs)) + "\n")
    with _REAL_OPEN(f"{d}/traj.txt", "w") as f:
        f.write("# Cycle: 0, status: ACC\n#     Step              Filename       index    vel\n")
        for i, _ in enumerate(xs):
            f.write(f"{i:>10}  {fname:>20s}  {i:>10}  {1:>5}\n")
    with _REAL_OPEN(f"{d}/order.txt", "w") as f:
        f.write("# Cycle: 0, status: ACC, move: ('ld', 0, 0, 0)\n#     Time       Orderp\n")
        for i, x in enumerate(xs):
            f.write(f"{i:>10d} {float(x):>12.6f} {2.0 * x + 1.0:>12.6f}\n")
    with _REAL_OPEN(f"{d}/energy.txt", "w") as f:
        f.write("# Cycle: 0, status: ACC, move: ('ld', 0, 0, 0)\n#     Time      Potential        Kinetic\n")
        for i, x in enumerate(xs):
            f.write(f"{i:>10d} {0.0:>14.6f} {0.0:>14.6f}\n")


def make_rundir(root, spec):
    """spec: nintf, steps, moves, workers, seed, delete_old, delete_old_all"""
    import tomli_w
    os.makedirs(root)
    nintf = spec["nintf"]
    intf = [k + 0.5 for k in range(nintf)]
    os.makedirs(os.path.join(root, "load"))
    write_path(os.path.join(root, "load/0"), [1, 0, -1, 0, 1])
    for k in range(1, nintf):
        up = list(range(0, k + 1))
        write_path(os.path.join(root, f"load/{k}"), up + up[::-1][1:])
    w = spec.get("workers", 1)
    tis_set = {"maxlength": 2000, "allowmaxlength": False, "zero_momentum": False, "n_jumps": 2}
    tis_set.update(spec.get("tis_set", {}))
    cfg = {
        "runner": {"workers": w, "wmdrun": ["x"] * w},
        "simulation": {"interfaces": intf, "steps": spec["steps"], "seed": spec.get("seed", 0),
                       "load_dir": "load", "shooting_moves": list(spec["moves"]),
                       "tis_set": tis_set},
        "engine": {"class": "LatticeEngine", "module": ENGINE_PY, "timestep": 1.0, "subcycles": 1,
                   "wall": -4, "temperature": 1.0, "aux": bool(spec.get("keep_traj_fnames"))},
        "orderparameter": {"class": "LatticeOP", "module": ENGINE_PY},
        "output": {"data_dir": "./", "screen": int(spec.get("screen", 0)), "pattern": False,
                   "keep_traj_fnames": list(spec.get("keep_traj_fnames", [])),
                   "delete_old": bool(spec.get("delete_old", False)),
                   "delete_old_all": bool(spec.get("delete_old_all", False))},
    }
    with _REAL_OPEN(os.path.join(root, "infretis.toml"), "wb") as f:
        tomli_w.dump(cfg, f)


# --------------------------------------------------------------------------------------------
# tracer / fault injector
# --------------------------------------------------------------------------------------------
class HalfFile:
    """file proxy: collects what the code writes; on close writes the first half and dies"""

    def __init__(self, real, tracer, binary, cut="half"):
        self._real, self._tr, self._bin = real, tracer, binary
        self._buf = []
        self._cut = cut

    def write(self, s):
        self._buf.append(s)
        return len(s)

    def writelines(self, ls):
        for l in ls:
            self.write(l)

    def flush(self):
        pass

    def close(self):
        data = (b"" if self._bin else "").join(self._buf)
        nl = b"\n" if self._bin else "\n"
        if self._cut == "one":                       # a torn piece of one byte
            half = data[:1]
        elif self._cut == "line" and data.count(nl) >= 2:   # exactly between the first and the second line
            half = data[: data.index(nl) + 1]
        else:
            half = data[: len(data) // 2]
        self._real.write(half)
        self._real.flush()
        os.fsync(self._real.fileno())
        self._tr.die("half", extra={"bytes_total": len(data), "bytes_written": len(half)})

    def __enter__(self):
        return self

    def __exit__(self, *a):
        self.close()

    def __getattr__(self, k):       # name, fileno, ... of the real file
        return getattr(self._real, k)


class RecFile:
    """pass-through proxy that remembers the bytes written (content id of the file)"""

    def __init__(self, real, ev, binary):
        self._real, self._ev, self._bin = real, ev, binary
        self._h = hashlib.sha1()
        self._n = 0
        self.closed = False
        self.path = ev["path"]
        self._keep = [] if ev["path"].startswith(("restart.toml", "infretis_data")) else None

    def write(self, s):
        b = s if self._bin else s.encode("utf8")
        self._h.update(b)
        self._n += len(b)
        if self._keep is not None:
            self._keep.append(b)
        return self._real.write(s)

    def writelines(self, ls):
        for l in ls:
            self.write(l)

    def close(self):
        self._ev["written"] = self._n
        self._ev["sha"] = self._h.hexdigest()[:12]
        if self._keep is not None:
            self._ev["text"] = b"".join(self._keep).decode("utf8", "replace")
        self.closed = True
        return self._real.close()

    def __enter__(self):
        return self

    def __exit__(self, *a):
        self.close()

    def __getattr__(self, k):
        return getattr(self._real, k)


class Tracer:
    def __init__(self, root, result_file, crash=None):
        self.root = os.path.realpath(root)
        self.result_file = result_file
        self.crash = crash            # None | {"k": int, "mode": "before"|"trunc"|"half"}
        self.events = []
        self.masked = 0               # >0 while the (synchronous) worker runs
        self.enabled = False
        self.state = None
        self.armed = None
        self.last_open_ev = None
        self.info = {}
        self.inflight_fn = None
        self.after_armed = False      # die as soon as the real call of effect k has returned
        self.recs = []                # pass-through proxies of files opened for writing

    # -- helpers
    def rel(self, p):
        try:
            p = os.fsdecode(p)
        except TypeError:
            return None
        ap = os.path.realpath(os.path.join(os.getcwd(), p))
        if ap == self.root or ap.startswith(self.root + os.sep):
            return os.path.relpath(ap, self.root)
        return None

    def stack_tags(self):
        tags = []
        f = sys._getframe(2)
        while f is not None:
            fn = f.f_code.co_filename
            if os.sep + "infretis" + os.sep in fn:
                tags.append(f.f_code.co_name)
            f = f.f_back
        return tags

    def die(self, how, extra=None):
        self.after_armed = False
        self.enabled = False
        self.info["crashed"] = {"how": how, **(self.crash or {}), **(extra or {})}
        self.dump()
        os._exit(CRASH_RC)

    def dump(self, **more):
        self.info.update(more)
        out = {"events": self.events, **self.info}
        with _REAL_OPEN(self.result_file + ".tmp", "w") as f:
            json.dump(out, f, default=str)
        _REAL_REPLACE(self.result_file + ".tmp", self.result_file)

    # -- audit hook
    def hook(self, event, args):
        if not self.enabled or self.masked or event not in WRITE_EVENTS:
            return
        ev = None
        if event == "open":
            path, mode, flags = args
            if isinstance(path, int):
                return
            writing = (mode is not None and any(c in mode for c in "wax+")) or \
                      (mode is None and flags is not None and flags & (os.O_WRONLY | os.O_RDWR))
            if not writing:
                return
            r = self.rel(path)
            if r is None or r.endswith(".result.json") or r == "sim.log":
                return
            trunc = mode is not None and "w" in mode
            ev = {"op": "open-w" if trunc else "open-a", "path": r, "mode": mode,
                  "existed": os.path.lexists(os.path.join(self.root, r))}
        elif event in ("os.mkdir", "os.rmdir", "os.remove"):
            r = self.rel(args[0])
            if r is None:
                return
            ev = {"op": event[3:], "path": r}
            if event == "os.mkdir":
                ev["existed"] = os.path.lexists(os.path.join(self.root, r))
        elif event == "os.rename":
            s, d = self.rel(args[0]), self.rel(args[1])
            if s is None and d is None:
                return
            ev = {"op": "move", "path": s, "dest": d,
                  "dest_existed": d is not None and os.path.lexists(os.path.join(self.root, d))}
            try:
                with _REAL_OPEN(os.path.join(self.root, s), "rb") as f:
                    ev["sha"] = hashlib.sha1(f.read()).hexdigest()[:12]
            except OSError:
                pass
        else:
            ev = {"op": event, "path": str(args[0])}
        if self.after_armed:
            # the effect we were to die after went through a call we do not wrap: die now, before the next one
            self.die("after-late")
        k = len(self.events)
        ev["k"] = k
        still_open = [r.path for r in self.recs if not r.closed]
        if still_open:
            ev["open_handles"] = still_open   # written data of these files is still in Python's buffer
        ev["tags"] = self.stack_tags()
        st = self.state
        if st is not None:
            ev["cstep"] = int(st.cstep)
        if self.inflight_fn is not None and ev["op"] == "open-w" and "write_toml" in ev["tags"]:
            ev["inflight"] = self.inflight_fn()
        self.events.append(ev)
        if self.crash is not None and k == self.crash["k"]:
            if self.crash["mode"] == "before":
                self.die("before")
            if self.crash["mode"] == "after":
                if ev["op"] in ("open-w", "open-a"):
                    self.armed = "trunc"          # right after the open has returned
                else:
                    self.after_armed = True       # the wrappers below die when the real call has returned
                return
            if ev["op"] in ("open-w", "open-a"):
                self.armed = self.crash["mode"]
            else:   # trunc/half asked for a non-open effect: treat as before (never scheduled)
                self.die("before")
        if ev["op"] in ("open-w", "open-a"):
            self.last_open_ev = ev

    # -- open wrapper
    def open(self, file, mode="r", *a, **kw):
        self.last_open_ev = None
        f = _REAL_OPEN(file, mode, *a, **kw)
        if self.armed == "trunc":
            f.close()
            self.die("trunc")
        if self.armed in ("half", "one", "line"):
            return HalfFile(f, self, "b" in mode, self.armed)
        ev = self.last_open_ev
        if ev is not None and self.enabled and not self.masked:
            r = RecFile(f, ev, "b" in mode)
            self.recs.append(r)
            return r
        return f

    def wrap_os(self):
        """os-level effects: `os._exit` immediately AFTER the real call has returned (crash mode "after").
        Buffered data of files that are still open is lost, as in a real hard kill."""
        import os as _os

        def wrap(fn):
            def w(*a, **kw):
                try:
                    return fn(*a, **kw)
                finally:
                    if self.after_armed:
                        self.die("after")
            w.__name__ = getattr(fn, "__name__", "wrapped")
            return w

        for name in ("mkdir", "rmdir", "remove", "unlink", "rename", "replace"):
            setattr(_os, name, wrap(getattr(_os, name)))


def install(tracer, completion="fifo"):
    """patch the scheduler's runner + remember the state; returns the list of submitted jobs"""
    import infretis.scheduler as sched
    import infretis.setup as isetup
    from infretis.core.tis import run_md

    submitted = []

    class Fut:
        def __init__(self, md):
            self.md = md
            self.r = None

        def done(self):
            return True

        def result(self):
            if self.r is None:
                tracer.masked += 1
                try:
                    self.r = run_md(self.md)
                finally:
                    tracer.masked -= 1
            return self.r

    class SyncRunner:
        def submit_work(self, md):
            submitted.append({"ens": [int(e) for e in md["ens_nums"]],
                              "paths": [int(p) for p in md["pnum_old"]],
                              "cstep": int(tracer.state.cstep) if tracer.state is not None else None})
            return Fut(md)

        def stop(self):
            pass

    class FList:
        def __init__(self):
            self.l = pending

        def add(self, f):
            self.l.append(f)

        def as_completed(self):
            if not self.l:
                return None
            if completion.startswith("rand:"):
                idx = rnd.randrange(len(self.l))
            else:
                idx = 0 if completion == "fifo" else -1
            f = self.l.pop(idx)
            f.result()
            return f

    pending = []
    import random as _random
    rnd = _random.Random(completion)

    def inflight():
        return [{"ens": [int(e) for e in f.md["ens_nums"]], "paths": [int(p) for p in f.md["pnum_old"]]}
                for f in pending]

    tracer.inflight_fn = inflight
    real_internal = isetup.setup_internal

    def setup_internal(config):
        md, state = real_internal(config)
        tracer.state = state
        real_sort = state.sort_trajstate
        swaps = tracer.info.setdefault("sort_swaps", [])

        def sort_trajstate():
            before = [int(p) for p in state.live_paths()]
            r = real_sort()
            if [int(p) for p in state.live_paths()] != before:
                swaps.append(int(state.cstep))
            return r

        state.sort_trajstate = sort_trajstate      # calls the real one; only remembers whether it moved a path
        n = state.n - 1
        tracer.info["loaded"] = {
            "active": [int(p) for p in state.live_paths()],
            "diag": [float(state.state[i][i]) for i in range(n)],
            "locked0": [[list(map(int, a)), list(map(str, b))] for a, b, *_o in state.locked0],
            "cstep": int(state.cstep),
            # what was read back from order.txt: per live path the order vectors of all frames
            "orders": {str(int(p.path_number)): [[round(float(x), 6) for x in pp.order] for pp in p.phasepoints]
                       for p in state._trajs[:n]},
        }
        return md, state

    sched.setup_internal = setup_internal
    sched.setup_runner = lambda state: (SyncRunner(), FList())
    return submitted


def classify_config(cfg):
    if cfg is None:
        return "refuses"
    cur = cfg.get("current", {})
    if "restarted_from" not in cur:
        return "startsFromZero"
    return "starts"


def child_main(job):
    """runs in a forked child.  job: {root, result, kind: fresh|restart, entry, spec, crash, completion}"""
    root = job["root"]
    if job["kind"] == "fresh":
        make_rundir(root, job["spec"])
    os.chdir(root)
    fake_pid = int(job.get("pid", 11111))
    os.getpid = lambda: fake_pid      # trajectory file names carry the pid; make them reproducible
    tr = Tracer(root, job["result"], job.get("crash"))
    sys.addaudithook(tr.hook)
    builtins.open = tr.open
    tr.wrap_os()
    import logging
    logging.disable(logging.CRITICAL)
    from infretis.setup import setup_config
    import infretis.scheduler as sched
    submitted = install(tr, job.get("completion", "fifo"))
    tr.info["submitted"] = submitted
    tr.info["kind"] = job["kind"]
    entry = job.get("entry", "infretis.toml" if job["kind"] == "fresh" else "restart.toml")
    outcome = None
    try:
        tr.enabled = True
        try:
            cfg = setup_config(entry)
        except BaseException as e:  # noqa: BLE001
            tr.enabled = False
            tr.dump(outcome="raises", phase="setup_config", error=f"{type(e).__name__}: {str(e)[:200]}")
            os._exit(0)
        outcome = classify_config(cfg)
        if cfg is not None:
            cur = cfg["current"]
            tr.info["config_current"] = {"cstep": cur.get("cstep"), "active": list(cur.get("active", [])),
                                         "locked": cur.get("locked", []), "traj_num": cur.get("traj_num"),
                                         "restarted_from": cur.get("restarted_from"),
                                         "data_file": cfg["output"].get("data_file")}
        tr.info["outcome"] = outcome
        if cfg is None:
            tr.enabled = False
            tr.dump(phase="setup_config")
            os._exit(0)
        if job.get("setup_only"):
            tr.enabled = False
            tr.dump(phase="setup_only")
            os._exit(0)
        try:
            sched.scheduler(cfg)
        except BaseException as e:  # noqa: BLE001
            tr.enabled = False
            phase = "run" if "loaded" in tr.info else "setup_internal"
            tr.dump(outcome="raises" if phase == "setup_internal" else outcome, phase=phase,
                    error=f"{type(e).__name__}: {str(e)[:200]}", tb=traceback.format_exc()[-1500:])
            os._exit(0)
        tr.enabled = False
        tr.dump(phase="finished")
    except SystemExit:
        raise
    os._exit(0)


# --------------------------------------------------------------------------------------------
# parent side: fan-out of forked children, disk snapshots
# --------------------------------------------------------------------------------------------
def preload():
    """import infretis in the parent so that forked children start in milliseconds"""
    import tomli_w  # noqa: F401
    import infretis.scheduler  # noqa: F401
    import infretis.setup  # noqa: F401
    import infretis.core.tis  # noqa: F401
    import infretis.classes.engines.enginebase  # noqa: F401


def runjobs(jobs, nproc=16, timeout=120):
    """fork one child per job (at most nproc alive); returns list of (rc, result|None)"""
    preload()
    results = [None] * len(jobs)
    running = {}
    nxt = 0
    try:
        return _runjobs(jobs, nproc, timeout, results, running)
    finally:
        # whatever happened (time-out alarm of the framework, exception): no child survives, all are reaped
        for pid in list(running):
            try:
                os.killpg(pid, signal.SIGKILL)
            except (ProcessLookupError, PermissionError):
                try:
                    os.kill(pid, signal.SIGKILL)
                except ProcessLookupError:
                    pass
            try:
                os.waitpid(pid, 0)
            except ChildProcessError:
                pass


def _runjobs(jobs, nproc, timeout, results, running):
    nxt = 0
    while nxt < len(jobs) or running:
        while nxt < len(jobs) and len(running) < nproc:
            job = jobs[nxt]
            try:
                os.remove(job["result"])
            except OSError:
                pass
            sys.stdout.flush()
            sys.stderr.flush()
            pid = os.fork()
            if pid == 0:
                try:
                    os.setsid()            # own session/group: killpg reaches everything a child may start
                    signal.alarm(0)
                    signal.signal(signal.SIGALRM, signal.SIG_DFL)
                    devnull = os.open(os.devnull, os.O_WRONLY)
                    os.dup2(devnull, 1)
                    if not os.environ.get("C08_DEBUG"):
                        os.dup2(devnull, 2)
                    child_main(job)
                except BaseException:  # noqa: BLE001
                    try:
                        with _REAL_OPEN(job["result"] + ".err", "w") as f:
                            f.write(traceback.format_exc())
                    finally:
                        os._exit(3)
                os._exit(0)
            running[pid] = (nxt, time.time())
            nxt += 1
        # reap
        done_any = False
        for pid in list(running):
            idx, t0 = running[pid]
            r, status = os.waitpid(pid, os.WNOHANG)
            if r == 0:
                if time.time() - t0 > timeout:
                    try:
                        os.killpg(pid, signal.SIGKILL)
                    except (ProcessLookupError, PermissionError):
                        os.kill(pid, signal.SIGKILL)
                    os.waitpid(pid, 0)
                    results[idx] = ("timeout", None)
                    del running[pid]
                    done_any = True
                continue
            rc = os.waitstatus_to_exitcode(status)
            res = None
            try:
                with _REAL_OPEN(jobs[idx]["result"]) as f:
                    res = json.load(f)
            except (OSError, ValueError):
                try:
                    with _REAL_OPEN(jobs[idx]["result"] + ".err") as f:
                        res = {"harness_error": f.read()}
                except OSError:
                    res = None
            results[idx] = (rc, res)
            del running[pid]
            done_any = True
        if not done_any:
            time.sleep(0.002)
    return results


def snapshot(root, sub=("load", "restart.toml", "restart.toml.tmp")):
    """{relpath: 'dir' | (size, sha1)} for the parts of the tree the property speaks about"""
    out = {}
    for s in sub:
        p = os.path.join(root, s)
        if os.path.isdir(p):
            out[s] = "dir"
            for dp, dn, fn in os.walk(p):
                for d in dn:
                    out[os.path.relpath(os.path.join(dp, d), root)] = "dir"
                for f in fn:
                    fp = os.path.join(dp, f)
                    with _REAL_OPEN(fp, "rb") as fh:
                        b = fh.read()
                    out[os.path.relpath(fp, root)] = (len(b), hashlib.sha1(b).hexdigest()[:12])
        elif os.path.isfile(p):
            with _REAL_OPEN(p, "rb") as fh:
                b = fh.read()
            out[s] = (len(b), hashlib.sha1(b).hexdigest()[:12])
    for f in sorted(os.listdir(root)):
        if f.startswith("infretis_data") and f.endswith(".txt"):
            with _REAL_OPEN(os.path.join(root, f), "rb") as fh:
                b = fh.read()
            out[f] = (len(b), hashlib.sha1(b).hexdigest()[:12])
    return out


def data_rows(root, fname="infretis_data.txt"):
    """path numbers of the rows of a data file; a torn/garbled line is reported as ('torn', text)"""
    rows = []
    p = os.path.join(root, fname)
    if not os.path.isfile(p):
        return None
    with _REAL_OPEN(p, "rb") as f:
        raw = f.read().decode("utf8", "replace")
    lines = raw.split("\n")
    tail_unterminated = lines[-1] != ""
    if not tail_unterminated:
        lines.pop()
    ncols = None
    for i, ln in enumerate(lines):
        if ln.startswith("#"):
            continue
        toks = ln.split()
        ok = True
        try:
            pn = int(toks[0])
            int(toks[1])
            float(toks[2])
        except (ValueError, IndexError):
            ok = False
            pn = None
        if ok:
            if ncols is None:
                ncols = len(toks)
            ok = len(toks) == ncols and not (tail_unterminated and i == len(lines) - 1)
        rows.append(pn if ok else ("torn", ln[:60]))
    return rows


def copytree(src, dst):
    shutil.copytree(src, dst, symlinks=True)
