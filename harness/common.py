"""Common machinery of every check (DESIGN §2).

A property module `harness/props/cXX.py` defines `run(ctx)`.  `ctx` gives it:
  ctx.tier / ctx.seed / ctx.rng      tier and the single PRNG all random choices come from
  ctx.driver(lines) -> list[str]     runs the compiled Lean driver of this property
  ctx.count(...) / ctx.sample(...)   coverage bookkeeping (measured, written to evidence)
  ctx.disagree(case, code, model)    a correspondence disagreement (model vs code)
  ctx.fail(signature, what, replay)  the property predicate failed on the implementation
and the framework does the rest: Lean build + audit, known findings, VIOLATION lines,
replay files, evidence file, exit code (0 held / 1 violation / 2 time-out or infrastructure).
"""
from __future__ import annotations

import fcntl
import hashlib
import importlib
import importlib.util  # noqa: F401  (infretis.factory relies on it being imported)
import json
import os
import random
import re
import signal
import subprocess
import sys
import time
from pathlib import Path

VERIF = Path(__file__).resolve().parent.parent
LEAN = VERIF / "lean"
REPO = Path(os.environ.get("INFRETIS_REPO", "/repo"))
EVIDENCE = VERIF / "evidence"
REPLAYS = VERIF / "replays"
CORPUS = VERIF / "corpus"
ALLOWED_AXIOMS = {"propext", "Classical.choice", "Quot.sound"}
FORBIDDEN = re.compile(
    r"\bsorry\b|\badmit\b|^\s*axiom\s|native_decide|bv_decide|implemented_by|\bunsafe\s|maxHeartbeats\s+0\b|\bextern\b",
    re.M,
)

TRUSTED_BASE = [
    "Lean 4.33.0 kernel; axioms ⊆ {propext, Classical.choice, Quot.sound} (audited each run by #print axioms)",
    "no sorry/admit/axiom/native_decide/bv_decide/implemented_by/unsafe (grep each run, comments stripped)",
    "hand-written Lean model of the anchored code (modelled, not verified) — tied by this run's correspondence check",
    "Python harness: generators, canonicalisation, line protocol, compiled driver (leanc)",
]


class Timeout(Exception):
    pass


def strip_lean_comments(src: str) -> str:
    out = []
    i, n, depth = 0, len(src), 0
    while i < n:
        if src.startswith("/-", i):
            depth += 1
            i += 2
            continue
        if depth and src.startswith("-/", i):
            depth -= 1
            i += 2
            continue
        if depth:
            if src[i] == "\n":
                out.append("\n")
            i += 1
            continue
        if src.startswith("--", i):
            j = src.find("\n", i)
            i = n if j < 0 else j
            continue
        out.append(src[i])
        i += 1
    return "".join(out)


def sh(cmd, cwd=None, timeout=None, env=None):
    p = subprocess.run(cmd, cwd=cwd, timeout=timeout, env=env, stdout=subprocess.PIPE,
                       stderr=subprocess.STDOUT, text=True)
    return p.returncode, p.stdout


class Ctx:
    def __init__(self, prop: str, tier: str, seed: int, replay: str | None = None):
        self.prop = prop
        self.tier = tier
        self.seed = seed
        self.replay = replay
        self.rng = random.Random(f"{prop}:{seed}")
        self.t0 = time.time()
        self.evaluations = 0
        self.nontrivial = set()
        self.nontrivial_overflow = 0
        self.samples = []
        self.hist = {}
        self.rule = ""
        self.extra = {}
        self.assumptions = []
        self.violations = 0
        self.known_hits = []
        self.disagreements = []
        self.fails = []
        self.proof = {"obligations": 0, "discharged": 0, "theorems": [], "problems": []}
        self.level = "proof"
        self.exhaustive = None
        self.explanation = None
        self._findings = json.loads((VERIF / "known_findings.json").read_text())["findings"]
        self._driver_ok = False
        self._printed = set()

    # ------------------------------------------------------------------ coverage
    def count(self, n=1, **hist):
        self.evaluations += n
        for k, v in hist.items():
            key = f"{k}={v}"
            self.hist[key] = self.hist.get(key, 0) + n

    def hit(self, key, n=1):
        self.hist[key] = self.hist.get(key, 0) + n

    def distinct(self, key):
        """register one distinct non-trivial case (hashed; measured, not estimated)"""
        h = hash(key)
        self.nontrivial.add(h)

    def sample(self, obj, cap=6):
        if len(self.samples) < cap:
            self.samples.append(obj)

    @property
    def quick(self):
        return self.tier == "quick"

    def elapsed(self):
        return time.time() - self.t0

    # ------------------------------------------------------------------ Lean side
    def lean_build(self):
        """(re)build library + this property's driver; returns (ok, log)."""
        LEANLOCK = LEAN / ".lake-verif.lock"
        LEANLOCK.parent.mkdir(exist_ok=True)
        with open(LEANLOCK, "w") as lk:
            fcntl.flock(lk, fcntl.LOCK_EX)
            targets = []
            drv = f"drv_{self.prop.lower()}"
            if (LEAN / "Infretis" / "Props" / f"{self.prop}.lean").exists():
                targets.append(f"Infretis.Props.{self.prop}")
            if (LEAN / "Drivers" / f"{self.prop}.lean").exists():
                targets.append(drv)
            rc, log = sh(["lake", "build"] + targets, cwd=LEAN, timeout=3000)
        self._driver_ok = (LEAN / ".lake/build/bin" / drv).exists() and rc == 0
        return rc == 0, log

    def import_closure(self):
        """project files this property's theorems and driver depend on (transitively)"""
        todo = [LEAN / "Infretis" / "Props" / f"{self.prop}.lean", LEAN / "Drivers" / f"{self.prop}.lean"]
        seen = []
        while todo:
            f = todo.pop()
            if f in seen or not f.exists():
                continue
            seen.append(f)
            for m in re.findall(r"^\s*(?:public\s+)?import\s+((?:Infretis|Drivers)\.[\w.]+)", strip_lean_comments(f.read_text()), re.M):
                todo.append(LEAN / (m.replace(".", "/") + ".lean"))
        return seen

    def required_theorems(self):
        f = LEAN / "obligations" / f"{self.prop}.json"
        return json.loads(f.read_text()) if f.exists() else []

    def audit(self):
        """grep for escapes + #print axioms of every required theorem of this property."""
        problems = []
        for f in self.import_closure():
            src = strip_lean_comments(f.read_text())
            for m in FORBIDDEN.finditer(src):
                problems.append(f"forbidden token {m.group(0).strip()!r} in {f.relative_to(LEAN)}")
        thms = self.required_theorems()
        props_file = LEAN / "Infretis" / "Props" / f"{self.prop}.lean"
        n_examples = 0
        declared = set()
        if props_file.exists():
            # property theorems live in Props/Cxx.lean and in Props files it imports (e.g. C17Runner)
            for pf in [f for f in self.import_closure() if f.parent.name == "Props"]:
                src = strip_lean_comments(pf.read_text())
                n_examples += len(re.findall(r"^\s*example\b", src, re.M))
                declared |= set(re.findall(r"^\s*(?:private\s+|protected\s+)?theorem\s+([^\s:({\[]+)", src, re.M))
        for t in thms:
            if t.split(".")[-1] not in declared:
                problems.append(f"required theorem {t} is not declared in Props/{self.prop}.lean")
        discharged = 0
        results = []
        if thms and props_file.exists():
            aud = LEAN / ".lake" / f"audit_{self.prop}.lean"
            aud.parent.mkdir(exist_ok=True)
            aud.write_text(f"import Infretis.Props.{self.prop}\n" + "".join(f"#print axioms {t}\n" for t in thms))
            rc, out = sh(["lake", "env", "lean", str(aud)], cwd=LEAN, timeout=1200)
            text = " ".join(out.split())
            for t in thms:
                m = re.search(re.escape(f"'{t}'") + r" (does not depend on any axioms|depends on axioms: \[([^\]]*)\])", text)
                if not m:
                    problems.append(f"no axiom report for {t}")
                    results.append({"theorem": t, "axioms": None})
                    continue
                axs = [] if m.group(2) is None else [a.strip() for a in m.group(2).split(",") if a.strip()]
                bad = [a for a in axs if a not in ALLOWED_AXIOMS]
                results.append({"theorem": t, "axioms": axs})
                if bad:
                    problems.append(f"{t} depends on non-allowed axioms {bad}")
                else:
                    discharged += 1
        # thorough tier: independent re-check of the compiled theorems with leanchecker
        if self.tier == "thorough" and props_file.exists() and not problems:
            rc, out = sh(["lake", "env", "leanchecker", f"Infretis.Props.{self.prop}"], cwd=LEAN, timeout=3000)
            self.extra["leanchecker"] = {"rc": rc, "tail": out[-300:]}
            if rc != 0:
                problems.append(f"leanchecker rejected Infretis.Props.{self.prop}: {out[-400:]}")
        self.proof = {
            "obligations": len(thms) + n_examples,
            "discharged": discharged + (n_examples if not problems or discharged == len(thms) else 0),
            "theorems": results,
            "examples": n_examples,
            "problems": problems,
        }
        return not problems

    def driver(self, lines, prop=None):
        """Run the compiled Lean driver on `lines`; returns one answer per line."""
        prop = prop or self.prop
        exe = LEAN / ".lake/build/bin" / f"drv_{prop.lower()}"
        if not exe.exists():
            raise RuntimeError(f"driver {exe} missing")
        data = "".join(l + "\n" for l in lines)
        p = subprocess.run([str(exe)], input=data, stdout=subprocess.PIPE, stderr=subprocess.PIPE, text=True)
        if p.returncode != 0:
            raise RuntimeError(f"driver failed rc={p.returncode}: {p.stderr[:2000]}")
        out = p.stdout.split("\n")
        if out and out[-1] == "":
            out.pop()
        if len(out) != len(lines):
            raise RuntimeError(f"driver answered {len(out)} lines for {len(lines)} requests")
        return out

    # ------------------------------------------------------------------ findings
    def _known(self, signature):
        for f in self._findings:
            if f["property"] == self.prop and f["state"] == "open" and f["signature"] == signature:
                return f
        return None

    def disagree(self, case, code, model, note=""):
        """model and code differ on `case` (not by itself a violation of the property)."""
        if len(self.disagreements) < 50:
            self.disagreements.append({"case": case, "code": code, "model": model, "note": note})
        else:
            self.extra["disagreements_dropped"] = self.extra.get("disagreements_dropped", 0) + 1

    def fail(self, signature, what, replay):
        """the property predicate fails on the implementation for a concrete input."""
        k = self._known(signature)
        if k is not None:
            if signature not in self._printed:
                self._printed.add(signature)
                print(f"KNOWN-FINDING: property={self.prop} {k['what']} [{signature}]", flush=True)
                self.known_hits.append(signature)
            return
        for f in self.fails:
            if f["signature"] == signature:
                f["occurrences"] += 1
                return
        if len(self.fails) < 40:
            self.fails.append({"signature": signature, "what": what, "replay": replay, "occurrences": 1})
        else:
            self.extra["fails_dropped"] = self.extra.get("fails_dropped", 0) + 1

    def write_replay(self, obj):
        REPLAYS.mkdir(exist_ok=True)
        blob = json.dumps(obj, sort_keys=True, default=str)
        h = hashlib.sha256(blob.encode()).hexdigest()[:12]
        p = REPLAYS / f"{self.prop}-{h}.json"
        p.write_text(json.dumps(obj, indent=1, sort_keys=True, default=str))
        return p.relative_to(VERIF)

    # ------------------------------------------------------------------ end of run
    def finish(self):
        rc = 0
        lines = []
        # 1. concrete failures of the property predicate on the implementation
        seen = set()
        for f in self.fails:
            if f["signature"] in seen:
                continue
            seen.add(f["signature"])
            p = self.write_replay({"property": self.prop, "kind": "failing-input", "tier": self.tier,
                                   "seed": self.seed, **f})
            lines.append(f"VIOLATION property={self.prop} replay={p}")
        # 2. broken proof obligations / broken correspondence without failing input
        if not lines and (self.proof["problems"] or self.disagreements):
            obj = {"property": self.prop, "kind": "no-failing-input-found", "tier": self.tier, "seed": self.seed,
                   "broken_proof_obligations": self.proof["problems"],
                   "broken_correspondence": self.disagreements[:20],
                   "note": "the theorem(s)/correspondence named here no longer check; the search over the "
                           "implementation found no input on which the property predicate itself fails"}
            p = self.write_replay(obj)
            lines.append(f"VIOLATION property={self.prop} replay={p} no-failing-input-found")
        self.violations = len(lines)
        for l in lines:
            print(l, flush=True)
        if lines:
            rc = 1
        self.write_evidence()
        return rc

    def write_evidence(self):
        EVIDENCE.mkdir(exist_ok=True)
        cov = {
            "evaluations": int(self.evaluations),
            "distinct_nontrivial": int(len(self.nontrivial)),
            "rule": self.rule,
            "samples": self.samples if self.samples else ["(no case generated)"],
            "histogram": dict(sorted(self.hist.items())),
            "model_vs_code_disagreements": len(self.disagreements),
            "property_failures_on_code": len(self.fails),
            "known_findings_seen": self.known_hits,
        }
        if self.level == "proof":
            cov.update({
                "obligations": int(self.proof["obligations"]),
                "discharged": int(self.proof["discharged"]),
                "checker_cmd": f"cd lean && lake build Infretis.Props.{self.prop} drv_{self.prop.lower()} && lake env lean .lake/audit_{self.prop}.lean  (#print axioms)",
                "trusted_base": TRUSTED_BASE,
                "theorems": self.proof["theorems"],
                "proof_problems": self.proof["problems"],
            })
        if self.explanation:
            cov["explanation"] = self.explanation
        if self.exhaustive is not None:
            cov["exhaustive"] = bool(self.exhaustive)
        cov.update(self.extra)
        ev = {
            "property_id": self.prop,
            "tier": self.tier,
            "seed": int(self.seed),
            "level": self.level,
            "coverage": cov,
            "assumptions": list(dict.fromkeys(str(a) for a in self.assumptions)),
            "wall_s": round(time.time() - self.t0, 3),
            "violations": int(self.violations),
        }
        (EVIDENCE / f"{self.prop}.json").write_text(json.dumps(ev, indent=1, default=str))


def frac_token(x):
    """exact rational token for a Python float / int / Fraction"""
    from fractions import Fraction
    f = Fraction(x)
    return str(f.numerator) if f.denominator == 1 else f"{f.numerator}/{f.denominator}"


def parse_frac(tok):
    from fractions import Fraction
    return Fraction(tok)


def lst(xs, f=str):
    return " ".join([str(len(xs))] + [f(x) for x in xs])


def hexs(s: str | bytes) -> str:
    b = s.encode() if isinstance(s, str) else s
    return b.hex() if b else "-"


def err_kind(e: BaseException) -> str:
    from_map = [
        (AssertionError, "assert"), (IndexError, "index"), (KeyError, "key"), (ZeroDivisionError, "zerodiv"),
        (ValueError, "value"), (TypeError, "type"), (FileNotFoundError, "nofile"), (OSError, "os"),
        (RuntimeError, "runtime"),
    ]
    name = type(e).__name__
    if name == "TOMLConfigError":
        return "err:config"
    for cls, k in from_map:
        if isinstance(e, cls):
            return "err:" + k
    return "err:other:" + name


def start_code_coverage(tier):
    """Measured side channel for the quality of the tie: which lines/branches of the functions this property's
    coverage map (lean/coverage/Cxx.json) calls `modelled` or `tied` did THIS run's tie execute (main process only).
    On in the thorough tier, or with VERIF_COV=1; never a violation, only evidence."""
    want = os.environ.get("VERIF_COV", "1" if tier == "thorough" else "0")
    if want != "1":
        return None
    try:
        import coverage
        import importlib.util  # noqa: F401  (infretis.factory needs it imported)
        spec = importlib.util.find_spec("infretis")
        root = str(Path(spec.origin).parent)
        c = coverage.Coverage(branch=True, include=[root + "/*"], data_file=None, config_file=False)
        c.start()
        c._verif_root = root
        return c
    except Exception:  # noqa: BLE001
        return None


def finish_code_coverage(cov, ctx):
    if cov is None:
        return
    try:
        cov.stop()
        import tempfile
        mp = VERIF / "lean" / "coverage" / f"{ctx.prop}.json"
        cmap = json.loads(mp.read_text()) if mp.exists() else {}
        with tempfile.TemporaryDirectory(dir=str(VERIF / "scratch") if (VERIF / "scratch").is_dir() else None) as td:
            out = Path(td) / "cov.json"
            import contextlib
            import io
            with contextlib.redirect_stdout(io.StringIO()), contextlib.redirect_stderr(io.StringIO()):
                cov.json_report(outfile=str(out), ignore_errors=True)
            rep = json.loads(out.read_text())
        root = Path(cov._verif_root).parent
        per = {}
        tot = {"functions": 0, "fully_covered": 0, "never_entered": 0, "statements": 0, "covered_statements": 0,
               "branches": 0, "covered_branches": 0}
        for fname, fd in rep.get("files", {}).items():
            try:
                rel = str(Path(fname).resolve().relative_to(root))
            except ValueError:
                rel = fname
            for q, d in fd.get("functions", {}).items():
                key = f"{rel}::{q}"
                ent = cmap.get(key)
                if not ent or ent.get("status") not in ("modelled", "tied"):
                    continue
                sm = d.get("summary", {})
                # the `def` line runs at import time, before measurement: a function whose only missing line is its
                # first line is fully covered
                first = min(d.get("executed_lines", []) + d.get("missing_lines", []) or [0])
                missing = [l for l in d.get("missing_lines", []) if l != first]
                n = sm.get("num_statements", 0)
                covd = n - len(missing)
                tot["functions"] += 1
                tot["statements"] += n
                tot["covered_statements"] += covd
                tot["branches"] += sm.get("num_branches", 0)
                tot["covered_branches"] += sm.get("covered_branches", 0)
                entered = bool(d.get("executed_lines")) and (len(d.get("executed_lines")) > 1 or n <= 1)
                if not entered:
                    tot["never_entered"] += 1
                if not missing and sm.get("missing_branches", 0) == 0:
                    tot["fully_covered"] += 1
                else:
                    per[key] = {"status": ent["status"], "missing_lines": missing[:40],
                                "missing_branches": [list(b) for b in d.get("missing_branches", [])][:40]}
        ctx.extra["tie_code_coverage"] = {
            "scope": "main process of this check only (child processes, worker pools and fake MD programs are not "
                     "measured); functions = those lean/coverage/%s.json lists as modelled or tied" % ctx.prop,
            "summary": tot, "not_fully_covered": per}
    except Exception as e:  # noqa: BLE001
        ctx.extra["tie_code_coverage"] = {"error": f"{type(e).__name__}: {e}"}


def main(argv=None):
    import argparse
    ap = argparse.ArgumentParser()
    ap.add_argument("prop")
    ap.add_argument("--tier", default=os.environ.get("VERIF_TIER", "quick"))
    ap.add_argument("--replay", default=None)
    ap.add_argument("--budget", type=int, default=None, help="wall-clock limit in s (exit 2 beyond)")
    a = ap.parse_args(argv)
    prop = a.prop.upper()
    tier = a.tier if a.tier in ("quick", "thorough") else "quick"
    seed = int(os.environ.get("VERIF_SEED", "0") or 0)
    ctx = Ctx(prop, tier, seed, a.replay)
    budget = a.budget or (1500 if tier == "quick" else 5400)

    def on_alarm(signum, frame):
        raise Timeout()

    signal.signal(signal.SIGALRM, on_alarm)
    signal.alarm(budget)
    sys.path.insert(0, str(VERIF / "harness"))
    os.chdir(VERIF)
    cov = start_code_coverage(tier)
    try:
        ok, log = ctx.lean_build()
        if not ok:
            ctx.proof["problems"].append("lake build failed: " + log[-1500:])
            ctx.audit_ok = False
        else:
            ctx.audit()
        mod = importlib.import_module(f"props.{prop.lower()}")
        if a.replay:
            rc = mod.replay(ctx, json.loads(Path(a.replay).read_text()))
            sys.exit(rc)
        # corpus first: minimised past failures / witnesses of known and fixed findings
        cdir = CORPUS / prop
        if cdir.is_dir() and not getattr(mod, "CORPUS_IN_RUN", False):
            import contextlib
            import io
            for cf in sorted(cdir.glob("*.json")):
                try:
                    obj = json.loads(cf.read_text())
                    buf = io.StringIO()
                    # a separate context: a module's replay must not disturb the bookkeeping of the run
                    cctx = Ctx(prop, tier, seed)
                    cctx._driver_ok = ctx._driver_ok
                    with contextlib.redirect_stdout(buf):
                        r = mod.replay(cctx, obj)
                    ctx.hit("corpus_cases_replayed")
                    if r:
                        ctx.fail(obj.get("signature", f"{prop}:corpus:{cf.stem}"),
                                 "corpus case fails on the current code: " + str(obj.get("what", cf.name)),
                                 obj.get("replay", {"corpus_file": str(cf.relative_to(VERIF))}))
                except Exception as e:  # noqa: BLE001
                    ctx.extra.setdefault("corpus_errors", []).append(f"{cf.name}: {type(e).__name__}: {e}")
        # syntactic side channel: is the anchored code still the code the model was aligned with?
        try:
            import anchors
            anch = anchors.compare(prop)
        except Exception as e:  # noqa: BLE001
            anch = {"error": f"{type(e).__name__}: {e}", "changed": []}
        ctx.extra["anchored_source"] = anch
        mod.run(ctx)
        # the anchored code differs from the aligned one: spend more search effort on it (never a violation
        # by itself; further seeds of the same generators, while time allows and nothing has failed yet)
        if anch.get("changed") and tier == "quick" and os.environ.get("VERIF_NO_ESCALATE") != "1":
            rounds = 0
            for k in range(1, 4):
                if ctx.fails or ctx.elapsed() > 0.3 * budget:
                    break
                ctx.seed = seed + 1000003 * k
                ctx.rng = random.Random(f"{prop}:{ctx.seed}")
                try:
                    mod.run(ctx)
                    rounds += 1
                except Timeout:
                    raise
                except Exception as e:  # noqa: BLE001
                    ctx.extra.setdefault("escalation_errors", []).append(f"{type(e).__name__}: {e}")
                    break
            ctx.seed = seed
            ctx.extra["escalation_rounds"] = rounds
        finish_code_coverage(cov, ctx)
        rc = ctx.finish()
        print(f"[{prop}] tier={tier} seed={seed} evaluations={ctx.evaluations} distinct={len(ctx.nontrivial)} "
              f"obligations={ctx.proof['obligations']}/{ctx.proof['discharged']} disagreements={len(ctx.disagreements)} "
              f"fails={len(ctx.fails)} known={ctx.known_hits} wall={ctx.elapsed():.1f}s rc={rc}", flush=True)
        sys.exit(rc)
    except Timeout:
        print(f"[{prop}] TIMEOUT after {budget}s (exit 2, not a violation)", flush=True)
        sys.exit(2)
    except SystemExit:
        raise
    except BaseException:  # noqa: BLE001  — a crash of the harness itself is infrastructure, never a violation
        import traceback
        traceback.print_exc()
        print(f"[{prop}] HARNESS ERROR (exit 2, not a violation)", flush=True)
        sys.exit(2)


if __name__ == "__main__":
    main()
