"""Function-level coverage map: which functions of /repo are inside a Lean model, which are only exercised by a
tie, which are outside every property.

The map is hand-maintained, one file per property package (`lean/coverage/Cxx.json`), and CHECKED by this tool:

    {
      "infretis/classes/repex.py::REPEX_state.inf_retis": {
          "status": "modelled",                      # modelled | tied | runtime | outside
          "lean":   ["Infretis.Perm.infRetis"],      # model definitions that mirror it (status modelled only)
          "theorems": ["Infretis.C02.infRetis_eq_spec_full"],   # optional: main statements about it
          "tie":    "harness/props/c02.py",          # where the real function is executed and compared/judged
          "note":   "float accumulation outside the model"
      }, ...
    }

status:
  modelled  a Lean definition mirrors the function branch by branch; theorems speak about that definition; the tie
            runs both on the same inputs
  tied      the real function is executed by a tie and judged by property predicates (or is glue on the path of a
            modelled function and therefore inside every state-for-state comparison) but has no Lean counterpart
  runtime   behaviour lives in the runtime (OS, subprocess, asyncio, numpy internals, MD program): named, not modelled
  outside   not on the path of any of the 20 properties (printing, CLI, plotting, helpers of tools)

Checks made here (exit 1 if one fails; this is a consistency tool for the maintainer, not a property check):
  * every key names a function/method that exists in /repo's current tree (same qualnames as harness/anchors.py)
  * every `lean` name resolves to a `def`/`structure`/`inductive`/`abbrev`/`instance` in lean/Infretis/Model/*.lean
  * every `theorems` name is registered in some lean/obligations/*.json
  * every `tie` file exists
Outputs: per source file and overall: number of functions and source lines per status; the list of functions of
anchored files that no package has classified.  `--md` prints the DESIGN.md section.
"""
from __future__ import annotations

import ast
import json
import re
import sys
from pathlib import Path

VERIF = Path(__file__).resolve().parent.parent
REPO = Path("/repo")
STATUSES = ["modelled", "tied", "runtime", "outside"]
RANK = {s: i for i, s in enumerate(STATUSES)}


def functions_of(path: Path) -> dict:
    """qualname -> (first line, last line, number of code lines) for every function and method"""
    try:
        tree = ast.parse(path.read_text())
    except (OSError, SyntaxError):
        return {}
    out = {}

    def visit(body, prefix):
        for n in body:
            if isinstance(n, (ast.FunctionDef, ast.AsyncFunctionDef)):
                body_nodes = n.body
                start = n.lineno
                if body_nodes and isinstance(body_nodes[0], ast.Expr) and isinstance(getattr(body_nodes[0], "value", None), ast.Constant) \
                        and isinstance(body_nodes[0].value.value, str):
                    doc = body_nodes[0].end_lineno - body_nodes[0].lineno + 1
                else:
                    doc = 0
                out[prefix + n.name] = (start, n.end_lineno, max(1, n.end_lineno - start + 1 - doc))
            elif isinstance(n, ast.ClassDef):
                visit(n.body, prefix + n.name + ".")

    visit(tree.body, "")
    return out


def lean_names() -> set:
    """fully qualified names declared in the model files (namespace tracking by `namespace`/`end`)"""
    names = set()
    decl = re.compile(r"^\s*(?:@\[[^\]]*\]\s*)*(?:private\s+|protected\s+|partial\s+|noncomputable\s+)*"
                      r"(?:def|structure|inductive|abbrev|instance|class|theorem|lemma)\s+([A-Za-z_][\w.'!?]*)")
    for f in sorted((VERIF / "lean" / "Infretis" / "Model").glob("*.lean")):
        stack = []
        for line in f.read_text().splitlines():
            m = re.match(r"^\s*namespace\s+([\w.]+)", line)
            if m:
                stack.append(m.group(1))
                continue
            m = re.match(r"^\s*end\s+([\w.]+)\s*$", line)
            if m and stack and stack[-1].split(".")[-1] == m.group(1).split(".")[-1]:
                stack.pop()
                continue
            m = decl.match(line)
            if m:
                names.add(".".join(stack + [m.group(1)]))
    return names


def obligations() -> set:
    out = set()
    for f in (VERIF / "lean" / "obligations").glob("*.json"):
        out.update(json.loads(f.read_text()))
    return out


def anchored_files() -> list:
    files = []
    for l in (VERIF / "properties.jsonl").read_text().splitlines():
        if l.strip():
            for f in json.loads(l)["anchors"]["files"]:
                if f not in files and f.endswith(".py") and not f.startswith("test"):
                    files.append(f)
    return sorted(files)


def load_maps():
    maps = {}
    for f in sorted((VERIF / "lean" / "coverage").glob("C*.json")):
        maps[f.stem] = json.loads(f.read_text())
    return maps


def main():
    md = "--md" in sys.argv
    maps = load_maps()
    lnames = lean_names()
    obl = obligations()
    files = anchored_files()
    funcs = {f: functions_of(REPO / f) for f in files}
    problems = []
    best = {}   # "file::qual" -> (status, [packages], lean names)
    for pkg, mp in maps.items():
        for key, ent in mp.items():
            if "::" not in key:
                problems.append(f"{pkg}: bad key {key}")
                continue
            f, q = key.split("::", 1)
            if f not in funcs:
                funcs[f] = functions_of(REPO / f)
            if q not in funcs[f]:
                problems.append(f"{pkg}: {key} does not exist in /repo")
                continue
            st = ent.get("status")
            if st not in RANK:
                problems.append(f"{pkg}: {key} bad status {st!r}")
                continue
            if st == "modelled" and not ent.get("lean"):
                problems.append(f"{pkg}: {key} is 'modelled' but names no Lean definition")
            for n in ent.get("lean", []):
                if n not in lnames:
                    problems.append(f"{pkg}: {key}: Lean name {n} not declared in lean/Infretis/Model")
            for n in ent.get("theorems", []):
                if n not in obl:
                    problems.append(f"{pkg}: {key}: theorem {n} not in lean/obligations")
            t = ent.get("tie")
            if t and not (VERIF / t).exists():
                problems.append(f"{pkg}: {key}: tie file {t} missing")
            if st in ("modelled", "tied") and not t:
                problems.append(f"{pkg}: {key}: status {st} needs a tie file")
            cur = best.get(key)
            if cur is None or RANK[st] < RANK[cur[0]]:
                best[key] = (st, [pkg] + (cur[1] if cur else []), list(ent.get("lean", [])))
            else:
                cur[1].append(pkg)
                if st == cur[0]:
                    cur[2].extend(x for x in ent.get("lean", []) if x not in cur[2])
    rows = []
    tot = {s: [0, 0] for s in STATUSES + ["unclassified"]}
    unclassified = []
    for f in sorted(funcs):
        per = {s: [0, 0] for s in STATUSES + ["unclassified"]}
        for q, (a, b, n) in funcs[f].items():
            st = best.get(f"{f}::{q}", ("unclassified",))[0]
            per[st][0] += 1
            per[st][1] += n
            tot[st][0] += 1
            tot[st][1] += n
            if st == "unclassified" and f in files:
                unclassified.append((f, q, n))
        rows.append((f, per))
    if md:
        print("| source file | modelled (functions / code lines) | tied | runtime | outside | unclassified |")
        print("|---|---|---|---|---|---|")
        for f, per in rows:
            print(f"| {f} | " + " | ".join(f"{per[s][0]} / {per[s][1]}" for s in STATUSES + ["unclassified"]) + " |")
        print("| **all** | " + " | ".join(f"**{tot[s][0]} / {tot[s][1]}**" for s in STATUSES + ["unclassified"]) + " |")
    else:
        for f, per in rows:
            print(f"{f:48s} " + "  ".join(f"{s}={per[s][0]}/{per[s][1]}" for s in STATUSES + ["unclassified"]))
        print(f"{'ALL':48s} " + "  ".join(f"{s}={tot[s][0]}/{tot[s][1]}" for s in STATUSES + ["unclassified"]))
        if "--unclassified" in sys.argv:
            for f, q, n in sorted(unclassified, key=lambda x: -x[2]):
                print(f"  unclassified {n:4d} lines  {f}::{q}")
        if "--tied" in sys.argv:
            for key, (st, pk, _) in sorted(best.items()):
                if st == "tied":
                    f, q = key.split("::", 1)
                    print(f"  tied {funcs[f][q][2]:4d} lines  {key}  ({','.join(sorted(set(pk)))})")
    for p in problems:
        print("PROBLEM:", p)
    return 1 if problems else 0


if __name__ == "__main__":
    sys.exit(main())
