"""Refreshes the generated tables of DESIGN.md in place:
  * the function-level coverage table between <!-- COVMAP:BEGIN --> and <!-- COVMAP:END --> (harness/covmap.py --md)
  * the seeded-changes table of §9.5 (harness/seedtable.py)
  * the per-property inventory §9.6, which must stay the LAST section (harness/inventory.py)
usage: /venv/bin/python harness/design_tables.py
"""
import os
import re
import subprocess
import sys

V = os.path.dirname(os.path.dirname(os.path.abspath(__file__)))
PY = sys.executable


def main():
    p = f"{V}/DESIGN.md"
    out = subprocess.run([PY, f"{V}/harness/covmap.py", "--md"], cwd=V, stdout=subprocess.PIPE, text=True).stdout
    rows = [l for l in out.splitlines() if l.startswith("|")]
    s = open(p).read()
    a, b = "<!-- COVMAP:BEGIN -->", "<!-- COVMAP:END -->"
    if a in s and b in s:
        s = s[: s.index(a) + len(a)] + "\n" + "\n".join(rows) + "\n" + s[s.index(b):]
        open(p, "w").write(s)
        print("covmap table:", len(rows) - 2, "source files")
    subprocess.run([PY, f"{V}/harness/seedtable.py"], cwd=V)
    subprocess.run([PY, f"{V}/harness/inventory.py"], cwd=V)


if __name__ == "__main__":
    main()
