"""Harness-side control of a fake MD program (C12).

`FakeCtl` imposes a *schedule* on the fake program from inside the engine's own
synchronisation points: every `sleep(self.sleep)` of the engine module and every
`exe.poll()` is one tick; at tick t the program is brought to the state `sched[t]`
(file created, n complete frames visible, alive/exited) *before* the engine observes it.
Nothing depends on wall-clock time: commands are acknowledged through a FIFO, process
death is awaited with `waitid(..., WNOWAIT)` (which leaves the zombie for the engine's own
`poll()`/`wait()` to reap).  The only timeouts are generous hang guards (infrastructure
errors, never verdicts).
"""
from __future__ import annotations

import json
import os
import select
import signal
import subprocess
import sys
import time

HANG_S = 120.0
HERE = os.path.dirname(os.path.abspath(__file__))
PY = f"{sys.executable} -S -E"


class HarnessHang(RuntimeError):
    pass


def fake_cmd(which: str) -> str:
    return f"{PY} {os.path.join(HERE, which)}"


class FakeCtl:
    """sched: list of dicts {file:bool, bytes:{key:int}, alive:bool}; the last entry persists."""

    active: "FakeCtl | None" = None

    def __init__(self, workdir, files, pre, sched, exit_code, coarse=None):
        """sched: tick-level list; or coarse: one entry per sleep() (polls see the state of the latest
        sleep; before the first sleep: nothing written, alive).  `realised` logs the tick-level states."""
        self.dir = workdir
        self.sched = sched
        self.coarse = coarse
        self.nsleep = 0
        self.current = {"file": False, "bytes": {k: 0 for k in files}, "alive": True, "src": None}
        self.realised = []
        self.popen = None
        self.launched = False
        self.top = None
        self.only = None          # if set: only Popen objects whose argv contains this word are ticked
        self.exit_code = exit_code
        self.t = 0
        self.pid = None
        self.created = False
        self.sent_exit = False
        self.written = {k: 0 for k in files}
        self.log = []
        with open(os.path.join(workdir, "fake_plan.json"), "w") as fh:
            json.dump({"files": files, "pre": pre}, fh)
        for n in ("fake.cmd", "fake.ack"):
            p = os.path.join(workdir, n)
            if os.path.exists(p):
                os.remove(p)
            os.mkfifo(p)
        # O_RDWR: never blocks on open, never sees EOF/SIGPIPE
        self.cmd_fd = os.open(os.path.join(workdir, "fake.cmd"), os.O_RDWR)
        self.ack_fd = os.open(os.path.join(workdir, "fake.ack"), os.O_RDWR)
        self._buf = b""

    # ------------------------------------------------------------- low level
    def _readline(self):
        t0 = time.monotonic()
        while b"\n" not in self._buf:
            left = HANG_S - (time.monotonic() - t0)
            if left <= 0:
                raise HarnessHang("fake program did not answer")
            r, _, _ = select.select([self.ack_fd], [], [], min(left, 0.25))
            if r:
                self._buf += os.read(self.ack_fd, 4096)
            elif self.pid is not None and self.child_dead():
                raise HarnessHang("fake program died while a command was pending")
        line, self._buf = self._buf.split(b"\n", 1)
        return line.decode()

    def _send(self, text, want_ack=True):
        os.write(self.cmd_fd, (text + "\n").encode())
        if want_ack:
            a = self._readline()
            if a != "ok":
                raise HarnessHang(f"unexpected answer {a!r}")

    def _hello(self, hello):
        if hello[0] != "hello":
            raise HarnessHang(f"bad hello {hello}")
        self.pid = int(hello[1])
        # the process the ENGINE started (our child, leader of the session made by preexec_fn=os.setsid):
        # the talking program itself, or its launcher
        self.launched = len(hello) > 3 and hello[3] == "1"
        self.top = int(hello[2]) if self.launched else self.pid

    def child_dead(self):
        """has the process the engine started terminated (zombie or reaped)?"""
        if self.pid is None:
            return False
        try:
            r = os.waitid(os.P_PID, self.top, os.WEXITED | os.WNOWAIT | os.WNOHANG)
        except ChildProcessError:
            return True
        return r is not None

    def group_alive(self):
        """pids of live (non-zombie) processes in the process group the engine created for this propagation"""
        out = []
        for d in os.listdir("/proc"):
            if not d.isdigit():
                continue
            try:
                with open(f"/proc/{d}/stat") as fh:
                    st = fh.read()
            except OSError:
                continue
            rest = st[st.rfind(")") + 2:].split()
            if int(rest[2]) == self.top and rest[0] != "Z":
                out.append(int(d))
        return out

    def _wait_dead(self):
        t0 = time.monotonic()
        while not self.child_dead():
            if time.monotonic() - t0 > HANG_S:
                raise HarnessHang("fake program did not exit")
            time.sleep(0.0005)

    # ------------------------------------------------------------- schedule
    def tick(self, kind):
        if self.coarse is not None:
            if kind == "sleep":
                self.current = self.coarse[min(self.nsleep, len(self.coarse) - 1)]
                self.nsleep += 1
            want = self.current
        else:
            want = self.sched[self.t] if self.t < len(self.sched) else self.sched[-1]
        self.realised.append(want.get("src"))
        self.t += 1
        self.log.append(kind)
        if self.pid is None:
            self._hello(self._readline().split())
        if self.child_dead():
            return
        if want["file"] and not self.created:
            self._send("C")
            self.created = True
        for k, n in want["bytes"].items():
            if n > self.written[k]:
                self._send(f"B {k} {n}")
                self.written[k] = n
        if not want["alive"] and not self.sent_exit:
            self.sent_exit = True
            # negative exit code = death by that signal, sent by the program to itself (not by infretis)
            self._send(f"X {self.exit_code}" if self.exit_code >= 0 else f"K {-self.exit_code}", want_ack=False)
            self._wait_dead()

    def sleep(self, _seconds):
        self.tick("sleep")

    # ------------------------------------------------------------- end of run
    def finish(self):
        """returns 'stopped' | 'orphan' (still running: killed here) | 'never-started'"""
        state = "stopped"
        if self.pid is None:
            # the engine returned before the program said hello: look for it briefly
            r, _, _ = select.select([self.ack_fd], [], [], 2.0)
            if r:
                self._buf += os.read(self.ack_fd, 4096)
                if b"\n" in self._buf:
                    self._hello(self._readline().split())
            if self.pid is None:
                state = "never-started"
        if self.pid is not None and not self.child_dead():
            state = "orphan"
        elif self.pid is not None and self.launched:
            # "the program" is the whole process group: give the members up to 2 s to go away
            t0 = time.monotonic()
            while self.group_alive():
                if time.monotonic() - t0 > 2.0:
                    state = "orphan"
                    break
                time.sleep(0.002)
        if state == "orphan":
            try:
                os.killpg(self.top, signal.SIGKILL)
            except (ProcessLookupError, PermissionError):
                for p in (self.top, self.pid):
                    try:
                        os.kill(p, signal.SIGKILL)
                    except ProcessLookupError:
                        pass
            self._wait_dead()
            t0 = time.monotonic()
            while self.launched and self.group_alive() and time.monotonic() - t0 < HANG_S:
                time.sleep(0.002)
        if self.pid is not None:
            try:
                os.waitpid(self.top, os.WNOHANG)
            except ChildProcessError:
                pass
        for fd in (self.cmd_fd, self.ack_fd):
            try:
                os.close(fd)
            except OSError:
                pass
        return state


_orig_poll = subprocess.Popen.poll


def _poll(self):
    c = FakeCtl.active
    if c is not None and (c.only is None or c.only in [str(a) for a in (self.args if isinstance(self.args, (list, tuple)) else [self.args])]):
        c.popen = self
        c.tick("poll")
    return _orig_poll(self)


def install():
    """route every Popen.poll() of this process through the active controller (idempotent)"""
    if subprocess.Popen.poll is not _poll:
        subprocess.Popen.poll = _poll
