"""Shared part of the fake MD programs (harness of C12; DESIGN §4.3).

A fake program is started by the REAL engine class (subprocess.Popen in the engine's exe_dir).
It never acts on its own clock: it reads one command line at a time from the FIFO `fake.cmd`
in its working directory, executes it and acknowledges on the FIFO `fake.ack`.  The harness
issues the commands from inside the engine's own `sleep()`/`exe.poll()` calls, so the
interleaving of program output and engine polling is imposed, never timed.

  plan   fake_plan.json in the cwd: {"files": {key: text}, "pre": {filename: text}}
         `pre` files are written at start-up (log.lammps, *.ener), `files` are the streamed ones.
  C            create (truncate) every streamed file           → ack "ok"
  B key n      make the first n bytes of files[key] visible    → ack "ok"
  X code       exit with `code` (no ack; the harness waits for the process to end)
  K sig        die from signal `sig` sent to itself (SIGKILL/SIGSEGV/SIGTERM: a death infretis did not cause;
               return code -sig; no ack)
SIGTERM keeps its default action: the process terminates (return code -15).
"""
import json
import os
import sys


def serve(names, binary=False):
    """names: key -> output file name.  Never returns.  binary: files[key] is hex, written as bytes."""
    with open("fake_plan.json") as fh:
        plan = json.load(fh)
    for fn, text in plan.get("pre", {}).items():
        with open(fn, "w") as fh:
            fh.write(text)
    cmd = open("fake.cmd", "r")
    ack = open("fake.ack", "w")
    # pid of the program that talks, its parent, and whether it was started through a launcher process
    ack.write(f"hello {os.getpid()} {os.getppid()} {1 if os.environ.get('FAKE_MD_LAUNCHED') else 0}\n")
    ack.flush()
    out = {}
    written = {k: 0 for k in names}
    while True:
        line = cmd.readline()
        if not line:
            os._exit(97)          # harness went away
        t = line.split()
        if not t:
            continue
        if t[0] == "C":
            for k, fn in names.items():
                if k not in out:
                    out[k] = open(fn, "wb" if binary else "w")
        elif t[0] == "B":
            k, n = t[1], int(t[2])
            if k not in out:
                out[k] = open(names[k], "wb" if binary else "w")
            text = plan["files"][k]
            if binary and not isinstance(text, bytes):
                text = plan["files"][k] = bytes.fromhex(text)
            if n > written[k]:
                out[k].write(text[written[k]:n])
                out[k].flush()
                written[k] = n
        elif t[0] == "X":
            for fh in out.values():
                fh.flush()
            os._exit(int(t[1]))
        elif t[0] == "K":
            import signal
            import time
            for fh in out.values():
                fh.flush()
            sig = int(t[1])
            signal.signal(sig, signal.SIG_DFL) if sig != signal.SIGKILL else None
            os.kill(os.getpid(), sig)
            time.sleep(60)            # not reached: the signal is delivered before kill() returns
            os._exit(98)
        ack.write("ok\n")
        ack.flush()
