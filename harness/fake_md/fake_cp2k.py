"""Fake CP2K: `cp2k -i run.inp`.  Project name from the `PROJECT` line of the input the engine wrote."""
import os
import sys

sys.path.insert(0, os.path.dirname(os.path.abspath(__file__)))
from fake_common import serve  # noqa: E402

inp = sys.argv[sys.argv.index("-i") + 1]
name = None
steps = None
with open(inp) as fh:
    for line in fh:
        t = line.split()
        if len(t) >= 2 and t[0].upper() == "PROJECT":
            name = t[1]
        if len(t) >= 2 and t[0].upper() == "STEPS":
            steps = t[1]
# like the real program: an &EXT_RESTART section makes CP2K start from the restart file named there and IGNORE the
# COORD_FILE_NAME / &VELOCITY the engine wrote; report both so that the harness can tell where the run started from
ext_restart, coord = 0, None
with open(inp) as fh:
    for line in fh:
        t = line.split()
        if t and t[0].upper() == "&EXT_RESTART":
            ext_restart = 1
        if len(t) >= 2 and t[0].upper() == "COORD_FILE_NAME":
            coord = t[1]
with open("fake_seen.txt", "w") as fh:
    fh.write(f"name={name} steps={steps} ext_restart={ext_restart} coord={coord}\n")
# the energy file name depends on the project name: move the pre-rendered text there
import json  # noqa: E402
with open("fake_plan.json") as fh:
    plan = json.load(fh)
if "ENER" in plan.get("pre", {}):
    plan["pre"][f"{name}-1.ener"] = plan["pre"].pop("ENER")
    with open("fake_plan.json", "w") as fh:
        json.dump(plan, fh)
serve({"pos": f"{name}-pos-1.xyz", "vel": f"{name}-vel-1.xyz"})
