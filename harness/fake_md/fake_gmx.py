"""Fake GROMACS: `gmx launch mdrun …` (launcher that runs mdrun as its child), `gmx grompp …`, `gmx mdrun -s X.tpr -deffnm NAME -c NAME.g96`, `gmx energy -f NAME.edr`.

grompp and energy are one-shot stubs (a .tpr/mdout.mdp, an energy.xvg with the two terms the engine asks for
on stdin).  mdrun is driven tick by tick through the FIFO handshake like the other fake programs: `C` creates
NAME.trr and NAME.edr, `B trr n` makes the first n bytes of the pre-rendered TRR stream visible."""
import os
import sys

sys.path.insert(0, os.path.dirname(os.path.abspath(__file__)))
from fake_common import serve  # noqa: E402

args = sys.argv[1:]
sub = args[0] if args else ""


def opt(flag, default=None):
    return args[args.index(flag) + 1] if flag in args else default


def tool_rc(tool):
    """return code imposed on the one-shot tools by the harness (fake_rc.json in the cwd = exe_dir): 0 = behave normally,
    n > 0 = exit n, n < 0 = die from signal -n — in both cases after the normal output has been written"""
    import json
    if not os.path.isfile("fake_rc.json"):
        return 0
    with open("fake_rc.json") as fh:
        return int(json.load(fh).get(tool, 0))


def leave(tool, normal):
    rc = tool_rc(tool)
    if rc < 0:
        import signal
        if -rc != signal.SIGKILL:
            signal.signal(-rc, signal.SIG_DFL)
        os.kill(os.getpid(), -rc)
    sys.exit(rc if rc else normal)


if sub == "grompp":
    for flag in ("-f", "-c", "-p"):
        if not os.path.isfile(opt(flag, "")):
            sys.stderr.write(f"fake gmx grompp: missing input {flag} {opt(flag)}\n")
            sys.exit(1)
    with open(opt("-c")) as src, open(opt("-o", "topol.tpr"), "w") as fh:
        fh.write("fake tpr\nconf=" + os.path.abspath(opt("-c")) + "\n" + src.read())
    with open(opt("-f")) as src, open("mdout.mdp", "w") as fh:
        fh.write(src.read())
    leave("grompp", 0)
if sub == "energy":
    terms = sys.stdin.read().split()
    n = 1
    if os.path.isfile("fake_nframes.txt"):
        n = int(open("fake_nframes.txt").read())
    with open("energy.xvg", "w") as fh:
        fh.write("# fake gmx energy\n@    title \"GROMACS Energies\"\n")
        fh.write('@ s0 legend "Potential"\n@ s1 legend "Kinetic En."\n')
        for k in range(max(n, 1)):
            fh.write(f"{k * 0.5:12.6f}  0.000000  0.000000\n")
    leave("energy", 0 if terms else 1)
if sub == "launch":
    # launcher-style worker command (srun / mpiexec / wrapper script): the real program is a CHILD of the process
    # the engine started, in the same session / process group (the engine's preexec_fn=os.setsid made us its leader)
    import signal
    import subprocess
    child = subprocess.Popen([sys.executable, "-S", "-E", os.path.abspath(__file__)] + args[1:],
                             env=dict(os.environ, FAKE_MD_LAUNCHED="1"))
    rc = child.wait()
    if rc < 0:
        signal.signal(-rc, signal.SIG_DFL) if -rc != signal.SIGKILL else None
        os.kill(os.getpid(), -rc)
    sys.exit(rc)
if sub == "mdrun":
    name = opt("-deffnm")
    tpr = opt("-s")
    with open("fake_seen.txt", "w") as fh:
        fh.write(f"name={name} tpr={tpr} confout={opt('-c')}\n")
        if tpr and os.path.isfile(tpr):
            fh.write(open(tpr).read())
    with open(name + ".log", "w") as fh:
        fh.write("fake mdrun log\n")
    serve({"trr": name + ".trr", "edr": name + ".edr"}, binary=True)
sys.stderr.write(f"fake gmx: unknown sub-command {sub}\n")
sys.exit(2)
