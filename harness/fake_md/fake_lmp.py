"""Fake LAMMPS: `lmp -i run.inp`.  Takes the dump file name from the `variable name index …`
line of the input the engine wrote, exactly where the real program would take it from."""
import os
import sys

sys.path.insert(0, os.path.dirname(os.path.abspath(__file__)))
from fake_common import serve  # noqa: E402

inp = sys.argv[sys.argv.index("-i") + 1]
var = {}
with open(inp) as fh:
    for line in fh:
        t = line.split()
        if len(t) >= 4 and t[0] == "variable" and t[2] == "index":
            var[t[1]] = t[3]
with open("fake_seen.txt", "w") as fh:
    fh.write(" ".join(f"{k}={v}" for k, v in sorted(var.items())) + "\n")
serve({"traj": var["name"] + ".lammpstrj"})
