"""Run the REAL infretis `scheduler()` on the lattice plug-in model (C01 tie, DESIGN §4.4/§6-C01).

Only `infretis.scheduler.setup_runner` is replaced (monkeypatch, in the child process that
runs one configuration): the process pool becomes a synchronous runner whose futures complete
in an order drawn from a seeded PRNG.  The process boundary of the real runner is kept:
`md_items` is pickled on the way into the job and on the way back, exactly what
`ProcessPoolExecutor` does (without it the shared `tis_set` dict that `wire_fencing` mutates
would leak `allowmaxlength=True` into the shooting ensembles — an artefact, not the code's
behaviour under its real runner).

Everything else — `setup_config`, `setup_internal`, `REPEX_state`, `prep_md_items`, `run_md`,
`shoot`/`wire_fencing`/swap moves, `treat_output`, `write_to_pathens`, `write_toml`, the restart
through `restart.toml`, `PathStorage`, `create_external` — runs unmodified from the current tree.
"""
from __future__ import annotations

import importlib.util  # noqa: F401  (infretis.factory relies on it being imported)
import logging
import os
import pickle
import random
import shutil
import tempfile
import time
from fractions import Fraction

PLUGIN = os.path.join(os.path.dirname(os.path.abspath(__file__)), "lattice_plugin.py")
SCRATCH = "/var/tmp"
SCRATCH_PREFIX = "vp-c01-"


class _Fut:
    def __init__(self, r):
        self.r = r

    def done(self):
        return True

    def result(self):
        return self.r


class SyncRunner:
    """same interface as aiorunner; the job runs at submission, behind a pickle boundary.
    `audit(out)` (optional) looks at the job's answer before it is handed back — read-only."""

    def __init__(self, task, audit=None):
        self.task = task
        self.audit = audit

    def submit_work(self, md):
        md_in = pickle.loads(pickle.dumps(md))
        out = self.task(md_in)
        if self.audit is not None:
            self.audit(out)
        return _Fut(pickle.loads(pickle.dumps(out)))

    def stop(self):
        pass


class ExtremeAudit:
    """Deterministic predicate on every MC step of the real run: what a path reports as its length and as the
    extremes of its order parameter (`Path.length`, `ordermin`, `ordermax` — the values `treat_output` copies into
    the `max OP` / `length` columns of the data file, which the estimators read) are the length and the extremes of
    its frames.  A stale or wrong extreme biases the crossing estimate without changing the sampled chain."""

    def __init__(self):
        self.checked = 0
        self.bad = []
        self.n_bad = 0

    def __call__(self, out):
        for ens_num, pk in (out.get("picked") or {}).items():
            traj = pk.get("traj")
            if traj is None:
                continue
            ops = [pp.order[0] for pp in traj.phasepoints]
            if not ops:
                continue
            self.checked += 1
            got = (float(traj.ordermin[0]), float(traj.ordermax[0]), int(traj.length))
            want = (float(min(ops)), float(max(ops)), len(ops))
            if got != want:
                self.n_bad += 1
                if len(self.bad) < 5:
                    self.bad.append({"ens": int(ens_num), "status": str(out.get("status")), "reported_min_max_len": got,
                                     "frames_min_max_len": want, "frames": [float(x) for x in ops[:60]]})


class RandomOrderFutures:
    """future_list whose completion order is drawn from a seeded PRNG"""

    def __init__(self, rng):
        self.l = []
        self.rng = rng

    def add(self, f):
        self.l.append(f)

    def as_completed(self):
        if not self.l:
            return None
        return self.l.pop(self.rng.randrange(len(self.l)))


def interfaces(nintf):
    return [k + 0.5 for k in range(nintf)]


def _write_path(d, xs):
    os.makedirs(f"{d}/accepted")
    with open(f"{d}/accepted/init.lat", "w") as f:
        f.write("\n".join(map(str, xs)) + "\n")
    with open(f"{d}/traj.txt", "w") as f:
        f.write("# Cycle: 0, status: ACC\n#     Step              Filename       index    vel\n")
        for i, _ in enumerate(xs):
            f.write(f"{i:>10}  {'init.lat':>20s}  {i:>10}  {1:>5}\n")
    with open(f"{d}/order.txt", "w") as f:
        f.write("# Cycle: 0, status: ACC, move: ('ld', 0, 0, 0)\n#     Time       Orderp\n")
        for i, x in enumerate(xs):
            f.write(f"{i:>10d} {float(x):>12.6f}\n")


def make_config(c):
    n = c["nintf"]
    tis = {"maxlength": c.get("maxlength", 2000), "allowmaxlength": False, "zero_momentum": False,
           "n_jumps": c.get("n_jumps", 2)}
    if c.get("cap") is not None:
        tis["interface_cap"] = float(c["cap"])
    return {
        "runner": {"workers": c["workers"], "wmdrun": ["x"] * c["workers"]},
        "simulation": {"interfaces": interfaces(n), "steps": leg_targets(c)[0], "seed": c["seed"],
                       "load_dir": "load", "shooting_moves": list(c["moves"]), "tis_set": tis},
        "engine": {"class": "LatticeEngine", "module": PLUGIN, "timestep": 1.0, "subcycles": 1,
                   "wall": c.get("wall", -6), "temperature": 1.0},
        "orderparameter": {"class": "LatticeOP", "module": PLUGIN},
        "output": {"data_dir": "./", "screen": 0, "pattern": False, "delete_old": True,
                   "delete_old_all": True},
    }


def parse_data_file(fn, nintf):
    """rows of infretis_data.txt as exact strings: (pn, len, max, [frac]*nintf, [w]*nintf)"""
    rows = []
    with open(fn) as f:
        for line in f:
            if line.startswith("#"):
                continue
            t = line.split()
            if len(t) != 3 + 2 * nintf:
                rows.append(("malformed", line))
                continue
            rows.append((int(t[0]), int(t[1]), t[2], t[3:3 + nintf], t[3 + nintf:3 + 2 * nintf]))
    return rows


def live_rows(nintf, moves, cap):
    """rows for the paths still alive at the end: frac from restart.toml, length / max order /
    weights from the path files in load_dir via the real loader and the real calc_cv_vector,
    laid out as write_to_pathens would lay them out"""
    import tomli
    from infretis.classes.path import load_path
    from infretis.core.tis import calc_cv_vector

    with open("restart.toml", "rb") as f:
        cfg = tomli.load(f)
    cur = cfg["current"]
    out = []
    locked = {str(p) for l in cur.get("locked", []) for p in l[1]}
    for pos, pn in enumerate(cur["active"]):
        fr = cur["frac"].get(str(pn))
        if fr is None:
            continue
        p = load_path(os.path.join("load", str(pn)))
        mx = p.ordermax[0]
        if pos == 0:   # the [0-] slot (write_to_pathens: single weight)
            w = (1.0,)
            frac = [("----" if Fraction(fr[0]) == 0 else fr[0])] + ["----"] * (nintf - 1)
            ws = [("----" if Fraction(fr[0]) == 0 else str(w[0]))] + ["----"] * (nintf - 1)
        else:
            w = calc_cv_vector(p, interfaces(nintf), list(moves), cap=cap)
            frac, ws = ["----"], ["----"]
            for w0, f0 in zip(w[:-1], fr[1:-1]):
                z = Fraction(f0) == 0
                frac.append("----" if z else f0)
                ws.append("----" if z else str(float(w0)))
        out.append((int(pn), int(p.length), f"{mx:8.5f}".strip(), frac, ws))
    return out, {"cstep": cur["cstep"], "locked": sorted(locked), "active": list(cur["active"]),
                 "traj_num": cur["traj_num"]}


def leg_targets(c):
    """cumulative step targets of the legs: [first_leg, steps] for one restart in the middle, or —
    with `restart_every = [lo, hi]` — a restart after every lo..hi steps (seeded)"""
    if c.get("restart_every"):
        lo, hi = c["restart_every"]
        rr = random.Random(c.get("restart_seed", 0))
        t, out = 0, []
        while t < c["steps"]:
            t = min(c["steps"], t + rr.randint(lo, hi))
            out.append(t)
        return out
    if c["steps"] > c["first_leg"]:
        return [c["first_leg"], c["steps"]]
    return [c["first_leg"]]


def _drop_log_handlers():
    """setup_logger() adds a FileHandler per scheduler() call; close them so that hundreds of legs
    in one process do not run out of file descriptors (diagnostics only)"""
    for name in ("main", ""):
        lg = logging.getLogger(name)
        for h in list(lg.handlers):
            lg.removeHandler(h)
            try:
                h.close()
            except Exception:  # noqa: BLE001
                pass


def run_config(c):
    """one configuration, in the current (child) process.  Returns a plain dict."""
    import tomli
    import tomli_w

    logging.disable(logging.CRITICAL)
    # durability only (formatter.flush fsyncs every message file); no effect on what is sampled
    os.fsync = lambda fd: None
    import infretis.scheduler as sched
    from infretis.core.tis import run_md
    from infretis.setup import setup_config

    order_rng = random.Random(c["order_seed"])
    audit = ExtremeAudit()
    sched.setup_runner = lambda state: (SyncRunner(run_md, audit), RandomOrderFutures(order_rng))

    root = tempfile.mkdtemp(prefix=SCRATCH_PREFIX, dir=SCRATCH)
    old = os.getcwd()
    t0 = time.time()
    res = {"config": c, "ok": False}
    try:
        os.chdir(root)
        n = c["nintf"]
        os.makedirs("load")
        _write_path("load/0", [1, 0, -1, 0, 1])
        for k in range(1, n):
            up = list(range(0, k + 1))
            _write_path(f"load/{k}", up + up[::-1][1:])
        with open("infretis.toml", "wb") as f:
            tomli_w.dump(make_config(c), f)
        config = setup_config("infretis.toml")
        sched.scheduler(config)
        _drop_log_handlers()
        # restarts: the user edits `steps` in restart.toml and runs `infretisrun -i restart.toml`.
        # Every leg is a complete setup_config + scheduler() call: the whole state (paths, weights,
        # fractions, locks, generator) is rebuilt from what the previous leg left on disk.
        targets = leg_targets(c)
        res["n_restarts"] = 0
        for tgt in targets[1:]:
            with open("restart.toml", "rb") as f:
                rc = tomli.load(f)
            if res["n_restarts"] == 0:
                res["restart_cstep"] = rc["current"]["cstep"]
                res["restart_locked"] = rc["current"].get("locked", [])
            rc["simulation"]["steps"] = tgt
            with open("restart.toml", "wb") as f:
                tomli_w.dump(rc, f)
            config2 = setup_config("restart.toml")
            if config2 is None:
                raise RuntimeError(f"setup_config('restart.toml') returned None before leg to {tgt}")
            sched.scheduler(config2)
            _drop_log_handlers()
            res["n_restarts"] += 1
        files = sorted(x for x in os.listdir(".") if x.startswith("infretis_data"))
        res["data_files"] = files
        res["rows"] = parse_data_file("infretis_data.txt", n)
        try:
            res["live"], res["final"] = live_rows(n, c["moves"], c.get("cap"))
        except Exception as e:  # noqa: BLE001
            res["live"], res["final"] = [], {"error": f"{type(e).__name__}: {e}"}
        res["extreme_audit"] = {"checked": audit.checked, "n_bad": audit.n_bad, "bad": audit.bad}
        res["ok"] = True
    except BaseException as e:  # noqa: BLE001
        import traceback
        res["error"] = f"{type(e).__name__}: {e}"
        res["trace"] = traceback.format_exc()[-3000:]
    finally:
        os.chdir(old)
        shutil.rmtree(root, ignore_errors=True)
    res["wall_s"] = round(time.time() - t0, 2)
    return res


# ----------------------------------------------------------------------------- estimator (Python twin)
def tok(x):
    """exact rational of a data-file token ('----' → 0)"""
    return Fraction(0) if x == "----" else Fraction(x)


def estimate_exact(rows, nintf):
    """Python twin of `Infretis.Lattice.estimate`: for every column k = 1..nintf-1
    (ensemble [(k-1)+]) the pair (num, den) with
        den = Σ_rows frac_k / w_k         (rows with w_k ≠ 0)
        num = Σ_rows frac_k / w_k · [max ≥ λ_k]
    as exact rationals.  P(λ_k | λ_{k-1}) is num/den."""
    intf = [Fraction(2 * k + 1, 2) for k in range(nintf)]
    out = []
    for k in range(1, nintf):
        num = den = Fraction(0)
        for (_pn, _ln, mx, fr, w) in rows:
            wk = tok(w[k])
            if wk == 0:
                continue
            a = tok(fr[k]) / wk
            den += a
            if Fraction(mx) >= intf[k]:
                num += a
        out.append((num, den))
    return out


def mean_length_exact(rows, nintf):
    """Python twin of `Infretis.Lattice.meanLenEst`: for every column k = 1..nintf-1 the pair (lenNum, den) with
    lenNum = Σ_rows frac_k / w_k · length, as exact rationals (same row filter as `estimate_exact`)."""
    out = []
    for k in range(1, nintf):
        num = den = Fraction(0)
        for (_pn, ln, _mx, fr, w) in rows:
            wk = tok(w[k])
            if wk == 0:
                continue
            a = tok(fr[k]) / wk
            den += a
            num += a * int(ln)
        out.append((num, den))
    return out


def ensemble_law(nintf, k, tol=1e-13, tmax=100000):
    """Independent of every closed form: the law of the plug-in's walk, enumerated.  A path of data column k starts
    0, 1 and takes fair ±1 steps until it is on site 0 or on site nintf; it belongs to the ensemble iff it has been on
    site k.  Returns (P(it has been on site k+1 | ensemble), E[number of frames | ensemble]) by propagating the
    distribution over (site, reached k, reached k+1) step by step until the surviving mass is below `tol`."""
    cur = {(1, 1 >= k, 1 >= k + 1): 1.0}
    z = cross = lensum = 0.0
    t = 2                                  # frames so far
    while cur and t < tmax:
        nxt = {}
        for (x, a, b), p in cur.items():
            for y in (x - 1, x + 1):
                a2, b2 = a or y >= k, b or y >= k + 1
                if y <= 0 or y >= nintf:
                    if a2:
                        z += p / 2
                        lensum += (t + 1) * p / 2
                        if b2:
                            cross += p / 2
                else:
                    key = (y, a2, b2)
                    nxt[key] = nxt.get(key, 0.0) + p / 2
        cur = nxt
        t += 1
        if sum(cur.values()) * t < tol:
            break
    return cross / z, lensum / z


# ----------------------------------------------------------------------------- statistics (floats)
def exact_value(k):
    """closed form for column k ≥ 1 (ensemble [(k-1)+]): P(reach λ_k | reached λ_{k-1}) = k/(k+1)
    — `Infretis.C01.crossing_closed_form` with its index k-1"""
    return Fraction(k, k + 1)


def column_terms(rows, nintf, k):
    """(a_i, c_i) per row in file order for column k: a = frac_k/w_k (float), c = [max ≥ λ_k]"""
    lam = k + 0.5
    a, c = [], []
    for (_pn, _ln, mx, fr, w) in rows:
        if w[k] == "----" or fr[k] == "----":
            continue
        wk = float(w[k])
        if wk == 0.0:
            continue
        a.append(float(fr[k]) / wk)
        c.append(1.0 if float(mx) >= lam else 0.0)
    return a, c


def jackknife_sigma(a, c, nblocks):
    """delete-one-block jackknife standard error of the ratio Σac/Σa over contiguous blocks"""
    n = len(a)
    if n < 2 * nblocks:
        return None
    N = D = 0.0
    nb, db = [0.0] * nblocks, [0.0] * nblocks
    for i in range(n):
        b = i * nblocks // n
        nb[b] += a[i] * c[i]
        db[b] += a[i]
    N, D = sum(nb), sum(db)
    th = []
    for b in range(nblocks):
        d = D - db[b]
        if d <= 0:
            return None
        th.append((N - nb[b]) / d)
    m = sum(th) / nblocks
    var = (nblocks - 1) / nblocks * sum((t - m) ** 2 for t in th)
    return var ** 0.5


def column_stats(rows, nintf, k, block_counts=(20, 40)):
    """estimate, effective standard error and its ingredients for column k"""
    a, c = column_terms(rows, nintf, k)
    D = sum(a)
    if not a or D <= 0:
        return None
    p = sum(x * y for x, y in zip(a, c)) / D
    p0 = float(exact_value(k))
    kish = D * D / sum(x * x for x in a)           # effective number of independent paths (upper bound)
    floor = (p0 * (1 - p0) / kish) ** 0.5           # σ cannot be below the binomial value at the exact p
    sig = [jackknife_sigma(a, c, b) for b in block_counts]
    sig = [s for s in sig if s is not None]
    if not sig:
        return {"p": p, "p0": p0, "n": len(a), "kish": kish, "floor": floor, "sigma_jk": None, "sigma": None}
    sjk = max(sig)
    return {"p": p, "p0": p0, "n": len(a), "kish": kish, "floor": floor, "sigma_jk": sjk,
            "sigma": max(sjk, floor), "sum_a": D}


def exact_mean_length(nintf, k):
    """closed form for the mean number of frames of the paths of data column k (ensemble [(k-1)+]) with nintf
    interfaces: 2 + (k²−1)/3 + k(nintf−k) — `Infretis.C01.mean_length_closed_form`"""
    return 2 + Fraction(k * k - 1, 3) + k * (nintf - k)


def length_stats(rows, nintf, k, block_counts=(20, 40)):
    """reweighted mean path length Σ a·len / Σ a of column k (a = frac_k/w_k), its effective standard error
    (delete-one-block jackknife over contiguous blocks, floored by the weighted sample spread / √Kish)"""
    a, L = [], []
    for (_pn, ln, _mx, fr, w) in rows:
        if w[k] == "----" or fr[k] == "----":
            continue
        wk = float(w[k])
        if wk == 0.0:
            continue
        a.append(float(fr[k]) / wk)
        L.append(float(ln))
    D = sum(a)
    if not a or D <= 0:
        return None
    m = sum(x * y for x, y in zip(a, L)) / D
    m0 = float(exact_mean_length(nintf, k))
    kish = D * D / sum(x * x for x in a)
    # spread around the exact mean (not the sample mean: a biased sample must not shrink its own error bar)
    var0 = sum(x * (y - m0) ** 2 for x, y in zip(a, L)) / D
    floor = (var0 / kish) ** 0.5
    sig = []
    n = len(a)
    for nb in block_counts:
        if n < 2 * nb:
            continue
        nbk, dbk = [0.0] * nb, [0.0] * nb
        for i in range(n):
            b = i * nb // n
            nbk[b] += a[i] * L[i]
            dbk[b] += a[i]
        N_, D_ = sum(nbk), sum(dbk)
        if any(D_ - d <= 0 for d in dbk):
            continue
        th = [(N_ - nbk[b]) / (D_ - dbk[b]) for b in range(nb)]
        mm = sum(th) / nb
        sig.append(((nb - 1) / nb * sum((t - mm) ** 2 for t in th)) ** 0.5)
    if not sig:
        return {"m": m, "m0": m0, "n": n, "kish": kish, "floor": floor, "sigma_jk": None, "sigma": None}
    sjk = max(sig)
    return {"m": m, "m0": m0, "n": n, "kish": kish, "floor": floor, "sigma_jk": sjk, "sigma": max(sjk, floor)}


if __name__ == "__main__":
    import json
    import sys
    n = int(sys.argv[1])
    steps = int(sys.argv[2])
    moves = sys.argv[3].split(",")
    W = int(sys.argv[4]) if len(sys.argv) > 4 else 1
    cap = float(sys.argv[5]) if len(sys.argv) > 5 and sys.argv[5] != "-" else None
    c = {"nintf": n, "moves": moves, "cap": cap, "workers": W, "steps": steps, "first_leg": steps // 2,
         "seed": 1, "order_seed": 7}
    r = run_config(c)
    if not r["ok"]:
        print(r["error"], r["trace"])
        sys.exit(1)
    est = estimate_exact(r["rows"] + r["live"], n)
    print(json.dumps({"wall": r["wall_s"], "rows": len(r["rows"]), "live": len(r["live"]), "final": r["final"],
                      "est": [float(a / b) if b else None for a, b in est]}))
