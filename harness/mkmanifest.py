"""Regenerates /verif/MANIFEST.json from the table below (kept valid at all times)."""
import json
from pathlib import Path

VERIF = Path(__file__).resolve().parent.parent
LEVEL_NOTE = ("Trusted: Lean 4.33 kernel (+ propext, Classical.choice, Quot.sound only; audited by #print axioms each run; "
              "no sorry/axiom/native_decide); the hand-written Lean model is *modelled, not verified* — it is tied to /repo's "
              "current working tree by this run's correspondence check (real code vs compiled Lean driver on the same inputs); "
              "the Python harness; IEEE rounding, numpy, the OS and the MD programs are outside the model.")

CLAIMED = {
    "C10": dict(
        category="proof",
        text="Theorems for all order sequences of any length: the five-branch scan equals the number of frames on valid "
             "sub-paths (scan_weight_eq_spec), reversal symmetry, positivity iff such a frame exists, the proportional pick "
             "law (interval of length len/n), weight-vector shape, doubling rule. Tie: exhaustive over all sequences ≤7/8 "
             "frames on a 5-level alphabet + random long ones against the real wirefence_weight_and_pick/compute_weight/"
             "calc_cv_vector.",
        design_ref="DESIGN.md §6 C10",
        technique="Lean 4 proof (induction over the scan with a state-relation invariant) + exhaustive/seeded correspondence",
    ),
}

CLAIMED["C15"] = dict(
    category="proof",
    text="29 theorems over a heap model of Path/System (any lengths, any limit incl. None/0/negative): paste limit/"
         "order/length/head/time-origin and ref sharing, copy/+=/reverse freshness and independence (with the shallow-copy "
         "counterexample for in-place order[0]), reverse flags and reverse-twice, argmin/argmax and start/end/cross "
         "classification vs the extreme values incl. empty and one-frame paths; reachable_wf shows the hypotheses hold "
         "on every reachable machine state. Tie: thousands of random op programs on real Path/System objects with object "
         "identity canonicalised + exhaustive classification over a 5-level alphabet.",
    design_ref="DESIGN.md §6 C15",
    technique="Lean 4 proof over a heap (ref) model + differential op-program correspondence",
)

CLAIMED["C02"] = dict(
    category="proof",
    text="Over exact rationals, for every square matrix / every member of the reachable family: the spec pSpec = "
         "W_ij*perm(minor)/perm(W) has column and row sums 1, is zero where W is zero, is invariant under row rescaling "
         "and equivariant under row permutation; quick_prob equals the spec on sorted staircases (closed form, Hall), "
         "block factorisation (blocks_eq_whole), Glynn's Gray-code loop equals the permanent for all n (glynn_eq_permC), "
         "permanent_prob equals the spec, and the whole inf_retis pipeline incl. lock removal/argsorts/re-insertion equals "
         "the embedded spec (infRetis_eq_spec_full). Tie: real inf_retis and sub-functions vs Lean model and spec, "
         "exhaustive 0/1 staircases x lock subsets x row orders up to 6 plus ensembles, weighted up to 12, Monte-Carlo "
         "branch decision only. Float cancellation is outside the model (one ill-conditioned witness is a known finding).",
    design_ref="DESIGN.md §6 C02",
    technique="Lean 4 proof (list permanent, Laplace/Glynn, staircase closed form) + exhaustive/seeded differential tie",
)
CLAIMED["C12"] = dict(
    category="proof",
    text="Theorems about add_to_path/feed for any stream (first frame, stop at first outside frame or limit, success iff "
         "outside) and, for EVERY polling schedule/exit code, about the LAMMPS and CP2K polling-loop models and the "
         "in-process ASE/TurtleMD loop (frames in order once, each frame with its own box/velocity, program stopped on "
         "return, non-zero exit raises, backward retraces forward under reversibility). Tie = translation validation: the "
         "REAL LAMMPS/CP2K engine classes run against fake MD executables driven tick by tick through FIFO handshakes over "
         "exhaustively enumerated schedules; ASE/TurtleMD/plug-in run natively. GROMACS is modelled but not tied (no fake "
         "gmx): partial.",
    design_ref="DESIGN.md §6 C12",
    technique="Lean 4 proof over loop models for all schedules + fake-MD-program translation validation",
)
CLAIMED["C13"] = dict(
    category="proof",
    text="xyz reader: for every well-formed trajectory and every cut list at byte granularity the reader returns exactly "
         "the frames completely on disk, each once, in order, never raising (xyz_repaired_exact + exact_safety/complete); "
         "LAMMPS reader: character-level sentinel lemmas (a torn atom line is always rejected, newline irrelevant) and "
         "safety/completeness of the stage specification with its one-poll lag (the general link reader=stage spec is "
         "_partial, covered by the tie on every run); TRR guards are tie-only. Tie: every single and pair of byte cuts on "
         "generated trajectories against the real ReadAndProcessOnTheFly on a growing file; real get_gromacs_frames on TRR "
         "bytes for both byte orders x precisions.",
    design_ref="DESIGN.md §6 C13",
    technique="Lean 4 proof over character-level reader models + exhaustive byte-cut correspondence",
)
CLAIMED["C16"] = dict(
    category="proof",
    text="Per engine, with the code's own constants as exact rationals: sigma_i^2*m_i = kB*T in engine units, and a proved "
         "bound |<m v^2>/(k_B T) - 1| <= eps against SI-2019/CODATA values (eps 6e-8 GROMACS, 2e-10 LAMMPS, 1.2e-6 CP2K, "
         "3.4e-7 ASE); velocities = sigma*z; exact zero momentum after reset; dek/kin_new consistent with the written "
         "velocities for all five engines; positions/box/ids preserved; source frame untouched (heap model of "
         "prepare_shooting_point); the only draw request is `normal` on the engine's stream. The Gaussian itself is a draw "
         "request (numpy not modelled): partial by nature. Tie: all five real engines with a scripted/logging generator.",
    design_ref="DESIGN.md §6 C16",
    technique="Lean 4 proof of the algebra and unit constants over Rat + scripted-generator correspondence",
)
CLAIMED["C20"] = dict(
    category="proof",
    text="Over all rationals: |wrap| <= L/2, translation invariance of all relative parameters, image-shift invariance "
         "(exact statement incl. half-even ties: distance always, signed parameters when no component sits at a half-box "
         "tie, with the tie counterexample), velocity-reversal sign, 3- vs 9-component box agreement, rotation invariance "
         "under R^T R = 1, det R = 1, purity of calculate. sqrt/arctan2/sin/cos are applied outside the model to the "
         "rational pre-images: partial for the transcendental tails. Tie: dyadic geometries, Pythagorean rotations, "
         "malformed boxes on the real classes.",
    design_ref="DESIGN.md §6 C20",
    technique="Lean 4 proof over Rat pre-images + differential tie on exact dyadic inputs",
)

CLAIMED["C14"] = dict(
    category="proof",
    text="Codec: load (store p) = p for every path with >= 1 frame (multi-file, reversed frames, energies present or absent, "
         "orders at six decimals), stored files under the path's own directory. Deletion: invariants over ALL histories of "
         "the delete_old block (pn_olds FIFO, initial-path guard, lag = n-1 replacements): never deletes a live or "
         "restart-referenced file, never touches initial paths, exact lag; the delete block does not raise (per block, "
         "repaired code; the asIs counterexample is kept). Tie: real PathStorage.output + load_path on generated paths with "
         "real files, and the real treat_output with a real store through exhaustive-small and random histories for every "
         "settings combination, comparing the load/ listing after every call.",
    design_ref="DESIGN.md §6 C14",
    technique="Lean 4 proof (token-level codec round trip; deletion invariants by induction over histories) + differential tie",
)

CLAIMED["C18"] = dict(
    category="proof",
    text="check_ok_iff: check_config accepts exactly the declarative condition CodeOk; accept_sound: accepted => Valid "
         "(strictly increasing interfaces, >= 2, workers <= n-1, enough moves, cap inside the interfaces and above "
         "lambda_i for every wire-fencing ensemble, engines defined and non-empty per ensemble, lambda_-1 < lambda_0) at "
         "full strength; invalid_rejected / setup_invalid_rejected: every invalid configuration is rejected with a "
         "configuration error (one documented guard: gromacs tables carry input_path); normalise_idempotent and "
         "setupConfig_fixed_point; accepted_initialises. Tie: exhaustive products over small domains of every validated "
         "field (4e4 quick / 2.8e5 thorough configurations) through the real setup_config/check_config via TOML files, every "
         "accepted one initialised for real (REPEX_state, load_paths, first picks), restart round trips.",
    design_ref="DESIGN.md §6 C18",
    technique="Lean 4 proof (decision logic stated outright) + exhaustive configuration-product correspondence",
)

CLAIMED["C03"] = dict(
    category="proof",
    text="Invariants over ALL event histories (any completion order, accept/reject, pick outcomes, 1..n-1 workers) of the "
         "state-machine model of REPEX_state + scheduler loop from a fresh start: in-flight ensembles pairwise disjoint, "
         "in-flight paths pairwise distinct, busy flag iff held by an in-flight job (ghost always busy), each held path "
         "sits in its slot with non-zero own-ensemble weight, a two-ensemble job is [0-],[0+] started only when both were "
         "idle and holds both, pins and work folders distinct, engine instances exclusive, and (scheduler-shaped "
         "histories) assign_engines always finds a free instance with min(count, workers) instances per type. Tie: the real "
         "REPEX_state state-for-state after every op (scripted numpy Generator subclass, fake store) + direct predicates.",
    design_ref="DESIGN.md §6 C03",
    technique="Lean 4 proof (invariant by induction over event histories) + state-for-state correspondence",
)
CLAIMED["C07"] = dict(
    category="proof",
    text="Stream identity = (SeedSequence entropy, spawn_key). For every fresh-start history the k-th job issued has "
         "streams (seed,[k,j]) / (seed,[k,j,0]); all job streams pairwise distinct and different from the scheduler's; "
         "restart_continues_ordinals + distinctness across one restart for any worker count with/without in-flight jobs; "
         "chains of restarts: full when no job was in flight at the earlier restarts (incl. every one-worker chain), "
         "_partial + a proved counterexample otherwise (open finding: ordinals re-used after a re-issue; found by this "
         "proof); scheduler draws accounted. Tie: real generators' identities inside md_items over restart chains, plus "
         "a tripwire showing every in-process draw of every engine class is made on the job's engine stream. numpy's "
         "independence of distinct streams is assumed, not modelled.",
    design_ref="DESIGN.md §6 C07",
    technique="Lean 4 proof (spawn-counter invariant over issue logs) + stream-identity correspondence",
)
CLAIMED["C09"] = dict(
    category="proof",
    text="shoot: accept iff status ACC; shooting index interior (draw request integers 1 (L-1)); an accepted trial starts "
         "and ends outside on allowed sides, stays inside in between, crosses the middle interface, respects maxlength, "
         "contains the shooting point at generated[3], time origin consistent, non-zero own-ensemble weight; exact "
         "acceptance rule accept <-> xi <= n_old/n_new (shoot_threshold, for the repaired add_to_path; the asIs "
         "counterexample kept); run_md replaces the path only on ACC. wire_fencing: accept iff ACC, membership of accepted "
         "paths, rejected move returns the old frames. Tie: the real shoot/wire_fencing/run_md/add_to_path with a scripted "
         "engine and scripted generator, exhaustive small grids incl. every floor boundary of the length bound.",
    design_ref="DESIGN.md §6 C09",
    technique="Lean 4 proof over path/engine-stream models + exhaustive scripted-engine correspondence",
)
CLAIMED["C17"] = dict(
    category="proof",
    text="Scheduler half: for every scheduler history (starts, closing initiate, steps; any outcomes and completion order) "
         "from a fresh state: cstep = cstep0 + completed moves, never beyond the target, jobs in flight = min(workers, steps "
         "left); a finished run completed exactly steps - cstep0 moves, cstep = steps, nothing in flight (incl. restarts "
         "with fewer remaining steps than workers, repaired 2596063); no deadlock while steps are left. Runner half: "
         "exactly-once, FIFO, no result lost, clean stop for every accepted event trace of the runner transition system. "
         "Tie: the REAL scheduler() with a synchronous runner over chains of process lives (finish / crash / restart with "
         "same, larger, barely larger step counts) mirrored op by op to the model; the real aiorunner's event traces "
         "validated by the Lean acceptor (trace validation: asyncio/ProcessPool internals not modelled).",
    design_ref="DESIGN.md §6 C17",
    technique="Lean 4 proof (counter invariants over histories; runner protocol invariants) + real-scheduler mirroring and trace validation",
)

CLAIMED["C05"] = dict(
    category="proof",
    text="For every state reachable by any event history (any workers 1..n-2, any completion order, accept/reject, outcomes "
         "in C02's staircase family): the idle block is non-negative with positive permanent (<-> a perfect matching "
         "exists: matchable_invariant), hence the pick probabilities are >= 0 and sum to the number of idle slots > 0 "
         "(pick_defined, job_can_be_drawn, idle_worker_gets_job, start_can_draw); sort_trajstate terminates within n^2 "
         "iterations without either .index failure for ANY number of workers (sort_terminates, measure argument + "
         "Frobenius-Koenig), leaves a non-zero diagonal and only permutes idle rows; live paths distinct; path numbers "
         "fresh and never reused; the restart image written after a step loads (restart_file_loads). Tie: real "
         "REPEX_state histories incl. restart chains, watchdog for hangs, real reload of written restart files.",
    design_ref="DESIGN.md §6 C05",
    technique="Lean 4 proof (permanent/matching invariant, termination measure) + state-for-state correspondence",
)

CLAIMED["C04"] = dict(
    category="proof",
    text="recordFrac adds exactly 1 to every idle ensemble column and 0 to busy/ghost columns, only on idle live paths, "
         "entry by entry the P-matrix value (0 where W is 0, >= 0); writeRows moves exactly the removed vectors into one "
         "row per replaced path; per treat_output rows+live grows by 1 per idle column; conservation over every history "
         "(column total = number of steps at which the column was idle; one worker: = cstep); a path number appears in the "
         "data rows at most once, exactly when replaced, never while live; restart preserves the fractions and the law "
         "extends across run-persist-restore-run. Matchability of the idle block (C05's invariant) is an explicit "
         "hypothesis of the conservation theorems. Tie: after every completed step of real REPEX_state histories "
         "infretis_data.txt and restart.toml [current.frac] are parsed and the law is evaluated on what was written.",
    design_ref="DESIGN.md §6 C04",
    technique="Lean 4 proof (column-sum law of the permanent-ratio matrix + bookkeeping invariants) + file-level correspondence",
)
CLAIMED["C11"] = dict(
    category="proof",
    text="retis_swap_zero: accept iff ACC; junction identity (new [0-] ends with frames 0,1 of the old [0+], new [0+] "
         "starts with the last two frames of the old [0-], order values, phase points and vel_rev flags stated); both new "
         "paths valid members within their limits; swap_twice_identity at full strength for any deterministic "
         "time-reversible engine (the integer leap-frog of the tie is proved reversible); QuanTIS: accept iff xi <= min(1,p) "
         "with the exact exponent (exp itself outside the model); a [0-] path that ended on the left is rejected '0-L' "
         "with no engine request and no draw. Tie: real moves through the real propagate/add_to_path with a scripted and "
         "a reversible engine, exhaustive small pairs, xi grids around p.",
    design_ref="DESIGN.md §6 C11",
    technique="Lean 4 proof over frame-level move models + scripted/reversible-engine correspondence",
)
CLAIMED["C19"] = dict(
    category="proof",
    text="Fixed-point codecs: parse(format x) = x; g96 / extended-xyz / lammpstrj write-read round trips for any atom "
         "count and id ordering under explicit width guards (with the wide-box and zero-atom boundary counterexamples), "
         "reverse-velocities negates velocities only, frame k extraction, TRR field layout identical for both byte orders "
         "and precisions. Editors: mdp edit exact and idempotent for every template; LAMMPS write_for_run total outcome "
         "characterisation; CP2K tree: exactness for present/absent targets, idempotence under guards, and proved "
         "counterexamples for six tree-editor defects (open known findings). Tie: real writers/readers/editors on generated "
         "inputs, byte comparison of written files, the repo's own templates.",
    design_ref="DESIGN.md §6 C19",
    technique="Lean 4 proof over decimal fixed-point and token/line models + byte-level differential tie",
)

CLAIMED["C01"] = dict(
    category="other",
    text="The property is a statistical acceptance test; no theorem about a model can decide whether a sampled run of the "
         "Python falls inside a band. What the check consists of: (1) theorems for the exact reference: the gambler's-ruin "
         "recurrence has the unique solution (k+1)/(k+2) for every k, and the walk's own finite-horizon law converges to "
         "it with an explicit geometric bound; (2) theorems for the estimator computed from data rows (ratio of "
         "non-negative sums, in [0,1], weighted mean, additive over chunks, invariant under common column rescalings; "
         "counterexample for single-row rescaling); (3) detailed balance of the shooting length rule min(1, n_old/n_new) "
         "for all path-length pairs, with the proved counterexample for the pre-fix rule n_old/(n_new+1); (4) statistical "
         "tie: the REAL scheduler() with a synchronous runner (pickle boundary kept) and a lattice plug-in engine loaded "
         "through create_external, all move assignments, caps, 1..n-1 workers, random completion order, one real restart; "
         "the Lean estimator (exact rationals) and a Python twin agree exactly; band = 6 sigma_eff (block jackknife with "
         "a binomial floor) per estimate and for pooled groups. Quick resolves ~10-30 % per estimate (gross bias), "
         "thorough 0.2-0.3 % pooled (it resolves the 1-2 % bias of the pre-fix length rule at 6.9 sigma).",
    design_ref="DESIGN.md §6 C01",
    technique="Lean 4 theorems for reference values, estimator algebra and detailed balance + calibrated statistical tie (not a proof of unbiasedness)",
    level_note="Unbiasedness itself is NOT proved (ergodic theorem for the full chain is out of reach); bias below the band "
               "is invisible; wire-fencing kernel reversibility is not proved (only its weights, C10). Trusted: Lean kernel for "
               "the listed theorems, the lattice plug-in, the jackknife calibration, numpy's generators.",
)
CLAIMED["C06"] = dict(
    category="proof",
    text="Information-preservation argument on the state-machine model: observational equality ObsR (everything sysStep "
         "reads; frac/wts as finite maps) is respected by prep, step and any run of steps; restart_equivalence_one_worker: "
         "for every split point the run restarted from restore(persist) and the uninterrupted run consume the same pick "
         "outcome at the same stream position with the same spawn ordinal and end observationally equal with identical "
         "appended data rows (restore_persist itself: scalar part proved, the slot-by-slot reload is a hypothesis "
         "discharged by evaluation on concrete states: _partial); reissue_exact for any number of workers (recorded jobs "
         "re-issued in order, re-recorded; survives a second restart); initiate_bound. Byte identity is established by the "
         "tie: REAL end-to-end runs (setup_config, scheduler(), run_md, PathStorage, write_toml) with a lattice plug-in and "
         "the TurtleMD double well, seeds 0,1,2,.., every split point, kill and steps stops, chains of up to 3 restarts, "
         "2-7 workers for the re-issue statements; files compared byte for byte.",
    design_ref="DESIGN.md §6 C06",
    technique="Lean 4 proof (simulation/observational-equality argument) + byte-level end-to-end restart correspondence",
)
CLAIMED["C08"] = dict(
    category="proof",
    text="Effect-level model of one step of treat_output/write_toml (mkdir, open-w, writes, remove, move, delete_old block, "
         "data-row append, temp-file + rename of restart.toml) and of the restart (setup_config incl. clean_data_file); for "
         "EVERY reachable state, step outcome (any number of accepted ensembles, files, delete queue, delete_old "
         "off/on/all) and EVERY crash point (before any effect, or half-way through a write): crash_restartable, "
         "crash_paths_present, crash_no_live_file_lost, crash_restore_inv, continue_rows_unique over arbitrary sequences of "
         "steps and crash+restarts, delete_block_rmdir_safe; the pre-fix windows are kept as proved counterexamples. Tie = "
         "fault enumeration on the real code: every audited file-system effect index of every step kind (sh/wf/zero swap "
         "accept/reject, delete_old variants, W=2) crashed with os._exit, restarted through the real entry point, continued "
         "to the end; trees compared key by key with the model, predicates evaluated on the real trees/files.",
    design_ref="DESIGN.md §6 C08",
    technique="Lean 4 proof over an effect-sequence model for all crash indices + exhaustive crash-point fault enumeration",
)

NOT_YET = "check not built yet at this commit (work in progress; see DESIGN.md §8 work order)"


def main():
    props = [json.loads(l) for l in (VERIF / "properties.jsonl").read_text().splitlines() if l.strip()]
    checks, na = [], []
    for p in props:
        pid = p["id"]
        if pid in CLAIMED:
            c = dict(CLAIMED[pid])
            # texts refreshed after the extension pass live in harness/manifest_texts/Cxx.txt (one file per property)
            tf = VERIF / "harness" / "manifest_texts" / f"{pid}.txt"
            if tf.exists():
                c["text"] = " ".join(tf.read_text().split())
            checks.append({
                "property_id": pid,
                "quick_cmd": f"./check {pid} --tier quick",
                "thorough_cmd": f"./check {pid} --tier thorough",
                "evidence_file": f"evidence/{pid}.json",
                "replay_cmd_template": f"./check {pid} --replay {{path}}",
                "engine": "lean4-model+correspondence",
                "level_claimed": {"category": c["category"], "text": c["text"], "design_ref": c["design_ref"]},
                "level_note": c.get("level_note", LEVEL_NOTE),
                "technique": c["technique"],
            })
        else:
            na.append({"property_id": pid, "reason": NA.get(pid, NOT_YET)})
    m = {
        "version": 1,
        "setup_cmd": "./setup.sh",
        "hooks": {
            "guard": "INFRETIS_VERIF",
            "enable": "no source hooks: the harness subclasses/monkeypatches from outside (scripted generators, scripted engines, "
                      "sync runner, audit hooks); INFRETIS_VERIF=1 is exported by ./check but read by nothing in /repo",
            "baseline_off_cmd": "cd /repo && /venv/bin/python -m pytest -ra -q -p no:cacheprovider --timeout=900 --continue-on-collection-errors",
            "source_commits": [],
            "add_only": True,
        },
        "engines": [{
            "name": "lean4-model+correspondence",
            "path": "lean/ (models, theorems, drivers) + harness/ (tie)",
            "serves_properties": sorted(CLAIMED),
            "kind_free_text": "Lean 4 theorems about hand-written executable models; compiled drivers run the same definitions "
                              "against the real Python in a differential correspondence check on every run",
        }],
        "checks": checks,
        "not_applicable": na,
        "notes": "Every check: ./check Cxx --tier quick|thorough (cwd /verif). Exit 0 held, 1 violation (VIOLATION line), 2 time-out/infrastructure.",
    }
    (VERIF / "MANIFEST.json").write_text(json.dumps(m, indent=1) + "\n")


NA = {}

if __name__ == "__main__":
    main()
