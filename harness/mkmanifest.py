"""Regenerates /verif/MANIFEST.json from the table below (kept valid at all times)."""
import json
from pathlib import Path

VERIF = Path(__file__).resolve().parent.parent
LEVEL_NOTE = ("Trusted: Lean 4.33 kernel (+ propext, Classical.choice, Quot.sound only; audited by #print axioms each run; "
              "no sorry/axiom/native_decide); the hand-written Lean model is *modelled, not verified* — it is tied to /repo's "
              "current working tree by this run's correspondence check (real code vs compiled Lean driver on the same inputs); "
              "the Python harness; IEEE rounding, numpy, the OS and the MD programs are outside the model.")

CLAIMED = {
    "C10": dict(
        category="proof",
        text="Theorems for all order sequences of any length: the five-branch scan equals the number of frames on valid "
             "sub-paths (scan_weight_eq_spec), reversal symmetry, positivity iff such a frame exists, the proportional pick "
             "law (interval of length len/n), weight-vector shape, doubling rule. Tie: exhaustive over all sequences ≤7/8 "
             "frames on a 5-level alphabet + random long ones against the real wirefence_weight_and_pick/compute_weight/"
             "calc_cv_vector.",
        design_ref="DESIGN.md §6 C10",
        technique="Lean 4 proof (induction over the scan with a state-relation invariant) + exhaustive/seeded correspondence",
    ),
}

CLAIMED["C15"] = dict(
    category="proof",
    text="29 theorems over a heap model of Path/System (any lengths, any limit incl. None/0/negative): paste limit/"
         "order/length/head/time-origin and ref sharing, copy/+=/reverse freshness and independence (with the shallow-copy "
         "counterexample for in-place order[0]), reverse flags and reverse-twice, argmin/argmax and start/end/cross "
         "classification vs the extreme values incl. empty and one-frame paths; reachable_wf shows the hypotheses hold "
         "on every reachable machine state. Tie: thousands of random op programs on real Path/System objects with object "
         "identity canonicalised + exhaustive classification over a 5-level alphabet.",
    design_ref="DESIGN.md §6 C15",
    technique="Lean 4 proof over a heap (ref) model + differential op-program correspondence",
)

NOT_YET = "check not built yet at this commit (work in progress; see DESIGN.md §8 work order)"


def main():
    props = [json.loads(l) for l in (VERIF / "properties.jsonl").read_text().splitlines() if l.strip()]
    checks, na = [], []
    for p in props:
        pid = p["id"]
        if pid in CLAIMED:
            c = CLAIMED[pid]
            checks.append({
                "property_id": pid,
                "quick_cmd": f"./check {pid} --tier quick",
                "thorough_cmd": f"./check {pid} --tier thorough",
                "evidence_file": f"evidence/{pid}.json",
                "replay_cmd_template": f"./check {pid} --replay {{path}}",
                "engine": "lean4-model+correspondence",
                "level_claimed": {"category": c["category"], "text": c["text"], "design_ref": c["design_ref"]},
                "level_note": c.get("level_note", LEVEL_NOTE),
                "technique": c["technique"],
            })
        else:
            na.append({"property_id": pid, "reason": NA.get(pid, NOT_YET)})
    m = {
        "version": 1,
        "setup_cmd": "./setup.sh",
        "hooks": {
            "guard": "INFRETIS_VERIF",
            "enable": "no source hooks: the harness subclasses/monkeypatches from outside (scripted generators, scripted engines, "
                      "sync runner, audit hooks); INFRETIS_VERIF=1 is exported by ./check but read by nothing in /repo",
            "baseline_off_cmd": "cd /repo && /venv/bin/python -m pytest -ra -q -p no:cacheprovider --timeout=900 --continue-on-collection-errors",
            "source_commits": [],
            "add_only": True,
        },
        "engines": [{
            "name": "lean4-model+correspondence",
            "path": "lean/ (models, theorems, drivers) + harness/ (tie)",
            "serves_properties": sorted(CLAIMED),
            "kind_free_text": "Lean 4 theorems about hand-written executable models; compiled drivers run the same definitions "
                              "against the real Python in a differential correspondence check on every run",
        }],
        "checks": checks,
        "not_applicable": na,
        "notes": "Every check: ./check Cxx --tier quick|thorough (cwd /verif). Exit 0 held, 1 violation (VIOLATION line), 2 time-out/infrastructure.",
    }
    (VERIF / "MANIFEST.json").write_text(json.dumps(m, indent=1) + "\n")


NA = {}

if __name__ == "__main__":
    main()
