"""C01 — sampling is unbiased: exact crossing probabilities are reproduced.   (level: other)

Statistical tie (DESIGN §6-C01).  Each configuration runs the REAL `scheduler()` of the current
tree in its own process on the lattice plug-in model (`harness/lattice/`): 3–5 interfaces on
half-integers, a move assignment in {sh,wf}^ensembles, with or without an interface cap, W workers
with a random completion order, one restart through the real `restart.toml` at a random point — plus
targeted configurations: [0+] as a wire-fencing ensemble under a low cap with one worker (frequent
[0-]<->[0+] swaps under the high-acceptance rule), and restart-heavy runs (wire fencing + cap, a real
restart every 10–20 steps, i.e. hundreds of complete setup_config + scheduler() lives).
From `infretis_data.txt` (+ the live paths of `restart.toml`) the conditional crossing
probabilities are computed twice — by the Lean estimator `Infretis.Lattice.estimate` (compiled
driver, exact rationals) and by its Python twin (`fractions.Fraction`); the two must agree exactly
(correspondence).  The property predicate: every estimate lies within 6 σ_eff of the exact value
k/(k+1) = `Infretis.Lattice.hit (k-1)` (theorem `crossing_closed_form`), where
σ_eff = max(block-jackknife σ over 20 and over 40 contiguous blocks, binomial σ at the exact
value for the Kish effective number of paths) — the floor makes an under-estimated block σ
unable to raise an alarm.

Calibration (2·10⁵-step runs, 8 configurations, on the tree with the length rule repaired): the
jackknife σ is flat within ±15 % between 10 and 160 blocks (rows of the data file are one per
accepted path and nearly uncorrelated beyond a few hundred rows), so 20 and 40 blocks (≥ 20 as the
property demands) are on the plateau; the 24 z-scores had rms 0.85, max |z| 1.7, i.e. σ_eff is
slightly conservative, as intended.

Both tiers: the same comparison for *pooled* relative deviations (inverse-variance weights
over all configurations) of a-priori groups of columns — A: shooting column of [0+]; B: shooting
column of the last ensemble; C: other shooting columns; D: wire-fencing columns; and the signed
contrast L = B − A.  Each is tested at 6 σ.

Audit pass (2026-09-30): (1) a column that cannot be estimated is a failure, not a skip: fewer contributing paths than
MIN_KISH_PER_STEP·steps (Kish) → `C01:lattice:too-few-paths-to-estimate:*` (a sampler that never accepts writes no rows and
used to pass with every column skipped), σ_eff beyond MAX_R·√(p0(1−p0)/steps) → `C01:lattice:no-resolution:*`;
(2) deterministic, on every MC step of the real run: the extremes and the length a path reports are those of its frames
(`C01:lattice:reported-extreme-is-not-the-extreme-of-the-frames`; the max-OP column decides what counts as crossing, and a
10 % bias from a stale maximum is below the quick tier's per-column resolution); (3) the mean-length estimator has a Lean
twin (`Infretis.Lattice.meanLenEst`, driver op `estlen`) compared exactly on every run's rows like the crossing estimator;
(4) both closed forms are compared with the law of the plug-in's walk enumerated step by step (`sim.ensemble_law`).
Measured sensitivity of the quick tier (seed 0, unchanged tree; smallest relative bias detected with ≥ 90 % power =
7.3 σ): single crossing estimate 10–35 % (typically 13–20 %), pooled groups A 9 %, B/C 4.6 %, D (wf) 6 %, contrast L 4 %;
single mean length 4.5–20 %, pooled mean length 3.8 % (sh) / 4.1 % (wf).

Signatures depend on the cause class, never on the seed:
  C01:lattice:shooting-length-rule-bias   a shooting ensemble's estimate (or pooled group A / B / L)
        off by at most 8 % relative, in the direction the C09 length rule of the snapshot produced
        (add_to_path before f955162: accept iff L_new ≤ maxlen-1 ⇒ longer paths under-weighted;
        measured on that code at 2·10⁵ steps × 8 runs: A −1.8 % (−6.8 σ), B +1.2 % (+6.4 σ),
        L +1.4 % (+9.1 σ); with the rule repaired: all groups within 1.3 σ): LOW at the first interface (crossing
        paths are the longer ones), HIGH at the last (crossing paths stop at the last interface,
        the returning ones are longer), either sign in between
  C01:lattice:outside-6sigma:<sh|wf>:<low|high>     anything else outside the band
"""
from __future__ import annotations

import glob
import json
import multiprocessing as mp
import os
import shutil
import subprocess
import sys
import time
from fractions import Fraction

from common import LEAN, VERIF

sys.path.insert(0, str(VERIF / "harness" / "lattice"))
import sim  # noqa: E402
from props import c01_ext  # noqa: E402  (the shooting move draw for draw: real tis.shoot vs Lean latShoot)

NSIGMA = 6.0
LENGTH_RULE_MAX_REL = 0.08      # a deviation larger than this is not what the length rule produces
SIG_LENGTH_RULE = "C01:lattice:shooting-length-rule-bias"
# A column must be able to resolve something: a sampler that (almost) never accepts writes no rows, and a column without
# rows used to be skipped silently.  Calibration (unchanged tree, quick tier, seeds 0-2, 29 columns each): Kish effective
# number of paths / MC steps ≥ 0.042, R = σ_eff·√steps / √(p0(1−p0)) between 2.1 and 5.8 (R is intensive: it does not
# depend on the run length).  The limits below are 12× / 2.6× away from the worst clean column.
MIN_KISH_PER_STEP = 1.0 / 300.0
MAX_R = 15.0


# ----------------------------------------------------------------------------- configurations
def caps_with_room(n, moves):
    """half-integer caps that leave every wire-fencing ensemble at least one lattice site"""
    wf = [k - 1 for k in range(1, n) if moves[k] == "wf"]      # interface index of each wf ensemble
    if not wf:
        return []
    lo = max(wf) + 1                                            # cap must exceed λ_i by a full site
    return [j + 0.5 for j in range(lo, n)]                      # … up to λ_{n-1} (= no cap, but the code path)


def cost_ms(n, moves):
    """deterministic cost model (ms of one MC step, unloaded core) used to size the runs"""
    nwf = sum(1 for m in moves[1:] if m == "wf")
    return 7.5 + 10.0 * nwf / max(1, n - 1)


def gen_configs(ctx):
    rng = ctx.rng
    quick = ctx.quick
    # thorough: simulated budget cut by 25 % (1000 → 750 s per configuration, 2e5 → 1.5e5 steps at most) after a 5142 s
    # run against the 5400 s limit at load 60; costs a factor 1/√0.75 = 1.155 in every σ of the thorough tier
    budget_s = 150 if quick else 750
    max_steps = 22000 if quick else 150000
    cfgs = []

    def mk(n, tail, want_cap, W=None):
        moves = ["sh"] + list(tail)
        caps = caps_with_room(n, moves)
        cap = None
        if want_cap and caps:
            inner = [c for c in caps if c < n - 0.5]
            cap = rng.choice(inner) if inner else caps[-1]
        W = W if W is not None else rng.randint(1, n - 1)
        steps = int(min(max_steps, budget_s * 1000.0 / cost_ms(n, moves)))
        steps -= steps % 100
        first = int(steps * rng.uniform(0.3, 0.7))
        return {"nintf": n, "moves": moves, "cap": cap, "workers": W, "steps": steps, "first_leg": first,
                "seed": rng.randrange(1, 2 ** 31), "order_seed": rng.randrange(2 ** 31), "n_jumps": 2}

    def rand_tail(n):
        return [rng.choice(("sh", "wf")) for _ in range(n - 1)]

    if quick:
        n1, n2, n3 = rng.choice((3, 4)), rng.choice((3, 4)), rng.choice((4, 5))
        cfgs.append(mk(n1, ["sh"] * (n1 - 1), False, W=1))
        cfgs.append(mk(n2, ["wf"] * (n2 - 1), False))
        t = ["wf"] * (n3 - 2) + ["sh"]
        cfgs.append(mk(n3, t, True, W=rng.randint(2, n3 - 1)))
        for _ in range(3):
            n = rng.choice((3, 4, 5))
            cfgs.append(mk(n, rand_tail(n), rng.random() < 0.5))
    else:
        import itertools
        for tail in itertools.product(("sh", "wf"), repeat=3):          # every assignment for 4 interfaces
            cfgs.append(mk(4, tail, rng.random() < 0.5))
        for tail in itertools.product(("sh", "wf"), repeat=2):          # … and for 3
            cfgs.append(mk(3, tail, rng.random() < 0.5))
        cfgs.append(mk(5, ["sh"] * 4, False))
        cfgs.append(mk(5, ["wf", "wf", "wf", "sh"], True))
        cfgs.append(mk(5, rand_tail(5), False))
        cfgs.append(mk(5, rand_tail(5), True))

    # targeted configurations (drawn after the others so that those keep their seeds):
    #  (a) [0+] itself is a wire-fencing ensemble and the cap lies well below the last interface, one
    #      worker: the [0-]<->[0+] swap then runs often and its high-acceptance rule needs the cap;
    #  (b) restart-heavy: wire fencing + cap, a real restart through restart.toml every 10–20 steps
    #      (hundreds of setup_config + scheduler() lives): re-loaded paths need the cap in their weights.
    # Both effects grow with the distance between the cap and the last interface, hence 5–6 interfaces.
    def mk_t(n, tail, cap, W, steps, every=None):
        moves = ["sh"] + list(tail)
        assert cap in caps_with_room(n, moves)
        steps -= steps % 100
        c = {"nintf": n, "moves": moves, "cap": cap, "workers": W, "steps": steps,
             "first_leg": int(steps * rng.uniform(0.3, 0.7)),
             "seed": rng.randrange(1, 2 ** 31), "order_seed": rng.randrange(2 ** 31), "n_jumps": 2}
        if every:
            c["restart_every"] = list(every)
            c["restart_seed"] = rng.randrange(2 ** 31)
            c["first_leg"] = 0
        return c

    if quick:
        cfgs.append(mk_t(6, ["wf", "sh", "sh", "sh", "sh"], 1.5, 1, 12000))
        cfgs.append(mk_t(6, ["sh", "wf", "sh", "sh", "sh"], 2.5, 1, 12000, every=(10, 20)))
    else:
        cfgs.append(mk_t(6, ["wf", "sh", "sh", "sh", "sh"], 1.5, 1, 37500))
        cfgs.append(mk_t(6, ["wf", "sh", "sh", "sh", "sh"], 2.5, 2, 37500))
        cfgs.append(mk_t(5, ["wf", "wf", "sh", "sh"], 2.5, 2, 37500))
        cfgs.append(mk_t(6, ["sh", "wf", "sh", "sh", "sh"], 2.5, 1, 27000, every=(10, 20)))
        cfgs.append(mk_t(6, ["sh", "wf", "wf", "sh", "sh"], 3.5, 2, 27000, every=(10, 20)))
        cfgs.append(mk_t(5, ["sh", "wf", "sh", "sh"], 2.5, 3, 30000, every=(20, 40)))
    return cfgs


# ----------------------------------------------------------------------------- one configuration (child)
def ft(x):
    f = sim.tok(x)
    return str(f.numerator) if f.denominator == 1 else f"{f.numerator}/{f.denominator}"


def encode_rows(rows, n):
    parts = [f"estlen {n} {len(rows)}"]
    for (_pn, ln, mx, fr, w) in rows:
        parts.append(f"{ln} {ft(mx)} " + " ".join(ft(x) for x in fr) + " " + " ".join(ft(x) for x in w))
    return " ".join(parts)


def analyse(c, r, driver_exe):
    """estimates (Lean + twin), statistics; everything the parent needs, without the rows"""
    n = c["nintf"]
    bad = [x for x in r["rows"] if x[0] == "malformed"]
    rows = [x for x in r["rows"] if x[0] != "malformed"] + list(r["live"])
    out = {"config": c, "wall_s": r["wall_s"], "n_rows": len(r["rows"]), "n_live": len(r["live"]),
           "malformed": [b[1][:200] for b in bad[:3]], "n_malformed": len(bad), "final": r.get("final"),
           "data_files": r.get("data_files"), "restart_cstep": r.get("restart_cstep"),
           "restart_locked": r.get("restart_locked"), "n_restarts": r.get("n_restarts")}
    t0 = time.time()
    twin = sim.estimate_exact(rows, n)
    out["twin"] = [(str(a), str(b), (str(a / b) if b else "none")) for a, b in twin]
    out["twin_len"] = [(str(a), str(b), (str(a / b) if b else "none")) for a, b in sim.mean_length_exact(rows, n)]
    out["lean"] = None
    if driver_exe:
        p = subprocess.run([driver_exe], input=encode_rows(rows, n) + "\n", stdout=subprocess.PIPE,
                           stderr=subprocess.PIPE, text=True)
        out["lean"] = p.stdout.strip() if p.returncode == 0 else f"driver-failed rc={p.returncode} {p.stderr[:300]}"
    # frac on a zero weight: would be silently dropped by the estimator
    zw = 0
    for (_pn, _ln, _mx, fr, w) in rows:
        for k in range(n):
            if sim.tok(fr[k]) != 0 and sim.tok(w[k]) == 0:
                zw += 1
    out["frac_on_zero_weight"] = zw
    out["extreme_audit"] = r.get("extreme_audit")
    out["cols"] = [sim.column_stats(rows, n, k) for k in range(1, n)]
    out["lens"] = [sim.length_stats(rows, n, k) for k in range(1, n)]
    out["maxlen_path"] = max((x[1] for x in rows), default=0)
    out["sample_rows"] = [list(x) for x in rows[:2]]
    out["analyse_s"] = round(time.time() - t0, 2)
    return out


def work(arg):
    c, driver_exe, tag = arg
    sim.SCRATCH_PREFIX = tag
    r = sim.run_config(c)
    if not r["ok"]:
        return {"config": c, "error": r.get("error"), "trace": r.get("trace"), "wall_s": r["wall_s"]}
    return analyse(c, r, driver_exe)


def run_all(cfgs, driver_exe, nproc=16):
    tag = f"vp-c01-{os.getpid()}-"
    try:
        with mp.get_context("fork").Pool(min(nproc, len(cfgs)), maxtasksperchild=1) as pool:
            # longest first
            def est_cost(c):
                extra = 70.0 * c["steps"] / (sum(c["restart_every"]) / 2.0) if c.get("restart_every") else 0.0
                return c["steps"] * cost_ms(c["nintf"], c["moves"]) + extra
            order = sorted(range(len(cfgs)), key=lambda i: -est_cost(cfgs[i]))
            res = pool.map(work, [(cfgs[i], driver_exe, tag) for i in order], chunksize=1)
        out = [None] * len(cfgs)
        for i, r in zip(order, res):
            out[i] = r
        return out
    finally:
        for d in glob.glob(os.path.join(sim.SCRATCH, tag + "*")):
            shutil.rmtree(d, ignore_errors=True)


# ----------------------------------------------------------------------------- judging
def cfg_key(c):
    return (c["nintf"], tuple(c["moves"]), c["cap"], c["workers"], bool(c.get("restart_every")))


def cfg_str(c):
    rs = f"restart-every-{c['restart_every'][0]}..{c['restart_every'][1]}" if c.get("restart_every") else f"restart@{c['first_leg']}"
    return (f"n={c['nintf']} moves={','.join(c['moves'])} cap={c['cap']} W={c['workers']} steps={c['steps']} "
            f"{rs} seed={c['seed']}")


def length_rule_direction(n, k):
    """sign of the deviation the C09 length rule produces in shooting column k of n interfaces
    (-1 low, +1 high, 0 either)"""
    if k == 1 and n > 2:
        return -1
    if k == n - 1 and n > 2:
        return +1
    return 0


def classify(c, k, st):
    n = c["nintf"]
    mv = c["moves"][k]
    low = st["p"] < st["p0"]
    rel = abs(st["p"] / st["p0"] - 1.0)
    d = length_rule_direction(n, k)
    if mv == "sh" and rel <= LENGTH_RULE_MAX_REL and (d == 0 or (d < 0) == low):
        return SIG_LENGTH_RULE
    return f"C01:lattice:outside-6sigma:{mv}:" + ("low" if low else "high")


def judge(ctx, r, record=True):
    """evaluate one analysed configuration; returns the list of (signature, what, replay) failures"""
    c = r["config"]
    fails = []
    n = c["nintf"]
    if r.get("n_malformed"):
        fails.append(("C01:lattice:malformed-data-row", f"{r['n_malformed']} rows of infretis_data.txt do not have "
                      f"3+2·{n} fields: {r['malformed']}", {"config": c}))
    if r.get("frac_on_zero_weight"):
        fails.append(("C01:lattice:fraction-on-zero-weight", f"{r['frac_on_zero_weight']} (row, column) entries carry a "
                      "fraction but weight 0 — dropped by the estimator", {"config": c}))
    # correspondence: Lean estimator vs Python twin, exact
    if r.get("lean") is not None:
        halves = r["lean"].split(" || ")
        for fn, half, twin in (("estimate", halves[0], r["twin"]),
                               ("meanLenEst", halves[1] if len(halves) == 2 else "", r.get("twin_len") or [])):
            toks = half.split()
            ok = len(halves) == 2 and len(toks) == 3 * (n - 1) and len(twin) == n - 1
            if ok:
                for k in range(n - 1):
                    a, b, e = twin[k]
                    la, lb, le = toks[3 * k: 3 * k + 3]
                    same = Fraction(la) == Fraction(a) and Fraction(lb) == Fraction(b) and \
                        ((le == "none" and e == "none") or (le != "none" and e != "none" and Fraction(le) == Fraction(e)))
                    ok = ok and same
            if not ok and record:
                ctx.disagree({"fn": fn, "config": c}, [t[2] for t in twin], half[:400])
    # deterministic: reported extremes / length of every path the run handled are those of its frames
    ea = r.get("extreme_audit")
    if ea:
        if record:
            ctx.hit("paths-with-extremes-audited", ea["checked"])
        if ea["n_bad"]:
            b0 = ea["bad"][0]
            fails.append(("C01:lattice:reported-extreme-is-not-the-extreme-of-the-frames",
                          f"{ea['n_bad']} of {ea['checked']} paths handed back by run_md report (min, max, length) = "
                          f"{tuple(b0['reported_min_max_len'])} but their frames give {tuple(b0['frames_min_max_len'])} "
                          f"(first: ensemble {b0['ens']}, status {b0['status']}) — the max-OP column of the data file decides "
                          f"which paths count as crossing — {cfg_str(c)}", {"config": c, "first_bad": ea["bad"][:2]}))
    for k, st in enumerate(r["cols"], 1):
        if record:
            ctx.count(1, branch=f"move={c['moves'][k]}")
        if st is None or st.get("sigma") is None or st["kish"] < MIN_KISH_PER_STEP * c["steps"]:
            if record:
                ctx.hit("column-without-enough-rows")
            nk = (0, 0.0) if st is None else (st["n"], st["kish"])
            fails.append((f"C01:lattice:too-few-paths-to-estimate:{c['moves'][k]}",
                          f"column {k}: {nk[0]} contributing data rows (Kish effective number {nk[1]:.1f}) after {c['steps']} MC "
                          f"steps — the unchanged tree gives at least {0.042 * c['steps']:.0f}; nothing converges to the exact "
                          f"value — {cfg_str(c)}", {"config": c, "column": k, "rows": nk[0], "kish": nk[1]}))
            continue
        z = (st["p"] - st["p0"]) / st["sigma"]
        st["z"] = z
        st["R"] = st["sigma"] * c["steps"] ** 0.5 / (st["p0"] * (1 - st["p0"])) ** 0.5
        if st["R"] > MAX_R:
            fails.append((f"C01:lattice:no-resolution:{c['moves'][k]}",
                          f"column {k}: σ_eff = {st['sigma']:.4f} after {c['steps']} MC steps is {st['R']:.1f}·√(p0(1−p0)/steps); "
                          f"the unchanged tree stays below 5.8 — a band this wide accepts anything — {cfg_str(c)}",
                          {"config": c, "column": k, "sigma_eff": st["sigma"], "R": st["R"]}))
        # twin float vs exact twin: the statistics use the same estimate
        e = r["twin"][k - 1][2]
        if e != "none" and abs(float(Fraction(e)) - st["p"]) > 1e-12 and record:
            ctx.disagree({"fn": "float-vs-exact estimate", "config": c, "col": k}, st["p"], e)
        if abs(z) > NSIGMA:
            sig = classify(c, k, st)
            what = (f"P(λ_{k}|λ_{k-1}) = {st['p']:.5f} but the exact value is {st['p0']:.5f} "
                    f"({100 * (st['p'] / st['p0'] - 1):+.2f} %, {z:+.1f} σ, σ_eff = {st['sigma']:.5f}; block σ "
                    f"{st['sigma_jk']:.5f}, binomial floor {st['floor']:.5f}) — {cfg_str(c)}")
            fails.append((sig, what, {"config": c, "column": k, "estimate": st["p"], "exact": st["p0"],
                                      "sigma_eff": st["sigma"], "z": z,
                                      "all_estimates": [s and s["p"] for s in r["cols"]],
                                      "all_sigmas": [s and s["sigma"] for s in r["cols"]]}))
    # second exact reference: reweighted mean path length of every column vs 2 + (k²−1)/3 + k(n−k)
    # (theorem mean_length_closed_form); same 6 σ_eff rule
    for k, st in enumerate(r.get("lens") or [], 1):
        if record:
            ctx.count(1, branch=f"length:move={c['moves'][k]}")
        if st is None or st.get("sigma") is None or st["n"] < 40:
            continue
        z = (st["m"] - st["m0"]) / st["sigma"]
        st["z"] = z
        e = (r.get("twin_len") or [("", "", "none")] * n)[k - 1][2]
        if e != "none" and abs(float(Fraction(e)) - st["m"]) > 1e-9 * st["m0"] and record:
            ctx.disagree({"fn": "float-vs-exact mean length", "config": c, "col": k}, st["m"], e)
        if abs(z) > NSIGMA:
            low = st["m"] < st["m0"]
            sig = f"C01:lattice:mean-length-outside-6sigma:{c['moves'][k]}:" + ("low" if low else "high")
            what = (f"mean path length of column {k} = {st['m']:.4f} but the exact value is {st['m0']:.4f} "
                    f"({100 * (st['m'] / st['m0'] - 1):+.2f} %, {z:+.1f} σ, σ_eff = {st['sigma']:.4f}) — {cfg_str(c)}")
            fails.append((sig, what, {"config": c, "column": k, "mean_length": st["m"], "exact": st["m0"],
                                      "sigma_eff": st["sigma"], "z": z}))
    return fails


def pooled_lengths(results):
    """pooled relative deviation of the mean path length per move type.  Columns of one configuration share their
    paths (swaps), so within a configuration they are combined as fully correlated (mean deviation, mean σ —
    conservative); configurations are independent runs and are combined with inverse-variance weights."""
    acc = {}
    for r in results:
        if not r.get("lens"):
            continue
        c = r["config"]
        per = {}
        for k, st in enumerate(r["lens"], 1):
            if st is None or not st.get("sigma") or st["n"] < 40:
                continue
            per.setdefault("len-" + c["moves"][k], []).append((st["m"] / st["m0"] - 1.0, st["sigma"] / st["m0"]))
        for g, l in per.items():
            dev = sum(d for d, _ in l) / len(l)
            s_ = sum(x for _, x in l) / len(l)
            a = acc.setdefault(g, [0.0, 0.0, 0])
            a[0] += dev / (s_ * s_)
            a[1] += 1.0 / (s_ * s_)
            a[2] += len(l)
    return {g: {"columns": m, "rel_dev": num / den, "sigma": den ** -0.5, "z": num / den * den ** 0.5}
            for g, (num, den, m) in sorted(acc.items())}


def group_of(c, k):
    n = c["nintf"]
    if c["moves"][k] == "wf":
        return "D:wf"
    d = length_rule_direction(n, k)
    return {-1: "A:sh-first", 1: "B:sh-last", 0: "C:sh-middle"}[d]


def pooled(results):
    """inverse-variance pooled relative deviation per a-priori group of columns, and the signed
    length-rule contrast L = (B − A)/2-style pooled mean of s·dev with s = −1 on A, +1 on B"""
    acc = {}

    def add(g, dev, s):
        a = acc.setdefault(g, [0.0, 0.0, 0])
        a[0] += dev / (s * s)
        a[1] += 1.0 / (s * s)
        a[2] += 1

    for r in results:
        if "cols" not in r:
            continue
        c = r["config"]
        for k, st in enumerate(r["cols"], 1):
            if st is None or not st.get("sigma"):
                continue
            s = st["sigma"] / st["p0"]
            dev = st["p"] / st["p0"] - 1.0
            g = group_of(c, k)
            add(g, dev, s)
            if g.startswith("A"):
                add("L:length-rule-contrast", -dev, s)
            elif g.startswith("B"):
                add("L:length-rule-contrast", dev, s)
    out = {}
    for g, (num, den, m) in sorted(acc.items()):
        out[g] = {"columns": m, "rel_dev": num / den, "sigma": den ** -0.5, "z": num / den * den ** 0.5}
    return out


def judge_pooled(pl):
    """(signature, what) for every pooled group beyond 6 σ"""
    out = []
    for g, d in pl.items():
        if abs(d["z"]) <= NSIGMA:
            continue
        low = d["rel_dev"] < 0
        small = abs(d["rel_dev"]) <= LENGTH_RULE_MAX_REL
        if small and ((g.startswith("A") and low) or (g.startswith("B") and not low) or (g.startswith("L") and not low)):
            sig = SIG_LENGTH_RULE
        else:
            sig = f"C01:lattice:outside-6sigma:pooled-{g[0]}:" + ("low" if low else "high")
        what = (f"pooled over {d['columns']} estimates of group {g}: relative deviation "
                f"{100 * d['rel_dev']:+.2f} % ± {100 * d['sigma']:.2f} % ({d['z']:+.1f} σ)")
        out.append((sig, what, g))
    return out


def run(ctx):
    ctx.level = "other"
    ctx.exhaustive = False
    ctx.rule = ("one evaluation = one (configuration, interface) estimate compared with its exact value; distinct = "
                "distinct (number of interfaces, move assignment, cap, workers); every configuration is a full run of "
                "the real scheduler with one restart; non-trivial = at least 40 data rows in the column; a column with fewer "
                "effective paths than steps/300 or without a usable σ is a failure.  Extension "
                "(branch ext-*): one evaluation = one scripted shooting move (real tis.shoot on the plug-in engine vs "
                "latShoot vs Moves.shoot), distinct = distinct accepted (ensemble, old path, new path)")
    driver_exe = str(LEAN / ".lake/build/bin/drv_c01") if ctx._driver_ok else None

    # closed-form reference values from the Lean model (theorem crossing_closed_form / crossing_solution_exists)
    if ctx._driver_ok:
        ks = list(range(0, 8))
        out = ctx.driver([f"hit {k}" for k in ks] + [f"lam {k}" for k in ks])
        for k in ks:
            if Fraction(out[k]) != Fraction(k + 1, k + 2):
                ctx.disagree({"fn": "hit", "k": k}, str(Fraction(k + 1, k + 2)), out[k])
            if Fraction(out[len(ks) + k]) != Fraction(2 * k + 1, 2):
                ctx.disagree({"fn": "lam", "k": k}, str(Fraction(2 * k + 1, 2)), out[len(ks) + k])
        # mean path length closed form (theorem mean_length_closed_form) against the twin used by the statistics
        ml_cases = [(n_, k_) for n_ in range(2, 8) for k_ in range(1, n_)]
        got = ctx.driver([f"meanlen {n_} {k_}" for n_, k_ in ml_cases])
        for (n_, k_), g in zip(ml_cases, got):
            ctx.count(1, branch="mean-length-closed-form")
            if g == "bad-op" or Fraction(g) != sim.exact_mean_length(n_, k_):
                ctx.disagree({"fn": "meanLen", "n": n_, "k": k_}, str(sim.exact_mean_length(n_, k_)), g)
        # the closed forms against the law of the plug-in's walk enumerated step by step (no formula shared): crossing
        # probability and mean number of frames of every column (sim.ensemble_law)
        for (n_, k_), g in zip(ml_cases, got):
            if g == "bad-op":
                continue
            ctx.count(1, branch="closed-forms-vs-enumerated-law")
            pc, ml = sim.ensemble_law(n_, k_)
            if abs(pc - float(Fraction(k_, k_ + 1))) > 1e-9 or abs(ml - float(Fraction(g))) > 1e-9 * float(Fraction(g)):
                ctx.disagree({"fn": "enumerated law of the walk vs closed forms", "n": n_, "k": k_},
                             f"P={pc!r} mean length={ml!r}", f"hit={k_}/{k_ + 1} meanLen={g}")
        # the walk's finite-horizon law of the exit time (stepsBy = E[min(τ,t)]) against x(N−x): 0 ≤ gap ≤ ρ^t (x(N−x)+1)
        # (theorem exit_time_law_converges)
        st_cases = [(N_, 18, x_) for N_ in (2, 3, 4, 5) for x_ in range(0, N_ + 1)]
        got_s = ctx.driver([f"steps {N_} {t_} {x_}" for N_, t_, x_ in st_cases])
        for (N_, t_, x_), g in zip(st_cases, got_s):
            ctx.count(1, branch="exit-time-law")
            ok_ = g != "bad-op"
            if ok_:
                gap = Fraction(x_ * (N_ - x_)) - Fraction(g)
                ok_ = 0 <= gap <= Fraction(N_ * N_, N_ * N_ + 4) ** t_ * (x_ * (N_ - x_) + 1)
            if not ok_:
                ctx.disagree({"fn": "stepsBy", "N": N_, "t": t_, "x": x_}, f"x(N-x)={x_ * (N_ - x_)}", g)
        # … and of the time to the top on the event "top first" (hitStepsBy) against x(N²−x²)/(3N): 0 ≤ gap ≤ (t+1) ρ^t (x(N−x)+1)
        # (theorem hit_time_law_converges)
        hs_cases = [(N_, 16, x_) for N_ in (2, 3, 4, 5) for x_ in range(0, N_ + 1)]
        got_h = ctx.driver([f"hsteps {N_} {t_} {x_}" for N_, t_, x_ in hs_cases])
        for (N_, t_, x_), g in zip(hs_cases, got_h):
            ctx.count(1, branch="hit-time-law")
            ok_ = g != "bad-op"
            if ok_:
                gap = Fraction(x_ * (N_ * N_ - x_ * x_), 3 * N_) - Fraction(g)
                ok_ = 0 <= gap <= (t_ + 1) * Fraction(N_ * N_, N_ * N_ + 4) ** t_ * (x_ * (N_ - x_) + 1)
            if not ok_:
                ctx.disagree({"fn": "hitStepsBy", "N": N_, "t": t_, "x": x_}, f"x(N²-x²)/(3N)={Fraction(x_ * (N_ * N_ - x_ * x_), 3 * N_)}", g)
        # the walk's own finite-horizon law (reachBy) against the closed form: 0 ≤ gap ≤ ρ^t (k+2)
        # (theorems walk_law_below_closed_form / walk_law_gap), and the walk simulated by the plug-in's rule
        T = 300
        got = ctx.driver([f"reach {k + 2} {T} {k + 1}" for k in range(5)])
        for k in range(5):
            ctx.count(1, branch="walk-law")
            N = k + 2
            gap = Fraction(k + 1, k + 2) - Fraction(got[k])
            bound = Fraction(N * N, N * N + 4) ** T * N
            if not (0 <= gap <= bound and gap < Fraction(1, 10 ** 9)):
                ctx.disagree({"fn": "reachBy", "k": k, "t": T}, f"gap {float(gap):.3e}", f"bound {float(bound):.3e}")
        # estimator on hand-made rows incl. degenerate ones (no weight, all cross, none crosses)
        tiny = [
            ("estimate 3 2 5 3/2 0 1/2 1/3 0 1 2 7 5/2 0 1/4 2/3 0 1 1", "3/4 3/4 1 2/3 5/6 4/5"),
            ("estimate 3 1 5 1/2 0 0 0 0 0 0", "0 0 none 0 0 none"),
            ("estimate 2 2 3 1/2 0 1 0 1 3 1/2 0 1 0 4", "0 5/4 0"),
            ("estimate 2 1 3 1/2 0 -1 0 1", "0 0 none"),
            ("estimate 2 1 3 1/2 0 1", "bad-op"),
            ("estlen 3 2 5 3/2 0 1/2 1/3 0 1 2 7 5/2 0 1/4 2/3 0 1 1", "3/4 3/4 1 2/3 5/6 4/5 || 17/4 3/4 17/3 11/2 5/6 33/5"),
            ("estlen 3 1 5 1/2 0 0 0 0 0 0", "0 0 none 0 0 none || 0 0 none 0 0 none"),
        ]
        got = ctx.driver([t[0] for t in tiny])
        for (q, want), g in zip(tiny, got):
            ctx.count(1, branch="estimator-unit")
            if g != want:
                ctx.disagree({"fn": "estimate(unit)", "line": q}, want, g)

    # extension: the real tis.shoot on the real plug-in engine, draw for draw, against Infretis.LatticeMoves.latShoot
    # (own generator: the configurations below keep the seeds they had before this block existed)
    import random as _random
    t_ext = time.time()
    main_rng = ctx.rng
    ctx.rng = _random.Random(f"c01-ext-{ctx.seed}")
    try:
        c01_ext.run_ext(ctx)
    finally:
        ctx.rng = main_rng
    ctx.extra["ext_wall_s"] = round(time.time() - t_ext, 1)
    if os.environ.get("C01_EXT_ONLY"):          # development switch: deterministic part only (no simulations)
        ctx.extra["ext_only"] = True
        return

    cfgs = gen_configs(ctx)
    ctx.extra["configurations"] = [cfg_str(c) for c in cfgs]
    results = run_all(cfgs, driver_exe)
    tot_steps = 0
    table = []
    for r in results:
        c = r["config"]
        if "error" in r:
            ctx.disagree({"fn": "scheduler run", "config": c}, r["error"], "run completes")
            ctx.extra.setdefault("run_errors", []).append({"config": cfg_str(c), "error": r["error"], "trace": r.get("trace")})
            continue
        tot_steps += c["steps"]
        ctx.distinct(cfg_key(c))
        for (sig, what, rep) in judge(ctx, r):
            ctx.fail(sig, what, rep)
        row = {"config": cfg_str(c), "wall_s": r["wall_s"], "rows": r["n_rows"], "data_files": r["data_files"],
               "restart_cstep": r["restart_cstep"], "n_restarts": r.get("n_restarts"), "final_cstep": (r.get("final") or {}).get("cstep"),
               "longest_path": r["maxlen_path"],
               "cols": [None if s is None or s.get("sigma") is None else
                        {"p": round(s["p"], 5), "exact": round(s["p0"], 5), "sigma_eff": round(s["sigma"], 5),
                         "z": round(s.get("z", 0.0), 2), "band_rel_pct": round(100 * NSIGMA * s["sigma"] / s["p0"], 2),
                         "rows": s["n"], "kish": round(s["kish"], 1)} for s in r["cols"]],
               "mean_length": [None if s is None or s.get("sigma") is None else
                               {"m": round(s["m"], 4), "exact": round(s["m0"], 4), "sigma_eff": round(s["sigma"], 4),
                                "z": round(s.get("z", 0.0), 2)} for s in (r.get("lens") or [])]}
        table.append(row)
        ctx.sample({"config": cfg_str(c), "first_rows": r["sample_rows"], "estimates": [s and round(s["p"], 5) for s in r["cols"]],
                    "lean": (r.get("lean") or "")[:160]})
        if len(r.get("data_files") or []) != 1:
            ctx.hit("restart-opened-a-second-data-file")
        if (r.get("final") or {}).get("cstep") != c["steps"]:
            ctx.hit("final-cstep-differs-from-steps")
    ctx.extra["results"] = table
    ctx.extra["mc_steps_total"] = tot_steps
    pl = pooled(results)
    ctx.extra["pooled_relative_deviation"] = pl
    # pooled a-priori groups resolve what single columns may not
    for g in pl:
        ctx.count(1, branch="pooled-group")
    if True:
        for (sig, what, g) in judge_pooled(pl):
            ctx.fail(sig, what, {"pooled_group": g, "pooled": pl[g], "configs": cfgs,
                                 "estimates": [[s_ and s_["p"] for s_ in r.get("cols", [])] for r in results],
                                 "sigmas": [[s_ and s_["sigma"] for s_ in r.get("cols", [])] for r in results]})
    pll = pooled_lengths(results)
    ctx.extra["pooled_mean_length_relative_deviation"] = pll
    for g, d in pll.items():
        ctx.count(1, branch="pooled-length-group")
        if abs(d["z"]) > NSIGMA:
            ctx.fail(f"C01:lattice:mean-length-outside-6sigma:pooled-{g}:" + ("low" if d["rel_dev"] < 0 else "high"),
                     f"pooled over {d['columns']} columns ({g}): mean path length off by {100 * d['rel_dev']:+.2f} % ± "
                     f"{100 * d['sigma']:.2f} % ({d['z']:+.1f} σ)",
                     {"pooled_group": g, "pooled": d, "configs": cfgs})
    # level is "other", so the framework does not copy the proof bookkeeping: do it here
    ctx.extra.update({
        "obligations": int(ctx.proof.get("obligations", 0)), "discharged": int(ctx.proof.get("discharged", 0)),
        "checker_cmd": "cd lean && lake build Infretis.Props.C01 drv_c01 && lake env lean .lake/audit_C01.lean  (#print axioms)",
        "theorems": ctx.proof.get("theorems", []), "proof_problems": ctx.proof.get("problems", []),
        "trusted_base": ["Lean 4.33.0 kernel; axioms ⊆ {propext, Classical.choice, Quot.sound} (audited each run)",
                         "Mathlib modules imported one at a time in Lemmas/Props",
                         "hand-written Lean estimators (crossing, mean length) — tied to their Python twins exactly on every run's data",
                         "Python harness: lattice plug-in, synchronous runner, statistics"],
    })
    ctx.explanation = (
        "level=other: a statistical acceptance test cannot be a theorem. Proved in Lean (audited): the exact reference "
        "values (k+1)/(k+2) as the unique solution of the walk's boundary-value recurrence for every k; the estimator's "
        "algebra; detailed balance of the shooting kernel with the length rule as stated (and its failure with the rule "
        "as coded). Extension: the whole shooting move on the lattice as a function of its draws (latShoot) — exact "
        "characterisation of acceptance for all paths, the length rule as ξ ≤ n_old/n_new, detailed balance and "
        "finite-family invariance between any two concrete paths, marginals / Rao-Blackwell of the swap step over finite "
        "sums, the estimator's limit as a ratio of expectations; latShoot is compared draw for draw with the real "
        "tis.shoot on every run and is proved equal to C09's generic Moves.shoot on lattice streams (maxlength ≥ 2); the "
        "mean-length estimator as a Lean function (bounds, invariance, limit); finite-horizon laws of the walk for the "
        "crossing probability and both ingredients of the mean length converge to the closed forms. Tested here: real "
        "scheduler() runs vs the exact values within 6 σ_eff; reported extremes of every handled path (deterministic).")
    ctx.assumptions += [
        "the solution of the gambler's-ruin recurrence is the walk's hitting probability (optional stopping) — standard, not formalised",
        "process pool replaced by a synchronous runner behind a pickle boundary; completion order random and independent of the job's outcome",
        "os.fsync disabled and logging disabled in the child processes (durability/diagnostics only)",
        "σ from delete-one-block jackknife (20 and 40 contiguous blocks of data rows, larger of the two) with a binomial "
        "floor at the exact value; calibrated on 2e5-step runs (σ flat within 15 % from 10 to 160 blocks; z rms 0.85 on "
        "unbiased code); bias smaller than 6 σ_eff is not detected. Measured (quick, seed 0): 6 σ_eff = 8–29 % relative per "
        "crossing estimate, 3.3–7.4 % per pooled group, 3.1–3.4 % for the pooled mean length; with ≥ 90 % power (7.3 σ): "
        "10–35 % / 4–9 % / 3.8–4.1 %. Thorough (simulated budget cut by 25 % on 2026-09-30, σ × 1.155): ≈ 3.5–7 % per "
        "estimate, ≈ 1.2–1.7 % per pooled group",
        "the statistical part cannot see a bias of ≈ 10 % in a single column in the quick tier (seeded C01-r4-mut1: z = −4.6 "
        "on its column); that class (wrong recorded maximum) is covered by the deterministic extreme audit instead",
        "lambda_minus_one is never set in the configurations (the [0-] ensemble is bounded by the plug-in's reflecting wall)",
        "the wire-fencing kernel's reversibility is not proved in the model (only its weights, C10)",
        "numpy's generator: integers uniform, random() uniform on [0,1), coins fair and independent — the step from the "
        "set of draws characterised by shoot_accept_iff to the probability kernelPaths is not formalised",
        "ergodicity of the ∞RETIS chain (hypothesis of estimate_of_stationary_fractions) is assumed, not proved",
        "scripted ξ are dyadic and chosen so that float division + int() equals the exact floor",
    ]


def replay(ctx, obj):
    """re-run the recorded configuration (same seeds) on the current tree"""
    rep = obj.get("replay", {})
    driver_exe = str(LEAN / ".lake/build/bin/drv_c01") if ctx._driver_ok else None
    if rep.get("ext"):
        return c01_ext.replay_ext(ctx, rep)
    if "config" in rep:
        cfgs = [rep["config"]]
    elif "configs" in rep:
        cfgs = rep["configs"]
    else:
        print(json.dumps(obj, indent=1)[:2000])
        return 1
    results = run_all(cfgs, driver_exe)
    bad = 0
    for r in results:
        if "error" in r:
            print("run failed:", r["error"])
            bad = 1
            continue
        fl = judge(ctx, r, record=False)
        print(cfg_str(r["config"]))
        for k, s in enumerate(r["cols"], 1):
            if s and s.get("sigma"):
                print(f"   column {k}: estimate {s['p']:.5f} exact {s['p0']:.5f} sigma_eff {s['sigma']:.5f} z {s.get('z', 0):+.2f}")
        for (sig, what, _r) in fl:
            print("   STILL FAILS:", sig, what)
            bad = 1
    if "pooled" in rep and str(rep.get("pooled_group", "")).startswith("len-"):
        pll = pooled_lengths(results)
        for g, d in pll.items():
            print("pooled", g, d)
            if abs(d["z"]) > NSIGMA:
                print("   STILL FAILS:", g)
                bad = 1
    elif "pooled" in rep:
        pl = pooled(results)
        for g, d in pl.items():
            print("pooled", g, d)
        for (sig, what, g) in judge_pooled(pl):
            print("   STILL FAILS:", sig, what)
            bad = 1
    return bad
