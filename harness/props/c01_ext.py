"""C01 extension: the shooting move on the lattice, draw for draw.

The real `infretis.core.tis.shoot` drives the real plug-in engine `harness/lattice/lattice_plugin.py`
(through `EngineBase.propagate`, `add_to_path`, `paste_paths`, `check_interfaces`, files on disk) with scripted
generators: `ens_set["rgen"]` answers `integers(1, L-1)` with the case's index and `random()` with the case's ξ;
the engine's `rgen.random()` answers with the case's coins (0.25 = up, 0.75 = down).  The same case goes to the Lean
driver, which evaluates `Infretis.LatticeMoves.latShoot` (the function the theorems `shoot_*` of Props/C01 are about)
and `latShootRef` (C09's generic `Moves.shoot` fed with the lattice stream).  Compared, exactly: accept flag, status,
`generated[3]`, every frame of the returned path, the number of coins drawn backward and forward.

Predicates on the real code's output, independent of the model (signature `C01:shoot:*`):
  * reconstruct: an accepted path is exactly  reversed(back walk) + forward walk  of the coins that were drawn;
  * length-rule:  a trial whose two walks end on their own is accepted iff  L_new − 2 ≤ (L_old − 2)/ξ  (and it crossed λ_i),
    i.e. iff ξ ≤ (L_old−2)/(L_new−2): the acceptance probability over ξ ~ U[0,1) is min(1, n_old/n_new) — the factor of
    theorem `shoot_detailed_balance_paths`;
  * kernel: for the accepted (old, new) pair the Lean kernel satisfies  π(o)·K(o,n) = π(n)·K(n,o)  with the match count
    recomputed here from the real paths.
"""
from __future__ import annotations

import math
import os
import shutil
import sys
import tempfile
from fractions import Fraction

from common import VERIF, err_kind

_ENV = {}


class BadDraw(Exception):
    pass


COIN_UP = math.nextafter(0.5, 0.0)
COIN_DOWN = 0.5


def _imports():
    if _ENV:
        return _ENV
    import importlib.util  # noqa: F401
    from infretis.classes.engines import enginebase
    from infretis.classes.path import Path
    from infretis.classes.system import System
    from infretis.core import tis
    from infretis.core.core import create_external

    plugin = str(VERIF / "harness" / "lattice" / "lattice_plugin.py")
    tmp = tempfile.mkdtemp(prefix="c01x_", dir="/dev/shm" if os.path.isdir("/dev/shm") else None)
    os.mkdir(os.path.join(tmp, "exe"))
    os.mkdir(os.path.join(tmp, "load"))
    eng = create_external({"class": "LatticeEngine", "module": plugin, "timestep": 1.0, "subcycles": 1,
                           "wall": -6, "temperature": 1.0}, "engine", ["step"])
    eng.order_function = create_external({"class": "LatticeOP", "module": plugin}, "orderparameter", ["calculate"])
    eng.exe_dir = os.path.join(tmp, "exe")
    _ENV.update(enginebase=enginebase, Path=Path, System=System, tis=tis, engine=eng, tmp=tmp)
    return _ENV


def cleanup():
    if _ENV:
        shutil.rmtree(_ENV["tmp"], ignore_errors=True)
        _ENV.clear()


class EnsGen:
    """ens_set['rgen']: scripted index and ξ, logged"""

    def __init__(self, idx, xi):
        self.idx, self.xi, self.log = idx, xi, []

    def integers(self, lo, hi):
        self.log.append(f"int:{lo}:{hi}")
        if not lo < hi:
            raise ValueError("low >= high")
        if not lo <= self.idx < hi:
            raise BadDraw()
        return self.idx

    def random(self):
        self.log.append("random")
        if self.xi < 0:
            raise BadDraw()
        return self.xi

    def __getattr__(self, name):
        raise AssertionError(f"unexpected draw request {name}")


class CoinGen:
    """engine.rgen: two scripted coin lists; the engine is told which one by `side`"""

    def __init__(self, cb, cf):
        self.c = {True: list(cb), False: list(cf)}
        self.used = {True: 0, False: 0}
        self.side = True

    def random(self):
        k = self.used[self.side]
        if k >= len(self.c[self.side]):
            raise BadDraw()
        self.used[self.side] = k + 1
        # the two doubles next to the plug-in's threshold: "up" is the largest double below 0.5, "down" is 0.5 itself —
        # `rgen.random() < 0.5` with any other threshold or comparison answers differently on one of them
        return COIN_UP if self.c[self.side][k] else COIN_DOWN

    def __getattr__(self, name):
        raise AssertionError(f"unexpected engine draw request {name}")


def mk_old(E, case):
    fn = os.path.join(E["tmp"], "load", "old.lat")
    with open(fn, "w") as f:
        f.write("\n".join(str(x) for x in case["old"]) + "\n")
    p = E["Path"](maxlen=10_000, time_origin=0)
    for k, o in enumerate(case["old"]):
        s = E["System"]()
        s.order = [float(o)]
        s.config = (fn, k)
        s.vel_rev = False
        s.ekin, s.vpot = 0.0, 0.0
        p.phasepoints.append(s)
    p.generated = ("ld" if case["ld"] else "sh", 0.0, 0, 0)
    p.status = "ACC"
    p.weights = (1.0,)
    p.path_number = 7
    return p


def run_real(case):
    E = _imports()
    eng = E["engine"]
    E["enginebase"].counter.count = -1
    old = mk_old(E, case)
    gen = EnsGen(case["idx"], float(Fraction(case["xi"])))
    coins = CoinGen(case["cb"], case["cf"])
    eng.rgen = coins
    # the engine object has no notion of direction for its generator: switch the coin list in propagate
    orig = eng._propagate_from

    def tap(name, path, system, ens_set, msg_file, reverse=False):
        coins.side = bool(reverse)
        return orig(name, path, system, ens_set, msg_file, reverse=reverse)

    eng._propagate_from = tap
    n, i = case["top"], case["mid"] - 1
    ens = {"interfaces": (0.5, i + 0.5, n - 0.5), "tis_set": {"maxlength": case["ML"], "allowmaxlength": False},
           "rgen": gen, "ens_name": f"{i + 1:03d}", "mc_move": "sh", "start_cond": ("L",)}
    info = {}
    try:
        acc, trial, status = E["tis"].shoot(ens, old, eng, start_cond=("L",))
    except BadDraw:
        return "err:baddraw", info
    except Exception as e:  # noqa: BLE001
        return err_kind(e), info
    finally:
        del eng._propagate_from
        for f in os.listdir(eng.exe_dir):
            os.remove(os.path.join(eng.exe_dir, f))
    ops = [s.order[0] for s in trial.phasepoints]
    if any(float(x) != int(x) for x in ops):
        return f"non-integer-order:{ops!r}", info
    ops = [int(x) for x in ops]
    if ops:
        info["extremes"] = (float(trial.ordermin[0]), float(trial.ordermax[0]), int(trial.length))
    g = trial.generated
    info.update(acc=acc, status=status, ops=ops, gen=g, draws=list(gen.log), usedB=coins.used[True], usedF=coins.used[False],
                old_ops=[int(s.order[0]) for s in old.phasepoints])
    flag = "1" if acc is True else ("0" if acc is False else f"badacc:{acc!r}")
    nb = g[3] if isinstance(g, tuple) and len(g) == 4 and g[0] == "sh" else f"badgen:{g!r}"
    return f"ok {flag} {status} {nb} {coins.used[True]} {coins.used[False]} | {len(ops)}" + "".join(f" {x}" for x in ops), info


def model_line(case):
    b = lambda l: f"{len(l)}" + "".join(f" {int(x)}" for x in l)  # noqa: E731
    return (f"lshoot {case['mid']} {case['top']} {case['ML']} {int(case['ld'])} {case['idx']} {case['xi']} "
            f"{b(case['old'])} {b(case['cb'])} {b(case['cf'])}")


def xi_ok(L, xi):
    """float division then int() equals the exact floor (the model works on exact rationals)"""
    x = float(xi)
    if x <= 0:
        return True
    return int((L - 2) / x) == math.floor(Fraction(L - 2) / Fraction(xi)) and Fraction(x) == Fraction(xi)


# ----------------------------------------------------------------------------- generators
def rand_path(rng, top, mid):
    """a valid [i+] lattice path by rejection: 0, 1, … until 0 or top; must reach mid"""
    while True:
        xs = [0, 1]
        while 0 < xs[-1] < top and len(xs) < 60:
            xs.append(xs[-1] + rng.choice((1, -1)))
        if (xs[-1] <= 0 or xs[-1] >= top) and max(xs) >= mid and len(xs) >= 3:
            return xs


def walk_coins(rng, x, top, nmax, bias=0.5):
    """coins of a walk from x until it leaves (0, top) (plus a few spare coins)"""
    cs = []
    while 0 < x < top and len(cs) < nmax:
        c = rng.random() < bias
        cs.append(c)
        x += 1 if c else -1
    return cs + [rng.random() < 0.5 for _ in range(rng.choice((0, 0, 2)))]


XI_GRID = [Fraction(k, 64) for k in range(1, 64)] + [Fraction(1, 256), Fraction(3, 1024), Fraction(255, 256)]


def gen_cases(ctx):
    rng = ctx.rng
    n_rand = 1500 if ctx.quick else 8000
    cases = []

    def add(top, mid, old, ld, idx, xi, cb, cf, ML=200, kind="random"):
        if not ld and not xi_ok(len(old), xi):
            return
        cases.append({"top": top, "mid": mid, "old": list(old), "ld": bool(ld), "idx": idx, "xi": str(xi), "cb": [bool(c) for c in cb],
                      "cf": [bool(c) for c in cf], "ML": ML, "kind": kind})

    # exhaustive small scope: 3 interfaces, every old path of length ≤ 7 from a fixed list, every interior index,
    # every coin pair of length ≤ 3 completing or not, three ξ
    olds3 = [[0, 1, 0], [0, 1, 2, 1, 0], [0, 1, 2, 3], [0, 1, 2, 1, 2, 3], [0, 1, 2, 1, 2, 1, 0]]
    import itertools
    for mid in (1, 2, 3):
        for old in olds3:
            if max(old) < mid:
                continue
            for idx in range(1, len(old) - 1):
                for lb in range(1, 4):
                    for cb in itertools.product((0, 1), repeat=lb):
                        for cf in ((0,), (1,), (1, 1), (0, 0), (1, 0, 0), (0, 1, 1)):
                            for xi in (Fraction(1, 4), Fraction(1, 2), Fraction(63, 64)):
                                if rng.random() < (0.08 if ctx.quick else 0.5):
                                    add(3, mid, old, False, idx, xi, cb, cf, kind="small")
    # random valid cases: complete walks, ξ on a dyadic grid, all ensembles of 3..6 interfaces
    for _ in range(n_rand):
        top = rng.choice((3, 4, 5, 6))
        mid = rng.randint(1, top)
        old = rand_path(rng, top, mid)
        idx = rng.randint(1, len(old) - 2)
        x = old[idx]
        cb = walk_coins(rng, x, top, 80, bias=rng.choice((0.5, 0.3)))
        cf = walk_coins(rng, x, top, 80, bias=rng.choice((0.5, 0.7)))
        xi = rng.choice(XI_GRID)
        ld = rng.random() < 0.1
        ML = rng.choice((200, 200, 200, rng.randint(3, 12)))
        add(top, mid, old, ld, idx, xi, cb, cf, ML=ML)
    # boundary of the length rule: ξ chosen right at / next to (L_old-2)/(L_new-2)
    for _ in range(n_rand // 2):
        top = rng.choice((3, 4, 5))
        mid = rng.randint(1, top)
        old = rand_path(rng, top, mid)
        idx = rng.randint(1, len(old) - 2)
        x = old[idx]
        cb = walk_coins(rng, x, top, 80, bias=0.3)
        cf = walk_coins(rng, x, top, 80)
        lnew = len(cb) + len(cf) + 1          # upper bound of the trial length
        for dl in (0, 1, -1):
            b = lnew - 2 + dl
            if b <= 0:
                continue
            r = Fraction(len(old) - 2, b)
            for xi in (r, r + Fraction(1, 1024), r - Fraction(1, 1024)):
                if 0 < xi < 1:
                    add(top, mid, old, False, idx, xi, cb, cf, kind="boundary")
            # the doubles around the boundary, as the exact rationals they are (the model takes any rational; `add`
            # keeps the case only if the code's float division + int() equals the exact floor)
            if 0 < r < 1:
                fr = float(r)
                for x in (fr, math.nextafter(fr, 0.0), math.nextafter(fr, 2.0)):
                    if 0 < x < 1 and Fraction(x) != r:
                        add(top, mid, old, False, idx, Fraction(x), cb, cf, kind="boundary-float")
    # tiny maxlength (0, 1, 2): maxlen − 1 = 0 makes the plug-in's loop add no frame at all (BTX with an empty path);
    # the generic model differs there (theorem shoot_generic_model_differs_maxlength_le_1) and must answer err:index
    for ML in (0, 1, 2):
        for old in ([0, 1, 0], [0, 1, 2, 1, 0], [0, 1, 2, 3], [0, 1, 0, 1, 0]):
            for idx in range(1, len(old) - 1):
                for ld in (False, True):
                    add(3, 1, old, ld, idx, Fraction(1, 2), [0, 0, 0], [1, 1, 1], ML=ML, kind="tiny-maxlength")
    # malformed: index out of range, too short old path, ξ = 0, coins that run out, kick outside
    add(3, 1, [0, 1, 0], False, 0, Fraction(1, 2), [0], [0], kind="malformed")
    add(3, 1, [0, 1, 0], False, 2, Fraction(1, 2), [0], [0], kind="malformed")
    add(3, 1, [0, 1], False, 1, Fraction(1, 2), [0], [0], kind="malformed")
    add(3, 1, [0, 1, 2, 1, 0], False, 2, Fraction(0), [0, 0], [1], kind="malformed")
    add(3, 1, [0, 1, 2, 1, 0], False, 2, Fraction(1, 2), [0], [1], kind="malformed")
    add(3, 1, [0, 1, 2, 1, 0], False, 2, Fraction(1, 2), [0, 0], [], kind="malformed")
    add(3, 1, [0, 1, 3, 1, 0], False, 2, Fraction(1, 2), [0, 0], [1], kind="malformed")
    add(3, 1, [0, 1, 0, 1, 0], False, 2, Fraction(1, 2), [0, 0], [1], kind="malformed")
    return cases


# ----------------------------------------------------------------------------- predicates on the real output
def walk_of(x, coins, top):
    out = [x]
    for c in coins:
        if not 0 < out[-1] < top:
            break
        out.append(out[-1] + (1 if c else -1))
    return out


def judge(ctx, case, line, info):
    """property predicates on the real code's answer"""
    if not line.startswith("ok "):
        return
    if info.get("extremes") is not None and info["extremes"] != (float(min(info["ops"])), float(max(info["ops"])), len(info["ops"])):
        ctx.fail("C01:shoot:reported-extreme-is-not-the-extreme-of-the-frames",
                 f"returned path {info['ops']} reports (min, max, length) = {info['extremes']}", {"ext": "lshoot", "case": case})
    top, mid = case["top"], case["mid"]
    old, idx = case["old"], case["idx"]
    x = old[idx]
    if not 0 < x < top:
        return
    rep = {"ext": "lshoot", "case": case}
    wb = walk_of(x, case["cb"], top)
    wf = walk_of(x, case["cf"], top)
    complete = (not 0 < wb[-1] < top) and (not 0 < wf[-1] < top)
    full = wb[::-1] + wf[1:]
    if info["acc"]:
        ctx.hit("ext-accepted")
        if info["ops"] != full:
            ctx.fail("C01:shoot:accepted-path-is-not-the-drawn-walk", f"accepted {info['ops']} but the coins give {full}", rep)
        if not (info["ops"][0] <= 0 and max(info["ops"]) >= mid):
            ctx.fail("C01:shoot:accepted-path-outside-ensemble", f"accepted {info['ops']} in ensemble mid={mid}", rep)
    if complete and not case["ld"] and len(full) <= case["ML"]:
        xi = Fraction(case["xi"])
        a, b = len(old) - 2, len(full) - 2
        should = wb[-1] <= 0 and max(full) >= mid and xi * b <= a
        ctx.hit("ext-length-rule-" + ("acc" if should else "rej"))
        if bool(info["acc"]) != should:
            ctx.fail("C01:shoot:length-rule-acceptance",
                     f"trial of {b} interior frames from an old path of {a}, ξ={xi}: accepted={info['acc']} ({info['status']}) "
                     f"but ξ ≤ n_old/n_new is {xi * b <= a}, backward end {wb[-1]}, max {max(full)}, mid {mid}", rep)


def run_ext(ctx):
    cases = gen_cases(ctx)
    lines = [model_line(c) for c in cases]
    model = ctx.driver(lines) if ctx._driver_ok else [None] * len(cases)
    kp_cases = []
    try:
        for c, m in zip(cases, model):
            real, info = run_real(c)
            ctx.count(1, branch="ext-lshoot:" + c["kind"])
            ctx.hit("ext-status:" + (info.get("status") or real.split()[0]))
            if m is not None:
                parts = m.split(" || ")
                # scripted coins that run out: an artefact of scripting (a generator never runs out); the generic
                # model treats an exhausted stream as "program ended", so only latShoot is compared there
                ref_ok = len(parts) == 2 and (parts[1] == real or real == "err:baddraw")
                if len(parts) == 2 and c["ML"] <= 1 and real.startswith("ok ") and info.get("status") != "KOB":
                    ref_ok = parts[1] == "err:index"
                if len(parts) != 2 or parts[0] != real or not ref_ok:
                    ctx.disagree({"fn": "latShoot/latShootRef vs tis.shoot", "case": c}, real, m)
            judge(ctx, c, real, info)
            if info.get("acc"):
                ctx.distinct(("lshoot", c["top"], c["mid"], tuple(c["old"]), tuple(info["ops"])))
                if len(kp_cases) < 400:
                    kp_cases.append((c, info["old_ops"], info["ops"]))
    finally:
        cleanup()
    # the kernel between the real pairs: π(o)K(o,n) = π(n)K(n,o), match count recomputed here
    if ctx._driver_ok and kp_cases:
        b = lambda l: f"{len(l)}" + "".join(f" {int(x)}" for x in l)  # noqa: E731
        outs = ctx.driver([f"kpaths {b(o)} {b(n)}" for (_c, o, n) in kp_cases])
        for (c, o, n), out in zip(kp_cases, outs):
            ctx.count(1, branch="ext-kpaths")
            t = out.split()
            cnt = sum(1 for u in o[1:-1] for v in n[1:-1] if u == v)
            a, bb = len(o) - 2, len(n) - 2
            want_on = Fraction(cnt, a) * Fraction(1, 2) ** (bb + 1) * min(Fraction(1), Fraction(a, bb))
            want_no = Fraction(cnt, bb) * Fraction(1, 2) ** (a + 1) * min(Fraction(1), Fraction(bb, a))
            ok = (len(t) == 5 and int(t[0]) == cnt and Fraction(t[1]) == want_on and Fraction(t[2]) == want_no
                  and Fraction(t[3]) == Fraction(1, 2) ** (a + 1) and Fraction(t[4]) == Fraction(1, 2) ** (bb + 1))
            if not ok:
                ctx.disagree({"fn": "kernelPaths", "old": o, "new": n}, f"{cnt} {want_on} {want_no}", out)
            elif Fraction(t[3]) * Fraction(t[1]) != Fraction(t[4]) * Fraction(t[2]):
                ctx.fail("C01:shoot:kernel-not-reversible", f"π(o)K(o,n) ≠ π(n)K(n,o) for o={o}, n={n}", {"ext": "kpaths", "old": o, "new": n})
    if sample := [c for c in cases if c["kind"] == "random"][:2]:
        for c in sample:
            ctx.sample({"ext": "lshoot", "case": c, "model_line": model_line(c)})
    run_marg(ctx)


# ----------------------------------------------------------------------------- the swap matrix as a matrix of marginals
def gen_weight_matrices(ctx):
    """weight matrices of the shape C01's runs produce: slot 0 = the [0-] path (weight only in [0-]); every other path
    has positive integer weights (1 for shooting ensembles, high-acceptance weights for wire fencing) on the ensembles
    [0+] … [m+] it is valid in, 0 beyond"""
    rng = ctx.rng
    out = []
    for n in (2, 3, 4, 5, 6):
        for _ in range(40 if ctx.quick else 300):
            W = [[0] * n for _ in range(n)]
            W[0][0] = 1
            wf = [rng.random() < 0.5 for _ in range(n)]
            # the path in slot r is valid in ensemble r (the current assignment has positive weight) and reaches m ≥ r
            ms = [rng.randint(r, n - 1) for r in range(1, n)]
            for r, m in zip(range(1, n), ms):
                for cidx in range(1, m + 1):
                    W[r][cidx] = rng.choice((1, 2, 3, 5, 8, 13)) if wf[cidx] else 1
            out.append(W)
    return out


def run_marg(ctx):
    """P of the real REPEX_state.inf_retis  ==  matrix of marginals of the distribution ∝ Π_i W[i,σ(i)] over all
    permutations, computed by the Lean model (`margMatrix`, exact rationals) — the hypothesis that links
    `swap_rao_blackwell` / `swap_marginal_row_sum` to the code"""
    import importlib.util  # noqa: F401
    import contextlib
    import io
    import numpy as np
    from infretis.classes.repex import REPEX_state
    st = REPEX_state({"current": {"size": 3}, "runner": {"workers": 1}, "simulation": {"seed": 0}}, minus=True)
    st.rgen = np.random.default_rng(0)
    mats = gen_weight_matrices(ctx)
    lines = ["marg %d %s" % (len(W), " ".join(str(x) for row in W for x in row)) for W in mats]
    model = ctx.driver(lines) if ctx._driver_ok else [None] * len(mats)
    for W, m in zip(mats, model):
        n = len(W)
        ctx.count(1, branch="ext-marg")
        Wa = np.array(W, dtype=float)
        try:
            with contextlib.redirect_stdout(io.StringIO()), np.errstate(all="ignore"):
                P = np.asarray(st.inf_retis(Wa.copy(), np.zeros(n)), dtype=float)
            real = "ok"
        except Exception as e:  # noqa: BLE001
            P, real = None, err_kind(e)
        if m is None:
            continue
        if m == "none":
            ctx.hit("ext-marg-zero-permanent")
            # no assignment has positive weight: the state is unreachable (every live path is valid somewhere); no comparison
            continue
        if P is None:
            ctx.disagree({"fn": "inf_retis vs margMatrix", "W": W}, real, m[:200])
            continue
        Q = [float(Fraction(t)) for t in m.split()]
        if len(Q) != n * n or P.shape != (n, n):
            ctx.disagree({"fn": "inf_retis vs margMatrix", "W": W}, str(P.shape), m[:200])
            continue
        dm = max(abs(P[i][j] - Q[i * n + j]) for i in range(n) for j in range(n))
        ctx.distinct(("marg", tuple(map(tuple, W))))
        if dm > 1e-9:
            # the property predicate itself: P must be the marginal of the permutation distribution
            ctx.fail("C01:swap:P-is-not-the-marginal-of-the-permutation-distribution",
                     f"max |P − marginal| = {dm:.3e} for W = {W}: P = {P.tolist()}", {"ext": "marg", "W": W})


def replay_ext(ctx, rep):
    """re-run one recorded shooting case; 1 = still fails"""
    if rep.get("ext") == "marg":
        import importlib.util  # noqa: F401
        import numpy as np
        from infretis.classes.repex import REPEX_state
        st = REPEX_state({"current": {"size": 3}, "runner": {"workers": 1}, "simulation": {"seed": 0}}, minus=True)
        W = rep["W"]
        n = len(W)
        out = ctx.driver(["marg %d %s" % (n, " ".join(str(x) for row in W for x in row))])[0]
        P = np.asarray(st.inf_retis(np.array(W, dtype=float), np.zeros(n)), dtype=float)
        Q = [float(Fraction(t)) for t in out.split()]
        dm = max(abs(P[i][j] - Q[i * n + j]) for i in range(n) for j in range(n))
        print("P", P.tolist(), "marginal", out, "max diff", dm)
        return 1 if dm > 1e-9 else 0
    if rep.get("ext") != "lshoot":
        return 0
    c = rep["case"]
    try:
        real, info = run_real(c)
    finally:
        cleanup()
    before = len(ctx.failures) if hasattr(ctx, "failures") else None
    bad = []

    class _C:
        def hit(self, *a, **k):
            pass

        def fail(self, sig, what, r):
            bad.append((sig, what))

    judge(_C(), c, real, info)
    print("real:", real)
    for sig, what in bad:
        print("   STILL FAILS:", sig, what)
    return 1 if bad else 0
