"""C02 - swap probabilities equal the exact permanent ratios.

Tie: the real `REPEX_state.inf_retis / find_blocks / quick_prob / permanent_prob /
fast_glynn_perm` (infretis/classes/repex.py) against
  * the Lean model  Infretis.Perm.infRetis / findBlocks / quickProb / permanentProb / glynn
    (driver ops `infretis`, `blocks`, `quick`, `permprob`, `glynn`), and
  * the property predicate itself: every entry of the code's matrix within 1e-9 of
    W_ij * perm(W minus row i, column j) / perm(W) on the idle block (Lean `spec` =
    Infretis.Perm.probMatrix through the driver for idle blocks <= 7, an exact integer
    bitmask-DP permanent oracle in Python for every size, the two cross-checked on every
    case where both are available), exactly zero on busy rows/columns, doubly stochastic,
    zero where the weight is zero, invariant under rescaling one row, and agreement of the
    fast / block-wise / permanent code paths.
All weights are integers, so both worlds get exactly the same numbers.
"""
from __future__ import annotations

import contextlib
import io
import itertools
import json
import warnings
from fractions import Fraction

import numpy as np

from common import CORPUS, err_kind

TOL = 1e-9
WSET = (1, 2, 3, 5, 17, 1000)
WMILD = (1, 2, 3, 5, 17)     # free weights for glynn blocks > GLYNN_WIDE_MAX (see the assumption on conditioning)
GLYNN_WIDE_MAX = 5           # largest non-row-constant block that gets weights with dynamic range 1000
REPORT_ILL_CONDITIONED = True    # report the Glynn-cancellation witness below as a property failure
ILL_CONDITIONED = {"kind": "ill-conditioned", "off": 1,
                   "W": [[1] + [0] * 10] + [[0] + [1] * 9 + [0]] + [[0, 1000] + [1] * 8 + [0] for _ in range(8)] + [[0] * 11],
                   "locks": [0] * 10 + [1]}
SPEC_ALL = 4          # idle blocks up to this size always go through the Lean `spec` op (brute force n!)
PERM_MAX = 8          # up to this size the Lean permC of the idle block and of one minor is compared as well
SPEC_CAP_QUICK = {5: 300, 6: 25, 7: 3, ("perm", 7): 150, ("perm", 8): 12}
SPEC_CAP_THOROUGH = {5: 6000, 6: 600, 7: 60, ("perm", 7): 5000, ("perm", 8): 400}
STATS = {"max_abs_err_vs_spec": 0.0, "max_abs_err_vs_model": 0.0, "max_rescale_diff": 0.0}

W_MATRIX1 = [
    [1, 0, 0, 0, 0, 0, 0, 0],
    [0, 1, 0, 0, 0, 0, 0, 0],
    [0, 1, 1, 0, 0, 0, 0, 0],
    [0, 1, 1, 1, 1, 0, 0, 0],
    [0, 1, 1, 1, 1, 0, 0, 0],
    [0, 1, 1, 1, 1, 1, 0, 0],
    [0, 1, 1, 1, 1, 1, 1, 1],
    [0, 1, 1, 1, 1, 1, 1, 1],
]
W_MATRIX2 = [
    [3519, 3437, 3324, 3263, 3226, 3214],
    [147, 0, 0, 0, 0, 0],
    [147, 147, 0, 0, 0, 0],
    [154, 85, 34, 18, 4, 1],
    [109, 92, 70, 45, 26, 11],
    [139, 112, 69, 29, 9, 1],
]


# --------------------------------------------------------------------------- the real object
def _state():
    import importlib.util  # noqa: F401
    from infretis.classes.repex import REPEX_state
    st = REPEX_state({"current": {"size": 3}, "runner": {"workers": 1}, "simulation": {"seed": 0}}, minus=True)
    return st


def _tap(st):
    """record which sub-routines inf_retis calls (the originals of the class still do the work)"""
    log = []
    cls = type(st)

    def mk(name):
        orig = getattr(cls, name)

        def f(*a, **k):
            r = orig(st, *a, **k)
            log.append((name, r if name == "find_blocks" else len(a[0])))
            return r
        return f
    for name in ("find_blocks", "quick_prob", "permanent_prob", "random_prob"):
        setattr(st, name, mk(name))
    return log


def code_branches(log, failed):
    """branch list observed on the code (same vocabulary as Infretis.Perm.branches); None = not observable"""
    names = [x[0] for x in log]
    if "find_blocks" not in names:
        if "quick_prob" in names:
            return ["equal"]
        return None
    k = names.index("find_blocks")
    blocks = log[k][1]
    if isinstance(blocks, tuple):
        return ["single-tuple"]
    rest = log[k + 1:]
    out = []
    pos = 0
    for (start, stop, _d) in blocks:
        if int(stop) - int(start) == 1:
            out.append("single")
            continue
        if pos >= len(rest):
            if failed:
                return out + ["?"]
            return out + ["missing-call"]
        nm = rest[pos][0]
        pos += 1
        out.append({"quick_prob": "quick", "permanent_prob": "glynn", "random_prob": "random"}.get(nm, nm))
    return out


class Code:
    def __init__(self):
        self.st = _state()
        self.log = _tap(self.st)

    def inf(self, off, W, locks):
        """-> (kind, P or None, branches, mc_dims)"""
        st = self.st
        st.n = len(W)
        st._offset = off
        del self.log[:]
        rc0 = st._random_count
        buf = io.StringIO()
        P = None
        try:
            with contextlib.redirect_stdout(buf):
                P = st.inf_retis(np.array(W, dtype=float), np.array(locks, dtype=float))
            kind = "ok"
        except Exception as e:  # noqa: BLE001
            kind = err_kind(e)
        nrand = st._random_count - rc0
        dims = []
        for ln in buf.getvalue().splitlines():
            if ln.startswith("random #") and "dims = " in ln:
                dims.append(int(ln.split("dims = ")[1]))
        br = code_branches(self.log, kind != "ok")
        if nrand and kind == "ok":
            kind = "mc"
        return kind, P, br, (nrand, dims)


# --------------------------------------------------------------------------- tokens
def tok_mat(M):
    parts = [str(len(M))]
    for r in M:
        parts.append(str(len(r)))
        parts.extend(str(x) for x in r)
    return " ".join(parts)


def tok_list(xs):
    return " ".join([str(len(xs))] + [str(x) for x in xs])


_fcache = {}


def tokf(t):
    v = _fcache.get(t)
    if v is None:
        if "/" in t:
            a, b = t.split("/")
            v = int(a) / int(b)
        else:
            v = float(int(t))
        if len(_fcache) < 500000:
            _fcache[t] = v
    return v


def parse_mat_f(toks, pos=0):
    """matrix token stream -> list of float rows, new position"""
    R = int(toks[pos])
    pos += 1
    M = []
    for _ in range(R):
        k = int(toks[pos])
        M.append([tokf(t) for t in toks[pos + 1: pos + 1 + k]])
        pos += 1 + k
    return M, pos


def show_frac(q):
    return str(q.numerator) if q.denominator == 1 else f"{q.numerator}/{q.denominator}"


# --------------------------------------------------------------------------- Python oracle
def minors_perm(M):
    """exact: (perm(M), [[perm(minor_ij)]]) for a square integer matrix, by prefix/suffix subset DP"""
    m = len(M)
    full = (1 << m) - 1
    f = [dict() for _ in range(m + 1)]
    g = [dict() for _ in range(m + 1)]
    f[0][0] = 1
    for k in range(m):
        row = M[k]
        nz = [(1 << j, row[j]) for j in range(m) if row[j] != 0]
        fk1 = f[k + 1]
        for S, v in f[k].items():
            for b, w in nz:
                if not S & b:
                    fk1[S | b] = fk1.get(S | b, 0) + v * w
    g[m][0] = 1
    for k in range(m - 1, -1, -1):
        row = M[k]
        nz = [(1 << j, row[j]) for j in range(m) if row[j] != 0]
        gk = g[k]
        for S, v in g[k + 1].items():
            for b, w in nz:
                if not S & b:
                    gk[S | b] = gk.get(S | b, 0) + v * w
    perm = f[m].get(full, 0)
    mn = [[0] * m for _ in range(m)]
    for i in range(m):
        gi = g[i + 1]
        for S, v in f[i].items():
            rest = full ^ S
            for j in range(m):
                b = 1 << j
                if rest & b:
                    w = gi.get(rest ^ b)
                    if w:
                        mn[i][j] += v * w
    return perm, mn


def oracle(W, locks):
    """pSpec on the idle block, zeros on busy rows/columns, as Fractions; None if perm(idle)=0"""
    n = len(W)
    idle = [i for i in range(n) if not locks[i]]
    M = [[W[i][j] for j in idle] for i in idle]
    perm, mn = minors_perm(M)
    if perm == 0:
        return None
    P = [[Fraction(0)] * n for _ in range(n)]
    for a, i in enumerate(idle):
        for b, j in enumerate(idle):
            if M[a][b]:
                P[i][j] = Fraction(M[a][b] * mn[a][b], perm)
    return P


def spec_line(P):
    """the Lean `spec` answer for the oracle matrix (for exact comparison of the two specs)"""
    if P is None:
        return "perm0"
    parts = ["ok", str(len(P))]
    for r in P:
        parts.append(str(len(r)))
        parts.extend(show_frac(q) for q in r)
    return " ".join(parts)


# --------------------------------------------------------------------------- generators
def staircases(m):
    """all non-decreasing `last` vectors (1..m) with last[k] >= k+1 (Hall), Catalan(m) many"""
    out = []

    def rec(k, lo, cur):
        if k == m:
            out.append(tuple(cur))
            return
        for v in range(max(lo, k + 1), m + 1):
            rec(k + 1, v, cur + [v])
    rec(0, 1, [])
    return out


def valid_seq(seq):
    return all(v >= s + 1 for s, v in enumerate(seq))


def random_valid(rng, lasts):
    """random slot order with last(row in plus slot s) >= s"""
    pool = list(lasts)
    m = len(pool)
    seq = [0] * m
    for s in range(m, 0, -1):
        cand = [i for i, v in enumerate(pool) if v >= s]
        i = rng.choice(cand)
        seq[s - 1] = pool.pop(i)
    return tuple(seq)


def arrangements(rng, lasts, exhaustive, nrand):
    m = len(lasts)
    if exhaustive:
        return sorted({p for p in itertools.permutations(lasts) if valid_seq(p)})
    out = [tuple(lasts)]
    rev = tuple(reversed(lasts))
    if valid_seq(rev) and rev not in out:
        out.append(rev)
    for _ in range(nrand):
        p = random_valid(rng, lasts)
        if p not in out:
            out.append(p)
    assert all(valid_seq(p) and len(p) == m for p in out)
    return out


def build(off, seq, wfun, wminus=1, ghost=True):
    """state matrix: row s = path in slot s; plus slot k (0-based among plus slots) holds a row that is
    positive on the first seq[k] plus ensembles. wfun(k, c) = weight of plus row k in plus column c."""
    m = len(seq)
    n = off + m + (1 if ghost else 0)
    W = []
    if off:
        W.append([wminus] + [0] * (n - 1))
    for k, last in enumerate(seq):
        W.append([0] * off + [wfun(k, c) if c < last else 0 for c in range(m)] + ([0] if ghost else []))
    if ghost:
        W.append([0] * n)
    return W


def lock_subsets(nslots, ghost):
    """every lock vector over the non-ghost slots except `all locked`; the ghost is always locked"""
    for bits in range((1 << nslots) - 1):
        yield [(bits >> s) & 1 for s in range(nslots)] + ([1] if ghost else [])


def random_locks(rng, nslots, ghost, p):
    while True:
        l = [1 if rng.random() < p else 0 for _ in range(nslots)]
        if not all(l):
            return l + ([1] if ghost else [])


def weight_fun(rng, mode, m, wset=WSET):
    if mode == "01":
        return lambda k, c: 1
    if mode == "rowconst":
        rw = [rng.choice(wset) for _ in range(m)]
        return lambda k, c: rw[k]
    tbl = [[rng.choice(wset) for _ in range(m)] for _ in range(m)]
    return lambda k, c: tbl[k][c]


def case_key(c):
    return (c["off"], tuple(c["locks"]), tuple(tuple(r) for r in c["W"]))


def well_scaled(M):
    """every positive entry is at least 1/17 of its row maximum (whole-matrix permanent_prob is then far from
    the cancellation regime of Glynn's formula)"""
    for r in M:
        mx = max(r)
        if any(0 < x * 17 < mx for x in r):
            return False
    return True


# --------------------------------------------------------------------------- property predicate
def predicate(code, case, res=None, want=None, full=True):
    """the property on the implementation's own output for one in-family case.
    -> list of (signature, what).  `want` = oracle matrix (Fractions), computed if None."""
    off, W, locks = case["off"], case["W"], case["locks"]
    n = len(W)
    if res is None:
        res = code.inf(off, W, locks)
    kind, P = res[0], res[1]
    fails = []
    if want is None:
        want = oracle(W, locks)
    if want is None:
        return fails           # not in the family (perm of the idle block is 0): no claim
    if kind == "mc":
        # Monte-Carlo branch: outside exactness - but only blocks larger than 12 may go there
        dims = res[3][1]
        if any(d <= 12 for d in dims) or not dims:
            return [("C02:monte-carlo-on-small-block", f"random_prob used for blocks of size {dims} (exact code path expected up to 12)")]
        return fails
    if kind != "ok":
        return [("C02:exception-in-family", f"inf_retis raised {kind} on a reachable weight matrix")]
    if P.shape != (n, n):
        return [("C02:shape", f"result has shape {P.shape}, expected {(n, n)}")]
    Pf = np.asarray(P, dtype=float)
    Wf = np.array([[float(x) for x in r] for r in want])
    if not np.all(np.isfinite(Pf)):
        return [("C02:non-finite", "result contains nan/inf")]
    d = np.abs(Pf - Wf)
    STATS["max_abs_err_vs_spec"] = max(STATS["max_abs_err_vs_spec"], float(d.max()))
    busy = np.array(locks) == 1
    if busy.any() and (np.any(Pf[busy, :] != 0) or np.any(Pf[:, busy] != 0)):
        fails.append(("C02:busy-not-zero", "non-zero probability on a busy row or column"))
    idle = ~busy
    blk = Pf[idle][:, idle]
    if np.max(np.abs(blk.sum(axis=1) - 1)) > TOL or np.max(np.abs(blk.sum(axis=0) - 1)) > TOL:
        fails.append(("C02:not-doubly-stochastic", "row or column sum of the idle block differs from 1"))
    Wa = np.array(W, dtype=float)
    if np.any(np.abs(Pf[Wa == 0]) > 1e-12):
        fails.append(("C02:nonzero-where-weight-zero", "positive probability where the weight is zero"))
    if d.max() > TOL:
        i, j = np.unravel_index(np.argmax(d), d.shape)
        fails.append(("C02:prob-ne-permanent-ratio",
                      f"P[{i}][{j}]={Pf[i, j]!r} but W_ij*perm(minor)/perm(W)={want[i][j]} (|diff|={d.max():.3e})"))
    if full:
        # invariance under rescaling one path's weights (second call of the real code)
        rs = case.get("rescale")
        if rs:
            r, fac = rs
            W2 = [list(row) for row in W]
            W2[r] = [x * fac for x in W2[r]]
            k2, P2 = code.inf(off, W2, locks)[:2]
            if k2 == "ok":
                d2 = np.abs(np.asarray(P2, dtype=float) - Pf).max()
                STATS["max_rescale_diff"] = max(STATS["max_rescale_diff"], float(d2))
                if d2 > TOL:
                    fails.append(("C02:not-rescale-invariant",
                                  f"row {r} multiplied by {fac} changes the matrix by {d2:.3e}"))
            elif k2 != "mc":
                fails.append(("C02:not-rescale-invariant", f"row {r} multiplied by {fac}: {k2} instead of a matrix"))
        # whole idle block through permanent_prob must agree with inf_retis (block-wise / fast paths)
        if case.get("cross"):
            M = Wa[idle][:, idle]
            if len(M) >= 2 and well_scaled(M):
                try:
                    Q = np.asarray(code.st.permanent_prob(M.copy()), dtype=float)
                    if not np.all(np.isfinite(Q)) or np.abs(Q - blk).max() > TOL:
                        fails.append(("C02:paths-disagree:permanent-vs-infretis",
                                      "permanent_prob(idle block) differs from inf_retis"))
                except Exception as e:  # noqa: BLE001
                    fails.append(("C02:paths-disagree:permanent-vs-infretis", f"permanent_prob raised {err_kind(e)}"))
    return fails


# --------------------------------------------------------------------------- family evaluation
def evaluate_family(ctx, code, cases, label):
    """code + model + spec + predicate for a batch of in-family cases"""
    rng = ctx.rng
    results = []
    for c in cases:
        results.append(code.inf(c["off"], c["W"], c["locks"]))
    have = ctx._driver_ok
    nidle = [len(c["locks"]) - sum(c["locks"]) for c in cases]
    wants = [oracle(c["W"], c["locks"]) for c in cases]
    if have:
        lines = [f"infretis {c['off']} {tok_list(c['locks'])} {tok_mat(c['W'])}" for c in cases]
        # Lean specification probMatrix (brute-force n! permanents): every case with an idle block <= SPEC_ALL,
        # a capped number of the larger ones; for idle blocks up to PERM_MAX additionally the Lean permanent of
        # the idle block and of one minor (the two ingredients of the Python oracle)
        budget = dict(SPEC_CAP_QUICK if ctx.quick else SPEC_CAP_THOROUGH)
        spec_idx, perm_req = [], []
        for k, c in enumerate(cases):
            sz = nidle[k]
            if sz <= SPEC_ALL:
                spec_idx.append(k)
            elif budget.get(sz, 0) > 0 and (k * 7919) % 5 == 0:
                budget[sz] -= 1
                spec_idx.append(k)
            if SPEC_ALL < sz <= PERM_MAX and (sz <= 6 or budget.get(("perm", sz), 0) > 0):
                if sz > 6:
                    budget[("perm", sz)] -= 1
                idle = [i for i in range(len(c["W"])) if not c["locks"][i]]
                M = [[c["W"][i][j] for j in idle] for i in idle]
                a_, b_ = rng.randrange(sz), rng.randrange(sz)
                mnr = [[M[x][y] for y in range(sz) if y != b_] for x in range(sz) if x != a_]
                perm_req.append((M, mnr, a_, b_))
        lines += [f"spec {tok_list(cases[k]['locks'])} {tok_mat(cases[k]['W'])}" for k in spec_idx]
        for (M, mnr, a_, b_) in perm_req:
            lines.append(f"perm {tok_mat(M)}")
            lines.append(f"perm {tok_mat(mnr)}")
        out = ctx.driver(lines)
        mod = out[: len(cases)]
        spec = dict(zip(spec_idx, out[len(cases): len(cases) + len(spec_idx)]))
        pout = out[len(cases) + len(spec_idx):]
        for q_, (M, mnr, a_, b_) in enumerate(perm_req):
            pm, mn = minors_perm(M)
            ctx.hit("spec=lean-permC-vs-python-perm", 2)
            if pout[2 * q_] != str(pm) or pout[2 * q_ + 1] != str(mn[a_][b_]):
                ctx.disagree({"fn": "permC(lean) vs python permanent", "M": M, "minor": [a_, b_]},
                             [str(pm), str(mn[a_][b_])], pout[2 * q_: 2 * q_ + 2])
    for k, c in enumerate(cases):
        kind, P, cbr, (nrand, dims) = results[k]
        want = wants[k]
        rep = {"kind": c.get("kind", label), "off": c["off"], "W": c["W"], "locks": c["locks"]}
        if "rescale" in c:
            rep["rescale"] = list(c["rescale"])
        if c.get("cross"):
            rep["cross"] = True
        branch = "?"
        if have:
            body, _, brs = mod[k].partition(" | ")
            mbr = brs.split()[1:]
            branch = "+".join(sorted(set(mbr))) if mbr else "none"
            # --- both specifications agree (Lean probMatrix vs Python oracle), exactly
            if k in spec:
                ctx.hit("spec=lean+python")
                if spec[k] != spec_line(want):
                    ctx.disagree({"fn": "spec(lean probMatrix) vs python oracle", **rep}, spec_line(want)[:300], spec[k][:300])
            else:
                ctx.hit("spec=python-only")
            # --- model vs code
            mt = body.split()
            mkind = mt[0] if mt[0] in ("ok", "mc") else body.strip()
            if mkind != kind:
                ctx.disagree({"fn": "inf_retis kind", **rep}, kind, body[:200])
            elif kind == "ok":
                Mm, _ = parse_mat_f(mt, 1)
                dm = np.abs(np.asarray(P, dtype=float) - np.array(Mm)).max() if np.shape(P) == np.shape(Mm) else 1.0
                STATS["max_abs_err_vs_model"] = max(STATS["max_abs_err_vs_model"], float(dm))
                if not dm <= TOL:
                    ctx.disagree({"fn": "inf_retis value", **rep}, f"max|code-model|={dm:.3e}", body[:200])
            elif kind == "mc":
                msz = [int(x) for x in mt[2:]]
                if sorted(msz) != sorted(dims) or nrand != len(msz):
                    ctx.disagree({"fn": "inf_retis monte-carlo decision", **rep}, f"random_count+={nrand} dims={dims}", body)
            if cbr is not None and kind in ("ok", "mc") and cbr != mbr:
                ctx.disagree({"fn": "inf_retis branches", **rep}, cbr, mbr)
        else:
            branch = "+".join(sorted(set(cbr))) if cbr else "none"
        ctx.count(1, branch=branch)
        ctx.distinct(case_key(c))
        for sig, what in predicate(code, c, results[k], want):
            ctx.fail(sig, what, rep)
        if k % 4999 == 7:
            ctx.sample({"fn": "inf_retis", **rep, "branches": branch, "code": kind,
                        "P": None if P is None else [[round(float(x), 12) for x in r] for r in P]})
    return results


# --------------------------------------------------------------------------- run
def gen_exhaustive(ctx, rng):
    """(a) 0/1 staircases x lock subsets x slot orders"""
    cases = []
    max_full = 5 if ctx.quick else 6
    for off in (1, 0):
        for m in range(1, 7):
            full = m <= max_full and (off == 1 or m <= 4)
            for lasts in staircases(m):
                arrs = arrangements(rng, lasts, exhaustive=(m <= 4), nrand=2)
                for seq in arrs:
                    W = build(off, seq, lambda k, c: 1)
                    nslots = off + m
                    if full:
                        lks = list(lock_subsets(nslots, True))
                    else:
                        lks = [[0] * nslots + [1]] + [random_locks(rng, nslots, True, p)
                                                      for p in (0.15, 0.3, 0.5) for _ in range(2 if ctx.quick else 6)]
                    for lk in lks:
                        c = {"kind": "staircase01", "off": off, "W": W, "locks": lk}
                        idle = [s for s in range(len(lk)) if not lk[s]]
                        c["rescale"] = (rng.choice(idle), rng.choice((2, 3, 1000)))
                        cases.append(c)
    for k in range(0, len(cases), 53 if ctx.quick else 17):
        cases[k]["cross"] = True
    return cases, max_full


def gen_weighted(ctx, rng):
    """(b) row-constant and free positive weights, up to 12 plus ensembles; a few Monte-Carlo decisions"""
    cases = []
    plan = []   # (m, mode, count)
    q = ctx.quick
    for m in range(1, 7):
        plan += [(m, "rowconst", 120 if q else 1500), (m, "free", 120 if q else 1500)]
    for m in (7, 8):
        plan += [(m, "rowconst", 40 if q else 400), (m, "free", 30 if q else 300)]
    for m in (9, 10):
        plan += [(m, "rowconst", 20 if q else 200), (m, "free", 4 if q else 40)]
    for m in (11, 12):
        plan += [(m, "rowconst", 20 if q else 200), (m, "free", 1 if q else 12)]
    for (m, mode, cnt) in plan:
        for it in range(cnt):
            off = 0 if rng.random() < 0.15 else 1
            lasts = sorted(rng.randint(1, m) for _ in range(m))
            if it % 3 == 0:
                lasts = [m] * m          # one big block
            elif it % 3 == 1:
                lasts = sorted(rng.choice((max(1, m // 2), m)) for _ in range(m))
            lasts = [max(v, k + 1) for k, v in enumerate(lasts)]
            seq = random_valid(rng, lasts) if it % 4 else tuple(lasts)
            wf = weight_fun(rng, mode, m, WSET if (m <= GLYNN_WIDE_MAX or mode == "rowconst") else WMILD)
            W = build(off, seq, wf, wminus=rng.choice(WSET))
            nslots = off + m
            if m >= 9 and mode == "free" and it < 2:
                lk = [0] * nslots + [1]
            else:
                lk = random_locks(rng, nslots, True, rng.choice((0.0, 0.1, 0.3)))
            c = {"kind": "weighted-" + mode, "off": off, "W": W, "locks": lk}
            idle = [s for s in range(len(lk)) if not lk[s]]
            if m <= 8:
                c["rescale"] = (rng.choice(idle), rng.choice((2, 3, 7, 1000)))
            if m <= 6 and it % 5 == 0:
                c["cross"] = True
            cases.append(c)
    # mixed: some rows constant, some free; wire-fencing-like rows (1 on some columns, n on others)
    for it in range(150 if q else 3000):
        m = rng.randint(2, 7)
        off = 0 if rng.random() < 0.15 else 1
        lasts = [max(v, k + 1) for k, v in enumerate(sorted(rng.randint(1, m) for _ in range(m)))]
        seq = random_valid(rng, lasts)
        colw = [rng.choice((1, 1, 7, 40) if m <= 4 else (1, 1, 2, 3)) for _ in range(m)]
        free = [rng.random() < 0.4 for _ in range(m)]
        tbl = [[(rng.choice(WSET if m <= 4 else WMILD) if free[k] else 1) * (colw[c] if rng.random() < 0.5 else 1)
                for c in range(m)]
               for k in range(m)]
        W = build(off, seq, lambda k, c: tbl[k][c], wminus=rng.choice(WSET))
        lk = random_locks(rng, off + m, True, rng.choice((0.0, 0.2, 0.4)))
        c = {"kind": "weighted-mixed", "off": off, "W": W, "locks": lk}
        idle = [s for s in range(len(lk)) if not lk[s]]
        c["rescale"] = (rng.choice(idle), rng.choice((2, 5, 1000)))
        if it % 7 == 0:
            c["cross"] = True
        cases.append(c)
    # block structured: several closed blocks, each all-0/1, row-constant (-> quick inside find_blocks) or free
    # (-> glynn); the weights a path has in ensembles below its own block are arbitrary (they are in no matching)
    for it in range(500 if q else 8000):
        m = rng.randint(2, 10)
        sizes = []
        while sum(sizes) < m:
            sizes.append(min(rng.choice((1, 2, 2, 3, 3, 4, 5, 6)), m - sum(sizes)))
        off = 0 if rng.random() < 0.15 else 1
        lasts, rows = [], []
        s0 = 0
        anyfree = False
        for b in sizes:
            rel = [max(v, k + 1) for k, v in enumerate(sorted(rng.randint(1, b) for _ in range(b)))]
            typ = rng.choice(("01", "rowconst", "rowconst", "free"))
            anyfree = anyfree or typ == "free"
            for k in range(b):
                rw = 1 if typ == "01" else rng.choice(WSET)
                below = rng.random() < 0.5
                row = []
                for c in range(m):
                    if c >= s0 + rel[k]:
                        row.append(0)
                    elif c < s0:
                        row.append(rng.choice(WSET) if below else rw)
                    else:
                        row.append(rng.choice(WSET if b <= GLYNN_WIDE_MAX else WMILD) if typ == "free" else rw)
                lasts.append(s0 + rel[k])
                rows.append(row)
            s0 += b
        # slot s (1-based) needs last >= s: draw a valid order of the rows
        pool = list(range(m))
        seqi = [0] * m
        for sl in range(m, 0, -1):
            cand = [i for i in pool if lasts[i] >= sl]
            i = rng.choice(cand)
            pool.remove(i)
            seqi[sl - 1] = i
        n = off + m + 1
        W = ([[rng.choice(WSET)] + [0] * (n - 1)] if off else []) + [[0] * off + rows[i] + [0] for i in seqi] + [[0] * n]
        lk = random_locks(rng, off + m, True, rng.choice((0.0, 0.0, 0.15, 0.3)))
        c = {"kind": "weighted-blocks", "off": off, "W": W, "locks": lk}
        idle = [s_ for s_ in range(len(lk)) if not lk[s_]]
        c["rescale"] = (rng.choice(idle), rng.choice((2, 5, 1000)))
        if it % 9 == 0 and len(idle) <= 7:
            c["cross"] = True
        cases.append(c)
    # Monte-Carlo decision: non-row-constant blocks of 13-14
    mc = []
    for it in range(3 if q else 8):
        m = 13 + (it % 2)
        lasts = [m] * m
        if it % 3 == 2:
            m = 15                              # blocks: [0-] single, a 2-block, a 13-block
            lasts = [2, 2] + [m] * (m - 2)
        tbl = [[rng.choice((1, 2, 3)) for _ in range(m)] for _ in range(m)]
        seq = random_valid(rng, lasts)
        W = build(1, seq, lambda k, c: tbl[k][c])
        mc.append({"kind": "monte-carlo-decision", "off": 1, "W": W, "locks": [0] * (m + 1) + [1]})
    # row-constant 13-16: must NOT go to Monte-Carlo (quick branch)
    for it in range(3 if q else 10):
        m = 13 + it % 4
        rw = [rng.choice(WSET) for _ in range(m)]
        lasts = [max(v, k + 1) for k, v in enumerate(sorted(rng.choice((m // 2, m)) for _ in range(m)))]
        if it == 0:
            lasts = [m] * m
        W = build(1, random_valid(rng, lasts), lambda k, c: rw[k])
        cases.append({"kind": "weighted-rowconst-large", "off": 1, "W": W, "locks": [0] * (m + 1) + [1]})
    # a row-constant block of 13..14 next to a small free block: not `equal`, the big block must take the quick
    # branch (the row-constant test precedes the size test), never Monte-Carlo
    for it in range(2 if q else 8):
        big = 13 + it % 2
        m = 2 + big
        rw = [rng.choice(WSET) for _ in range(m)]
        rel = [max(v, k + 1) for k, v in enumerate(sorted(rng.choice((big // 2, big)) for _ in range(big)))]
        rows = [[rng.choice(WMILD), rng.choice(WMILD)] + [0] * big for _ in range(2)]
        rows += [[rng.choice(WSET), rng.choice(WSET)] + [rw[k] if c < rel[k] else 0 for c in range(big)] for k in range(big)]
        order = list(range(2, m))
        rng.shuffle(order)
        order.sort(key=lambda i: rel[i - 2])          # ascending `last`, random among equals: valid slot order
        W = [[1] + [0] * (m + 1)] + [[0] + rows[i] + [0] for i in [0, 1] + order] + [[0] * (m + 2)]
        cases.append({"kind": "weighted-rowconst-large-block", "off": 1, "W": W, "locks": [0] * (m + 1) + [1]})
    return cases, mc


def sub_functions(ctx, code, rng):
    """(c) quick_prob, find_blocks, permanent_prob, fast_glynn_perm directly against the model"""
    st = code.st
    cls = type(st)
    have = ctx._driver_ok
    q = ctx.quick
    lines, checks = [], []

    def arr(M):
        return np.array(M, dtype=float)

    # ---- quick_prob: sorted staircase blocks as inf_retis passes them (square, and rectangular with zero padding)
    for it in range(400 if q else 4000):
        m = rng.randint(1, 7)
        lasts = [max(v, k + 1) for k, v in enumerate(sorted(rng.randint(1, m) for _ in range(m)))]
        rw = [rng.choice(WSET) for _ in range(m)]      # ascending `last`: the order inf_retis sorts into
        padl, padr = rng.choice((0, 0, 1, 2)), rng.choice((0, 0, 1, 3))
        M = [[0] * padl + [rw[k] if c < lasts[k] else 0 for c in range(m)] + [0] * padr for k in range(m)]
        checks.append(("quick-block" if padl == padr == 0 else "quick", M))
    for it in range(200 if q else 1500):       # <= 2 rows: every intermediate is dyadic, any zero pattern
        r, ccols = rng.randint(1, 2), rng.randint(1, 5)
        M = [[rng.choice((0, 1, 3)) for _ in range(ccols)] for _ in range(r)]
        checks.append(("quick", M))
    # ---- find_blocks: integer logic only, arbitrary matrices
    for it in range(600 if q else 6000):
        m = rng.randint(1, 7)
        off = rng.randint(0, min(2, m))
        if it % 2:
            M = [[rng.choice((0, 1, 5)) for _ in range(m)] for _ in range(m)]
        else:
            lasts = sorted((rng.randint(1, m) for _ in range(m)), reverse=True)
            M = [[rng.choice((1, 5)) if c < lasts[k] else 0 for c in range(m)] for k in range(m)]
        checks.append(("blocks", (off, M)))
    # ---- permanent_prob / fast_glynn_perm
    checks.append(("permprob", W_MATRIX1))
    checks.append(("permprob", W_MATRIX2))
    checks.append(("glynn", W_MATRIX1))
    checks.append(("glynn", W_MATRIX2))
    for it in range(300 if q else 3000):
        m = rng.randint(1, 6)
        if it % 2:
            # dyadic entries: every float operation is exact, so singular matrices are compared too
            M = [[rng.choice((0, 0, 1, 2, 4, 8)) for _ in range(m)] for _ in range(m)]
            exact = True
        else:
            M = [[rng.choice((0,) + (WSET if m <= GLYNN_WIDE_MAX else WMILD)) for _ in range(m)] for _ in range(m)]
            for i in range(m):
                if M[i][i] == 0:
                    M[i][i] = rng.choice(WMILD)
            exact = False
        if m >= 2:      # never called with 1x1 by inf_retis (1x1 zero: code TypeError, model nan - reported)
            checks.append(("permprob", M))
        if exact or max(max(r) for r in M) <= 17:
            checks.append(("glynn", M))
    checks.append(("glynn", []))
    for kind, payload in checks:
        if kind == "blocks":
            lines.append(f"blocks {payload[0]} {tok_mat(payload[1])}")
        else:
            lines.append(f"{kind.split('-')[0]} {tok_mat(payload)}")
    out = ctx.driver(lines) if have else [None] * len(lines)
    for (kind, payload), mo in zip(checks, out):
        isblock = kind == "quick-block"
        kind = kind.split("-")[0]
        ctx.count(1, branch="sub:" + kind)
        rep = {"kind": "sub:" + kind, "arg": payload}
        try:
            if kind == "quick":
                r = np.asarray(cls.quick_prob(st, arr(payload)), dtype=float)
                cv = ("ok", r)
            elif kind == "blocks":
                off, M = payload
                r = cls.find_blocks(st, arr(M), off)
                cv = "tuple" if isinstance(r, tuple) else tok_list([f"{int(a)},{int(b)},{int(d)}" for a, b, d in r])
            elif kind == "permprob":
                r = np.asarray(cls.permanent_prob(st, arr(payload)), dtype=float)
                cv = ("nan", None) if not np.all(np.isfinite(r)) else ("ok", r)
            else:
                M = np.array(payload, dtype=float) if payload else np.zeros((0, 0))
                cv = ("val", float(cls.fast_glynn_perm(st, M)))
        except Exception as e:  # noqa: BLE001
            cv = (err_kind(e), None)
        if have:
            if kind == "blocks":
                if cv != mo:
                    ctx.disagree({"fn": "find_blocks", **rep}, cv, mo)
            elif kind == "glynn":
                if cv[0] == "val":
                    try:
                        mv = tokf(mo)
                        if abs(mv - cv[1]) > TOL * max(1.0, abs(mv)):
                            ctx.disagree({"fn": "fast_glynn_perm", **rep}, cv[1], mo)
                    except ValueError:
                        ctx.disagree({"fn": "fast_glynn_perm", **rep}, cv[1], mo)
                elif cv[0] != mo:
                    ctx.disagree({"fn": "fast_glynn_perm", **rep}, cv[0], mo)
            else:
                mt = mo.split()
                if mt[0] == "ok" and cv[0] == "ok":
                    Mm, _ = parse_mat_f(mt, 1)
                    if np.shape(Mm) != cv[1].shape or (cv[1].size and np.abs(np.array(Mm) - cv[1]).max() > TOL):
                        ctx.disagree({"fn": kind, **rep}, cv[1].tolist(), mo[:200])
                elif mt[0] != cv[0]:
                    ctx.disagree({"fn": kind, **rep}, cv[0], mo[:200])
        # property predicates on the code paths themselves (independent of the model)
        if kind == "glynn" and payload and cv[0] == "val":
            perm, _ = minors_perm(payload)
            if abs(cv[1] - perm) > TOL * max(1.0, abs(perm)):
                ctx.fail("C02:glynn-ne-permanent", f"fast_glynn_perm={cv[1]!r}, permanent={perm}", rep)
        if kind == "permprob" and len(payload) >= 2:
            want = oracle(payload, [0] * len(payload))
            if want is not None:
                if cv[0] != "ok":
                    ctx.fail("C02:permanent-prob-ne-ratio", f"permanent_prob gives {cv[0]} on a matrix with perm>0", rep)
                else:
                    Wf = np.array([[float(x) for x in r] for r in want])
                    if np.abs(Wf - cv[1]).max() > TOL:
                        ctx.fail("C02:permanent-prob-ne-ratio", "permanent_prob differs from W_ij*perm(minor)/perm(W)", rep)
        if kind == "quick" and cv[0] == "ok":
            M = payload
            if isblock and len(M) >= 2:
                # square sorted row-constant block: quick == permanent ratio == permanent_prob
                want = oracle(M, [0] * len(M))
                if want is not None:
                    Wf = np.array([[float(x) for x in r] for r in want])
                    if np.abs(Wf - cv[1]).max() > TOL:
                        ctx.fail("C02:quick-prob-ne-ratio", "quick_prob differs from the permanent ratios on a row-constant block", rep)
                    try:
                        pp = np.asarray(cls.permanent_prob(st, arr(M)), dtype=float)
                        bad = (not np.all(np.isfinite(pp))) or np.abs(pp - cv[1]).max() > TOL
                    except Exception:  # noqa: BLE001
                        bad = True
                    if bad:
                        ctx.fail("C02:paths-disagree:quick-vs-permanent", "quick_prob and permanent_prob differ on a row-constant block", rep)


def tie_sensitive(off, W, locks):
    """two idle rows of the same part (minus / plus) have the same argsort key but differ: the code's result
    may then depend on numpy's (unspecified, here unstable) tie order, the model sorts stably"""
    idle = [i for i in range(len(W)) if not locks[i]]
    offset = off - sum(locks[:off])
    seen = {}
    for a, i in enumerate(idle):
        row = tuple(W[i][j] for j in idle)
        pos = [x > 0 for x in row]
        if a < offset:
            key = ("m", pos.index(True) if True in pos else 0)
        else:
            rp = pos[::-1]
            key = ("p", rp.index(True) if True in rp else 0)
        if seen.setdefault(key, row) != row:
            return True
    return False


def malformed(ctx, code, rng):
    """(d) out-of-family matrices: only ok / error kind compared with the model (no property claim)"""
    cases = []
    q = ctx.quick
    for n in (1, 2, 3, 5):
        for off in (0, 1):
            cases.append({"off": off, "W": [[1] * n for _ in range(n)], "locks": [1] * n})      # everything locked
    # every 2x2 matrix over {0,1,2} x locks x off; every (thorough) / sampled (quick) 3x3 0/1 matrix
    for ent in itertools.product((0, 1, 2), repeat=4):
        for lk in ((0, 0), (0, 1), (1, 0)):
            for off in (0, 1, 2):
                cases.append({"off": off, "W": [list(ent[:2]), list(ent[2:])], "locks": list(lk)})
    all3 = list(itertools.product((0, 1), repeat=9))
    pick3 = rng.sample(all3, 120) if q else all3
    for ent in pick3:
        for lk in ((0, 0, 0), (0, 0, 1), (1, 0, 0), (0, 1, 0)):
            for off in (0, 1):
                cases.append({"off": off, "W": [list(ent[0:3]), list(ent[3:6]), list(ent[6:9])], "locks": list(lk)})
    for it in range(500 if q else 6000):
        m = rng.randint(2, 4)
        off = rng.choice((0, 1, 1, 1))
        lasts = [max(v, k + 1) for k, v in enumerate(sorted(rng.randint(1, m) for _ in range(m)))]
        seq = random_valid(rng, lasts)
        mode = rng.choice(("01", "rowconst", "free"))
        W = build(off, seq, weight_fun(rng, mode, m, (1, 2, 3)), wminus=rng.choice((1, 2, 3)))
        n = len(W)
        lk = random_locks(rng, off + m, True, rng.choice((0.0, 0.3)))
        how = it % 6
        if how == 0:      # a zero row for an idle path
            r = rng.randrange(n - 1)
            W[r] = [0] * n
            lk[r] = 0
        elif how == 1:    # a hole in a staircase
            r, cc = rng.randrange(off, n - 1), rng.randrange(off, n - 1)
            W[r][cc] = 0
        elif how == 2:    # ghost left unlocked
            lk[-1] = 0
        elif how == 3:    # minus path with weight in a plus ensemble / plus path with weight in [0-]
            r, cc = rng.randrange(n - 1), rng.randrange(n - 1)
            W[r][cc] = rng.choice((1, 2))
        elif how == 4:    # arbitrary zero pattern
            W = [[rng.choice((0, 1, 1, 2, 3)) for _ in range(n)] for _ in range(n)]
        else:             # slot order that violates W[s][s] > 0
            body = W[off:n - 1]
            rng.shuffle(body)
            W = W[:off] + body + W[n - 1:]
        cases.append({"off": off, "W": W, "locks": lk})
    res = [code.inf(c["off"], c["W"], c["locks"]) for c in cases]
    if not ctx._driver_ok:
        for _ in cases:
            ctx.count(1, branch="malformed")
        return
    out = ctx.driver([f"infretis {c['off']} {tok_list(c['locks'])} {tok_mat(c['W'])}" for c in cases])
    for c, r, mo in zip(cases, res, out):
        kind, P, cbr, _ = r
        body, _, brs = mo.partition(" | ")
        mt = body.split()
        mkind = mt[0] if mt[0] in ("ok", "mc") else body.strip()
        ctx.count(1, branch="malformed:" + mkind)
        rep = {"kind": "malformed", "off": c["off"], "W": c["W"], "locks": c["locks"]}
        if tie_sensitive(c["off"], c["W"], c["locks"]):
            ctx.hit("malformed:argsort-tie-between-different-rows-not-compared")
            continue
        ctx.hit("malformed:compared")
        if mkind != kind:
            if kind == "ok" and mkind == "err:assert":
                # np.allclose (rtol 1e-5) in the code vs exact sums in the model: only a disagreement if the
                # code's matrix is doubly stochastic far beyond that tolerance
                Pf = np.asarray(P, dtype=float)
                idle = np.array(c["locks"]) == 0
                blk = Pf[idle][:, idle]
                dev = max(np.abs(blk.sum(axis=0) - 1).max(), np.abs(blk.sum(axis=1) - 1).max())
                if dev > 1e-12:
                    ctx.hit("malformed:allclose-tolerance-not-compared")
                    continue
            ctx.disagree({"fn": "inf_retis kind (malformed)", **rep}, kind, body[:200])
        elif kind == "ok":
            Mm, _ = parse_mat_f(mt, 1)
            if np.shape(Mm) != np.shape(P) or np.abs(np.asarray(P, dtype=float) - np.array(Mm)).max() > TOL:
                ctx.disagree({"fn": "inf_retis value (malformed)", **rep}, "values differ", body[:200])


def corpus_cases():
    d = CORPUS / "C02"
    out = []
    if d.exists():
        for f in sorted(d.glob("*.json")):
            try:
                o = json.loads(f.read_text())
            except Exception:  # noqa: BLE001
                continue
            for c in (o if isinstance(o, list) else [o]):
                c = c.get("replay", c)
                if "W" in c and "locks" in c:
                    out.append({"kind": "corpus", "off": int(c.get("off", 1)), "W": c["W"], "locks": c["locks"],
                                **({"rescale": tuple(c["rescale"])} if "rescale" in c else {}), "cross": True})
    return out


def _run_core(ctx):
    rng = ctx.rng
    ctx.rule = ("a case = (offset, weight matrix, lock vector); distinct by exactly that triple. In-family cases: "
                "staircase `last` vector (Hall: sorted last[k] >= k+1) x assignment of rows to slots with W[s][s] > 0 "
                "x lock subset of the non-ghost slots (ghost always locked, never all locked) x weights "
                "(0/1, one weight per row, or free per entry, from {1,2,3,5,17,1000}). Every in-family case counts as "
                "non-trivial (its idle block has perm > 0 and is checked entry-wise against the permanent ratios).")
    ctx.exhaustive = False
    with warnings.catch_warnings(), np.errstate(all="ignore"):
        warnings.simplefilter("ignore")
        code = Code()
        t0 = ctx.elapsed()
        # corpus first
        cc = corpus_cases()
        if cc:
            evaluate_family(ctx, code, cc, "corpus")
        ex, max_full = gen_exhaustive(ctx, rng)
        evaluate_family(ctx, code, ex, "staircase01")
        t1 = ctx.elapsed()
        wt, mc = gen_weighted(ctx, rng)
        evaluate_family(ctx, code, wt, "weighted")
        evaluate_family(ctx, code, mc, "monte-carlo-decision")
        t2 = ctx.elapsed()
        sub_functions(ctx, code, rng)
        ill = predicate(code, ILL_CONDITIONED, full=False)
        ctx.extra["ill_conditioned_witness"] = {"fails_now": [list(f) for f in ill], "reported": REPORT_ILL_CONDITIONED}
        if ill and REPORT_ILL_CONDITIONED:
            ctx.fail("C02:glynn-cancellation-ill-conditioned",
                     "rounding in fast_glynn_perm: " + ill[0][1], {k: v for k, v in ILL_CONDITIONED.items()})
        t3 = ctx.elapsed()
        malformed(ctx, code, rng)
        t4 = ctx.elapsed()
    ctx.extra["exhaustive_part"] = (
        f"0/1 weights, offset 1 (with [0-]): every staircase with 1..{max_full} plus ensembles x every lock subset of the "
        f"non-ghost slots (not all locked) x slot orders (every distinct valid order for <= 4 plus ensembles; sorted, "
        f"reversed-if-valid and 2 random valid orders beyond); offset 0: the same up to 4 plus ensembles; larger sizes "
        f"(up to 6) with sampled lock subsets")
    ctx.extra["cases"] = {"staircase01": len(ex), "weighted": len(wt), "monte_carlo_decisions": len(mc), "corpus": len(cc)}
    ctx.extra["observed_max_abs_error"] = {k: float(f"{v:.3e}") for k, v in STATS.items()}
    ctx.extra["timing_s"] = {"staircase01": round(t1 - t0, 2), "weighted": round(t2 - t1, 2),
                             "sub_functions": round(t3 - t2, 2), "malformed": round(t4 - t3, 2)}
    ctx.assumptions += [
        "np.argsort tie order is unspecified (numpy default sort is not stable; AVX-512 argsort on this machine is "
        "unstable even for n<=16); the model sorts stably; in-family results are tie-order independent; generators cover ties",
        "longdouble rounding not modelled; tolerance 1e-9",
        "Monte-Carlo branch (non-row-constant blocks > 12) outside exactness: only the branch decision is checked",
        "exactness theorems are over Rat; float cancellation inside fast_glynn_perm/permanent_prob (longdouble) is "
        "outside the model; one fixed ill-conditioned witness is evaluated each run as known finding",
        "malformed (out-of-family) inputs are compared model-vs-code only when no two different idle rows share an "
        "argsort key (otherwise the code's outcome depends on numpy's tie order)",
        "np.allclose(…, 1) (rtol 1e-5) is modelled as exact equality with 1; on malformed inputs an ok/err:assert "
        "difference is only reported when the code's matrix is doubly stochastic to 1e-12",
        "weights are integers (exact in float64 and as Lean rationals); conditioning: non-row-constant (glynn) blocks "
        "larger than 5 get free weights from {1,2,3,5,17} only, the full set {1,2,3,5,17,1000} is used for glynn blocks "
        "<= 5 and for every row-constant case. Reason: fast_glynn_perm cancels catastrophically for dynamic range 1000 "
        "(witness ILL_CONDITIONED in c02.py: 9 plus ensembles, one path (1,..,1), eight paths (1000,1,..,1) -> "
        "AssertionError inside inf_retis; 8 ensembles -> error 5.8e-7); that is rounding, outside the model",
        "the Python oracle (exact integer subset-DP permanents) is compared token-for-token with the Lean "
        "specification probMatrix on every case with an idle block <= 4 and on a capped sample of 5..7; for idle blocks "
        "5..8 the Lean permC of the idle block and of one random minor is compared with the oracle's integers",
    ]


def replay(ctx, obj):
    """re-run one recorded failing input on the current implementation: 1 = still failing"""
    r = obj.get("replay", obj)
    if "W" not in r and "arg" not in r:
        # a `no-failing-input-found` record (broken proof obligation / correspondence): nothing to re-run on the code
        print(json.dumps(obj, indent=1, default=str)[:4000])
        return 1
    with warnings.catch_warnings(), np.errstate(all="ignore"):
        warnings.simplefilter("ignore")
        code = Code()
        kind = r.get("kind", "")
        if kind.startswith("sub:"):
            c = common_ctx_stub()
            _replay_sub(c, code, kind[4:], r["arg"])
            for f in c.fails:
                print(f["signature"], "-", f["what"])
            return 1 if c.fails else 0
        case = {"off": int(r.get("off", 1)), "W": r["W"], "locks": r["locks"], "cross": True}
        if "rescale" in r:
            case["rescale"] = tuple(r["rescale"])
        fails = predicate(code, case)
        for sig, what in fails:
            print(sig, "-", what)
        if not fails:
            print("property holds on this input now")
        return 1 if fails else 0


class _Stub:
    """minimal ctx for re-evaluating one sub-function case"""

    def __init__(self):
        self.fails = []
        self._driver_ok = False
        self.quick = True

    def count(self, *a, **k):
        pass

    def fail(self, sig, what, rep):
        self.fails.append({"signature": sig, "what": what})

    def disagree(self, *a, **k):
        pass


def common_ctx_stub():
    return _Stub()


def _replay_sub(c, code, kind, payload):
    """the predicates of sub_functions() on exactly one recorded case"""
    st = code.st
    cls = type(st)
    rep = {"kind": "sub:" + kind, "arg": payload}
    a = np.array(payload, dtype=float) if payload else np.zeros((0, 0))
    try:
        if kind == "glynn":
            v = float(cls.fast_glynn_perm(st, a))
            perm, _ = minors_perm(payload)
            if abs(v - perm) > TOL * max(1.0, abs(perm)):
                c.fail("C02:glynn-ne-permanent", f"fast_glynn_perm={v!r}, permanent={perm}", rep)
        elif kind == "permprob":
            want = oracle(payload, [0] * len(payload))
            r = np.asarray(cls.permanent_prob(st, a), dtype=float)
            Wf = np.array([[float(x) for x in row] for row in want])
            if not np.all(np.isfinite(r)) or np.abs(Wf - r).max() > TOL:
                c.fail("C02:permanent-prob-ne-ratio", "permanent_prob differs from W_ij*perm(minor)/perm(W)", rep)
        elif kind == "quick":
            want = oracle(payload, [0] * len(payload))
            r = np.asarray(cls.quick_prob(st, a), dtype=float)
            Wf = np.array([[float(x) for x in row] for row in want])
            if np.abs(Wf - r).max() > TOL:
                c.fail("C02:quick-prob-ne-ratio", "quick_prob differs from the permanent ratios on a row-constant block", rep)
            pp = np.asarray(cls.permanent_prob(st, a), dtype=float)
            if not np.all(np.isfinite(pp)) or np.abs(pp - r).max() > TOL:
                c.fail("C02:paths-disagree:quick-vs-permanent", "quick_prob and permanent_prob differ", rep)
    except Exception as e:  # noqa: BLE001
        c.fail("C02:sub-exception", f"{kind} raised {err_kind(e)}", rep)



def _cache_coherence(ctx):
    """`REPEX_state.prob` caches the matrix in `_last_prob`; it must be invalidated by every lock, unlock,
    swap-affecting add: along real multi-worker histories the cached matrix must equal a fresh
    `inf_retis(abs(state), locks)` after every operation (C02 anchors: `_last_prob`)."""
    import random
    import repex_tie as T
    n_hist = 10 if ctx.quick else 80
    for k in range(n_hist):
        n_ens = 4 + k % 4
        workers = 2 + k % max(1, n_ens - 2)
        workers = min(workers, n_ens - 1)
        label = f"cache n_ens={n_ens} workers={workers} k={k} ctxseed={ctx.seed}"
        sim = T.run_history(ctx, n_ens, workers, 25, seed=k % 3, wf=bool(k % 2), rng=random.Random(label), rich_init=True)
        for idx, (tag, d, held) in enumerate(sim.snaps):
            ctx.count(1, branch="cache_coherence")
            if d.get("_prob_stale") not in ("0", None):
                ctx.fail("C02:cached-prob-stale",
                         f"after {tag} (snapshot {idx}) the cached probability matrix differs from inf_retis on the current "
                         f"state/locks ({d.get('_prob_stale')}): locks {d['locks']}",
                         {"history": label, "snapshot": idx, "locks": d["locks"], "W": d["W"]})
                break


def run(ctx):
    _run_core(ctx)
    _cache_coherence(ctx)
