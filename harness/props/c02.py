"""C02 - swap probabilities equal the exact permanent ratios.

Tie: the real `REPEX_state.inf_retis / find_blocks / quick_prob / permanent_prob /
fast_glynn_perm` (infretis/classes/repex.py) against
  * the Lean model  Infretis.Perm.infRetis / findBlocks / quickProb / permanentProb / glynn
    (driver ops `infretis`, `blocks`, `quick`, `permprob`, `glynn`), and
  * the property predicate itself: every entry of the code's matrix within 1e-9 of
    W_ij * perm(W minus row i, column j) / perm(W) on the idle block (Lean `spec` =
    Infretis.Perm.probMatrix through the driver for idle blocks <= 7, an exact integer
    bitmask-DP permanent oracle in Python for every size, the two cross-checked on every
    case where both are available), exactly zero on busy rows/columns, doubly stochastic,
    zero where the weight is zero, invariant under rescaling one row, and agreement of the
    fast / block-wise / permanent code paths.
All weights are integers, so both worlds get exactly the same numbers.
"""
from __future__ import annotations

import contextlib
import io
import itertools
import json
import os
import shutil
import time
import warnings
from fractions import Fraction

import numpy as np

from common import CORPUS, err_kind, frac_token

TOL = 1e-9
WSET = (1, 2, 3, 5, 17, 1000)
WMILD = (1, 2, 3, 5, 17)     # free weights for glynn blocks > GLYNN_WIDE_MAX (see the assumption on conditioning)
GLYNN_WIDE_MAX = 5           # largest non-row-constant block that gets weights with dynamic range 1000
REPORT_ILL_CONDITIONED = True    # report the Glynn-cancellation witness below as a property failure
ILL_CONDITIONED = {"kind": "ill-conditioned", "off": 1,
                   "W": [[1] + [0] * 10] + [[0] + [1] * 9 + [0]] + [[0, 1000] + [1] * 8 + [0] for _ in range(8)] + [[0] * 11],
                   "locks": [0] * 10 + [1]}
SPEC_ALL = 4          # idle blocks up to this size always go through the Lean `spec` op (brute force n!)
PERM_MAX = 8          # up to this size the Lean permC of the idle block and of one minor is compared as well
SPEC_CAP_QUICK = {5: 300, 6: 25, 7: 3, ("perm", 7): 150, ("perm", 8): 12}
SPEC_CAP_THOROUGH = {5: 6000, 6: 600, 7: 60, ("perm", 7): 5000, ("perm", 8): 400}
STATS = {"max_abs_err_vs_spec": 0.0, "max_abs_err_vs_model": 0.0, "max_rescale_diff": 0.0}

W_MATRIX1 = [
    [1, 0, 0, 0, 0, 0, 0, 0],
    [0, 1, 0, 0, 0, 0, 0, 0],
    [0, 1, 1, 0, 0, 0, 0, 0],
    [0, 1, 1, 1, 1, 0, 0, 0],
    [0, 1, 1, 1, 1, 0, 0, 0],
    [0, 1, 1, 1, 1, 1, 0, 0],
    [0, 1, 1, 1, 1, 1, 1, 1],
    [0, 1, 1, 1, 1, 1, 1, 1],
]
W_MATRIX2 = [
    [3519, 3437, 3324, 3263, 3226, 3214],
    [147, 0, 0, 0, 0, 0],
    [147, 147, 0, 0, 0, 0],
    [154, 85, 34, 18, 4, 1],
    [109, 92, 70, 45, 26, 11],
    [139, 112, 69, 29, 9, 1],
]


# --------------------------------------------------------------------------- the real object
def _state():
    import importlib.util  # noqa: F401
    from infretis.classes.repex import REPEX_state
    st = REPEX_state({"current": {"size": 3}, "runner": {"workers": 1}, "simulation": {"seed": 0}}, minus=True)
    # a genuine numpy generator: repex_tie (used by _cache_coherence) replaces repex.default_rng by a scripted
    # generator for the rest of the process, and run(ctx) may be called several times in one process
    st.rgen = np.random.default_rng(0)
    return st


class _Hang(Exception):
    pass


def _bounded(fn, secs=90):
    """run fn() with a wall-clock bound that nests inside the framework's own SIGALRM budget; a call that
    does not return is reported as a failing input (`err:hang`) instead of a time-out of the whole check"""
    import signal
    import threading
    if threading.current_thread() is not threading.main_thread():
        return fn()

    def on_alarm(signum, frame):
        raise _Hang()
    t0 = time.time()
    prev = signal.signal(signal.SIGALRM, on_alarm)
    remaining = signal.alarm(secs)
    try:
        return fn()
    finally:
        signal.alarm(0)
        signal.signal(signal.SIGALRM, prev)
        if remaining:
            signal.alarm(max(1, remaining - int(time.time() - t0)))


def _tap(st):
    """record which sub-routines inf_retis calls (the originals of the class still do the work)"""
    log = []
    cls = type(st)

    def mk(name):
        orig = getattr(cls, name)

        def f(*a, **k):
            r = orig(st, *a, **k)
            log.append((name, r if name == "find_blocks" else len(a[0])))
            return r
        return f
    for name in ("find_blocks", "quick_prob", "permanent_prob", "random_prob"):
        setattr(st, name, mk(name))
    return log


def code_branches(log, failed):
    """branch list observed on the code (same vocabulary as Infretis.Perm.branches); None = not observable"""
    names = [x[0] for x in log]
    if "find_blocks" not in names:
        if "quick_prob" in names:
            return ["equal"]
        return None
    k = names.index("find_blocks")
    blocks = log[k][1]
    if isinstance(blocks, tuple):
        return ["single-tuple"]
    rest = log[k + 1:]
    out = []
    pos = 0
    for (start, stop, _d) in blocks:
        if int(stop) - int(start) == 1:
            out.append("single")
            continue
        if pos >= len(rest):
            if failed:
                return out + ["?"]
            return out + ["missing-call"]
        nm = rest[pos][0]
        pos += 1
        out.append({"quick_prob": "quick", "permanent_prob": "glynn", "random_prob": "random"}.get(nm, nm))
    return out


class Code:
    def __init__(self):
        self.st = _state()
        self.log = _tap(self.st)

    def inf(self, off, W, locks):
        """-> (kind, P or None, branches, mc_dims, purity note or None)"""
        st = self.st
        st.n = len(W)
        st._offset = off
        del self.log[:]
        rc0 = st._random_count
        buf = io.StringIO()
        P = None
        Wa = np.array(W, dtype=float)
        la = np.array(locks, dtype=float)
        W0, l0 = Wa.copy(), la.copy()
        try:
            with contextlib.redirect_stdout(buf):
                P = _bounded(lambda: st.inf_retis(Wa, la))
            kind = "ok"
        except _Hang:
            kind = "err:hang"
        except Exception as e:  # noqa: BLE001
            kind = err_kind(e)
        note = None
        try:
            if Wa.shape != W0.shape or la.shape != l0.shape or not np.array_equal(Wa, W0) or not np.array_equal(la, l0):
                note = "inf_retis modified the weight matrix / lock vector it was given"
            elif isinstance(P, np.ndarray) and (np.shares_memory(P, Wa) or np.shares_memory(P, la)):
                note = "the matrix returned by inf_retis shares memory with its input"
        except Exception as e:  # noqa: BLE001
            note = f"inputs not comparable after the call ({type(e).__name__})"
        nrand = st._random_count - rc0
        dims = []
        for ln in buf.getvalue().splitlines():
            if ln.startswith("random #") and "dims = " in ln:
                try:
                    dims.append(int(ln.split("dims = ")[1]))
                except ValueError:
                    pass
        try:
            br = code_branches(self.log, kind != "ok")
        except Exception:  # noqa: BLE001
            br = None
        if nrand and kind == "ok":
            kind = "mc"
        return kind, P, br, (nrand, dims), note


# --------------------------------------------------------------------------- tokens
def _tokw(x):
    """exact rational token of one weight (int, float or Fraction)"""
    if isinstance(x, (int, np.integer)):
        return str(int(x))
    return frac_token(x)


def tok_mat(M):
    parts = [str(len(M))]
    for r in M:
        parts.append(str(len(r)))
        parts.extend(_tokw(x) for x in r)
    return " ".join(parts)


def tok_list(xs):
    return " ".join([str(len(xs))] + [str(x) for x in xs])


_fcache = {}


def tokf(t):
    v = _fcache.get(t)
    if v is None:
        if "/" in t:
            a, b = t.split("/")
            v = int(a) / int(b)
        else:
            v = float(int(t))
        if len(_fcache) < 500000:
            _fcache[t] = v
    return v


def parse_mat_f(toks, pos=0):
    """matrix token stream -> list of float rows, new position"""
    R = int(toks[pos])
    pos += 1
    M = []
    for _ in range(R):
        k = int(toks[pos])
        M.append([tokf(t) for t in toks[pos + 1: pos + 1 + k]])
        pos += 1 + k
    return M, pos


def show_frac(q):
    return str(q.numerator) if q.denominator == 1 else f"{q.numerator}/{q.denominator}"


# --------------------------------------------------------------------------- Python oracle
def minors_perm(M):
    """exact: (perm(M), [[perm(minor_ij)]]) for a square integer matrix, by prefix/suffix subset DP"""
    m = len(M)
    full = (1 << m) - 1
    f = [dict() for _ in range(m + 1)]
    g = [dict() for _ in range(m + 1)]
    f[0][0] = 1
    for k in range(m):
        row = M[k]
        nz = [(1 << j, row[j]) for j in range(m) if row[j] != 0]
        fk1 = f[k + 1]
        for S, v in f[k].items():
            for b, w in nz:
                if not S & b:
                    fk1[S | b] = fk1.get(S | b, 0) + v * w
    g[m][0] = 1
    for k in range(m - 1, -1, -1):
        row = M[k]
        nz = [(1 << j, row[j]) for j in range(m) if row[j] != 0]
        gk = g[k]
        for S, v in g[k + 1].items():
            for b, w in nz:
                if not S & b:
                    gk[S | b] = gk.get(S | b, 0) + v * w
    perm = f[m].get(full, 0)
    mn = [[0] * m for _ in range(m)]
    for i in range(m):
        gi = g[i + 1]
        for S, v in f[i].items():
            rest = full ^ S
            for j in range(m):
                b = 1 << j
                if rest & b:
                    w = gi.get(rest ^ b)
                    if w:
                        mn[i][j] += v * w
    return perm, mn


def oracle(W, locks):
    """pSpec on the idle block, zeros on busy rows/columns, as Fractions; None if perm(idle)=0"""
    n = len(W)
    idle = [i for i in range(n) if not locks[i]]
    M = [[W[i][j] for j in idle] for i in idle]
    if any(not isinstance(x, (int, np.integer)) for r in M for x in r):
        M = [[Fraction(x) for x in r] for r in M]       # float weights: exact rationals
    perm, mn = minors_perm(M)
    if perm == 0:
        return None
    P = [[Fraction(0)] * n for _ in range(n)]
    for a, i in enumerate(idle):
        for b, j in enumerate(idle):
            if M[a][b]:
                P[i][j] = Fraction(M[a][b] * mn[a][b], perm)
    return P


def spec_line(P):
    """the Lean `spec` answer for the oracle matrix (for exact comparison of the two specs)"""
    if P is None:
        return "perm0"
    parts = ["ok", str(len(P))]
    for r in P:
        parts.append(str(len(r)))
        parts.extend(show_frac(q) for q in r)
    return " ".join(parts)


# --------------------------------------------------------------------------- generators
def staircases(m):
    """all non-decreasing `last` vectors (1..m) with last[k] >= k+1 (Hall), Catalan(m) many"""
    out = []

    def rec(k, lo, cur):
        if k == m:
            out.append(tuple(cur))
            return
        for v in range(max(lo, k + 1), m + 1):
            rec(k + 1, v, cur + [v])
    rec(0, 1, [])
    return out


def valid_seq(seq):
    return all(v >= s + 1 for s, v in enumerate(seq))


def random_valid(rng, lasts):
    """random slot order with last(row in plus slot s) >= s"""
    pool = list(lasts)
    m = len(pool)
    seq = [0] * m
    for s in range(m, 0, -1):
        cand = [i for i, v in enumerate(pool) if v >= s]
        i = rng.choice(cand)
        seq[s - 1] = pool.pop(i)
    return tuple(seq)


def arrangements(rng, lasts, exhaustive, nrand):
    m = len(lasts)
    if exhaustive:
        return sorted({p for p in itertools.permutations(lasts) if valid_seq(p)})
    out = [tuple(lasts)]
    rev = tuple(reversed(lasts))
    if valid_seq(rev) and rev not in out:
        out.append(rev)
    for _ in range(nrand):
        p = random_valid(rng, lasts)
        if p not in out:
            out.append(p)
    assert all(valid_seq(p) and len(p) == m for p in out)
    return out


def build(off, seq, wfun, wminus=1, ghost=True):
    """state matrix: row s = path in slot s; plus slot k (0-based among plus slots) holds a row that is
    positive on the first seq[k] plus ensembles. wfun(k, c) = weight of plus row k in plus column c."""
    m = len(seq)
    n = off + m + (1 if ghost else 0)
    W = []
    if off:
        W.append([wminus] + [0] * (n - 1))
    for k, last in enumerate(seq):
        W.append([0] * off + [wfun(k, c) if c < last else 0 for c in range(m)] + ([0] if ghost else []))
    if ghost:
        W.append([0] * n)
    return W


def lock_subsets(nslots, ghost):
    """every lock vector over the non-ghost slots except `all locked`; the ghost is always locked"""
    for bits in range((1 << nslots) - 1):
        yield [(bits >> s) & 1 for s in range(nslots)] + ([1] if ghost else [])


def random_locks(rng, nslots, ghost, p):
    while True:
        l = [1 if rng.random() < p else 0 for _ in range(nslots)]
        if not all(l):
            return l + ([1] if ghost else [])


def weight_fun(rng, mode, m, wset=WSET):
    if mode == "01":
        return lambda k, c: 1
    if mode == "rowconst":
        rw = [rng.choice(wset) for _ in range(m)]
        return lambda k, c: rw[k]
    tbl = [[rng.choice(wset) for _ in range(m)] for _ in range(m)]
    return lambda k, c: tbl[k][c]


def case_key(c):
    return (c["off"], tuple(c["locks"]), tuple(tuple(r) for r in c["W"]))


def well_scaled(M):
    """every positive entry is at least 1/17 of its row maximum (whole-matrix permanent_prob is then far from
    the cancellation regime of Glynn's formula)"""
    for r in M:
        mx = max(r)
        if any(0 < x * 17 < mx for x in r):
            return False
    return True


# --------------------------------------------------------------------------- property predicate
def predicate(code, case, res=None, want=None, full=True):
    """the property on the implementation's own output for one in-family case.
    -> list of (signature, what).  `want` = oracle matrix (Fractions), computed if None."""
    off, W, locks = case["off"], case["W"], case["locks"]
    n = len(W)
    if res is None:
        res = code.inf(off, W, locks)
    kind, P = res[0], res[1]
    fails = []
    if len(res) > 4 and res[4]:
        # input purity: the matrix handed to inf_retis is the sampler's live state (|state| and _locks)
        fails.append(("C02:input-modified", res[4]))
    if want is None:
        want = oracle(W, locks)
    if want is None:
        return fails           # not in the family (perm of the idle block is 0): no claim on the values
    if kind == "mc":
        # Monte-Carlo branch: outside exactness - but only blocks larger than 12 may go there
        dims = res[3][1]
        if any(d <= 12 for d in dims) or not dims:
            return fails + [("C02:monte-carlo-on-small-block", f"random_prob used for blocks of size {dims} (exact code path expected up to 12)")]
        return fails
    if kind != "ok":
        return fails + [("C02:exception-in-family", f"inf_retis raised {kind} on a reachable weight matrix")]
    try:
        Pf = np.asarray(P, dtype=float)
    except Exception as e:  # noqa: BLE001
        return [("C02:shape", f"result of type {type(P).__name__} is not a numeric matrix ({type(e).__name__})")]
    if Pf.shape != (n, n):
        return [("C02:shape", f"result has shape {Pf.shape}, expected {(n, n)}")]
    Wf = np.array([[float(x) for x in r] for r in want])
    if not np.all(np.isfinite(Pf)):
        return [("C02:non-finite", "result contains nan/inf")]
    d = np.abs(Pf - Wf)
    STATS["max_abs_err_vs_spec"] = max(STATS["max_abs_err_vs_spec"], float(d.max()))
    busy = np.array(locks) == 1
    if busy.any() and (np.any(Pf[busy, :] != 0) or np.any(Pf[:, busy] != 0)):
        fails.append(("C02:busy-not-zero", "non-zero probability on a busy row or column"))
    idle = ~busy
    blk = Pf[idle][:, idle]
    if np.max(np.abs(blk.sum(axis=1) - 1)) > TOL or np.max(np.abs(blk.sum(axis=0) - 1)) > TOL:
        fails.append(("C02:not-doubly-stochastic", "row or column sum of the idle block differs from 1"))
    Wa = np.array(W, dtype=float)
    if np.any(np.abs(Pf[Wa == 0]) > 1e-12):
        fails.append(("C02:nonzero-where-weight-zero", "positive probability where the weight is zero"))
    if d.max() > TOL:
        i, j = np.unravel_index(np.argmax(d), d.shape)
        fails.append(("C02:prob-ne-permanent-ratio",
                      f"P[{i}][{j}]={Pf[i, j]!r} but W_ij*perm(minor)/perm(W)={want[i][j]} (|diff|={d.max():.3e})"))
    if full:
        # invariance under rescaling one path's weights (second call of the real code)
        rs = case.get("rescale")
        if rs:
            r, fac = rs
            W2 = [list(row) for row in W]
            W2[r] = [x * fac for x in W2[r]]
            k2, P2 = code.inf(off, W2, locks)[:2]
            if k2 == "ok" and np.shape(P2) != Pf.shape:
                fails.append(("C02:shape", f"row {r} multiplied by {fac}: result has shape {np.shape(P2)}"))
            elif k2 == "ok":
                d2 = np.abs(np.asarray(P2, dtype=float) - Pf).max()
                STATS["max_rescale_diff"] = max(STATS["max_rescale_diff"], float(d2))
                if d2 > TOL:
                    fails.append(("C02:not-rescale-invariant",
                                  f"row {r} multiplied by {fac} changes the matrix by {d2:.3e}"))
            elif k2 != "mc":
                fails.append(("C02:not-rescale-invariant", f"row {r} multiplied by {fac}: {k2} instead of a matrix"))
        # whole idle block through permanent_prob must agree with inf_retis (block-wise / fast paths)
        if case.get("cross"):
            M = Wa[idle][:, idle]
            if len(M) >= 2 and well_scaled(M):
                try:
                    Q = np.asarray(code.st.permanent_prob(M.copy()), dtype=float)
                    if not np.all(np.isfinite(Q)) or np.abs(Q - blk).max() > TOL:
                        fails.append(("C02:paths-disagree:permanent-vs-infretis",
                                      "permanent_prob(idle block) differs from inf_retis"))
                except Exception as e:  # noqa: BLE001
                    fails.append(("C02:paths-disagree:permanent-vs-infretis", f"permanent_prob raised {err_kind(e)}"))
    return fails


# --------------------------------------------------------------------------- family evaluation
def evaluate_family(ctx, code, cases, label):
    """code + model + spec + predicate for a batch of in-family cases"""
    rng = ctx.rng
    results = []
    for c in cases:
        results.append(code.inf(c["off"], c["W"], c["locks"]))
    have = ctx._driver_ok
    nidle = [len(c["locks"]) - sum(c["locks"]) for c in cases]
    wants = [oracle(c["W"], c["locks"]) for c in cases]
    if have:
        lines = [f"infretis {c['off']} {tok_list(c['locks'])} {tok_mat(c['W'])}" for c in cases]
        # Lean specification probMatrix (brute-force n! permanents): every case with an idle block <= SPEC_ALL,
        # a capped number of the larger ones; for idle blocks up to PERM_MAX additionally the Lean permanent of
        # the idle block and of one minor (the two ingredients of the Python oracle)
        budget = dict(SPEC_CAP_QUICK if ctx.quick else SPEC_CAP_THOROUGH)
        spec_idx, perm_req = [], []
        for k, c in enumerate(cases):
            sz = nidle[k]
            if sz <= SPEC_ALL:
                spec_idx.append(k)
            elif budget.get(sz, 0) > 0 and (k * 7919) % 5 == 0:
                budget[sz] -= 1
                spec_idx.append(k)
            if SPEC_ALL < sz <= PERM_MAX and (sz <= 6 or budget.get(("perm", sz), 0) > 0):
                if sz > 6:
                    budget[("perm", sz)] -= 1
                idle = [i for i in range(len(c["W"])) if not c["locks"][i]]
                M = [[c["W"][i][j] for j in idle] for i in idle]
                if any(not isinstance(x, (int, np.integer)) for r in M for x in r):
                    M = [[Fraction(x) for x in r] for r in M]
                a_, b_ = rng.randrange(sz), rng.randrange(sz)
                mnr = [[M[x][y] for y in range(sz) if y != b_] for x in range(sz) if x != a_]
                perm_req.append((M, mnr, a_, b_))
        lines += [f"spec {tok_list(cases[k]['locks'])} {tok_mat(cases[k]['W'])}" for k in spec_idx]
        for (M, mnr, a_, b_) in perm_req:
            lines.append(f"perm {tok_mat(M)}")
            lines.append(f"perm {tok_mat(mnr)}")
        out = ctx.driver(lines)
        mod = out[: len(cases)]
        spec = dict(zip(spec_idx, out[len(cases): len(cases) + len(spec_idx)]))
        pout = out[len(cases) + len(spec_idx):]
        for q_, (M, mnr, a_, b_) in enumerate(perm_req):
            pm, mn = minors_perm(M)
            ctx.hit("spec=lean-permC-vs-python-perm", 2)
            if pout[2 * q_] != _tokw(pm) or pout[2 * q_ + 1] != _tokw(mn[a_][b_]):
                ctx.disagree({"fn": "permC(lean) vs python permanent", "M": M, "minor": [a_, b_]},
                             [_tokw(pm), _tokw(mn[a_][b_])], pout[2 * q_: 2 * q_ + 2])
    fresh_every = 61 if ctx.quick else 17
    for k, c in enumerate(cases):
        kind, P, cbr, (nrand, dims), note = results[k]
        want = wants[k]
        rep = {"kind": c.get("kind", label), "off": c["off"], "W": c["W"], "locks": c["locks"]}
        # --- object state: the long-lived object's answer equals a fresh object's answer, bit for bit
        if k % fresh_every == 3 and kind == "ok":
            ctx.hit("object_state:long-lived-vs-fresh")
            fr = Code().inf(c["off"], c["W"], c["locks"])
            same = fr[0] == "ok" and np.shape(fr[1]) == np.shape(P)
            if same:
                try:
                    same = bool(np.array_equal(np.asarray(fr[1], dtype=float), np.asarray(P, dtype=float)))
                except Exception:  # noqa: BLE001
                    same = False
            if not same:
                ctx.fail("C02:depends-on-call-history",
                         f"a REPEX_state used for {k} earlier matrices returns a different matrix than a fresh "
                         f"one on the same input (fresh: {fr[0]})", rep)
        if "rescale" in c:
            rep["rescale"] = list(c["rescale"])
        if c.get("cross"):
            rep["cross"] = True
        branch = "?"
        if have:
            body, _, brs = mod[k].partition(" | ")
            mbr = brs.split()[1:]
            branch = "+".join(sorted(set(mbr))) if mbr else "none"
            # --- both specifications agree (Lean probMatrix vs Python oracle), exactly
            if k in spec:
                ctx.hit("spec=lean+python")
                if spec[k] != spec_line(want):
                    ctx.disagree({"fn": "spec(lean probMatrix) vs python oracle", **rep}, spec_line(want)[:300], spec[k][:300])
            else:
                ctx.hit("spec=python-only")
            # --- model vs code (never lets an unexpected output type stop the run: the predicate below judges it)
            try:
                mt = body.split()
                mkind = mt[0] if mt[0] in ("ok", "mc") else body.strip()
                if mkind != kind:
                    ctx.disagree({"fn": "inf_retis kind", **rep}, kind, body[:200])
                elif kind == "ok":
                    Mm, _ = parse_mat_f(mt, 1)
                    dm = np.abs(np.asarray(P, dtype=float) - np.array(Mm)).max() if np.shape(P) == np.shape(Mm) else 1.0
                    STATS["max_abs_err_vs_model"] = max(STATS["max_abs_err_vs_model"], float(dm))
                    if not dm <= TOL:
                        ctx.disagree({"fn": "inf_retis value", **rep}, f"max|code-model|={dm:.3e}", body[:200])
                elif kind == "mc":
                    msz = [int(x) for x in mt[2:]]
                    if sorted(msz) != sorted(dims) or nrand != len(msz):
                        ctx.disagree({"fn": "inf_retis monte-carlo decision", **rep}, f"random_count+={nrand} dims={dims}", body)
                if cbr is not None and kind in ("ok", "mc") and cbr != mbr:
                    ctx.disagree({"fn": "inf_retis branches", **rep}, cbr, mbr)
            except Exception as e:  # noqa: BLE001
                ctx.disagree({"fn": "inf_retis output not comparable with the model", **rep},
                             f"{type(e).__name__}: {e}", body[:200])
        else:
            branch = "+".join(sorted(set(cbr))) if cbr else "none"
        ctx.count(1, branch=branch)
        ctx.distinct(case_key(c))
        try:
            verdict = predicate(code, c, results[k], want)
        except Exception as e:  # noqa: BLE001  (an output the predicate cannot even read is a failing input)
            verdict = [("C02:unreadable-output", f"the result of inf_retis cannot be judged: {type(e).__name__}: {e}")]
        for sig, what in verdict:
            ctx.fail(sig, what, rep)
        if k % 4999 == 7:
            ctx.sample({"fn": "inf_retis", **rep, "branches": branch, "code": kind,
                        "P": None if P is None else [[round(float(x), 12) for x in r] for r in P]})
    return results


# --------------------------------------------------------------------------- run
def gen_exhaustive(ctx, rng):
    """(a) 0/1 staircases x lock subsets x slot orders"""
    cases = []
    max_full = 5 if ctx.quick else 6
    for off in (1, 0):
        for m in range(1, 7):
            full = m <= max_full and (off == 1 or m <= 4)
            for lasts in staircases(m):
                arrs = arrangements(rng, lasts, exhaustive=(m <= 4), nrand=2)
                for seq in arrs:
                    W = build(off, seq, lambda k, c: 1)
                    nslots = off + m
                    if full:
                        lks = list(lock_subsets(nslots, True))
                    else:
                        lks = [[0] * nslots + [1]] + [random_locks(rng, nslots, True, p)
                                                      for p in (0.15, 0.3, 0.5) for _ in range(2 if ctx.quick else 6)]
                    for lk in lks:
                        c = {"kind": "staircase01", "off": off, "W": W, "locks": lk}
                        idle = [s for s in range(len(lk)) if not lk[s]]
                        c["rescale"] = (rng.choice(idle), rng.choice((2, 3, 1000)))
                        cases.append(c)
    for k in range(0, len(cases), 53 if ctx.quick else 17):
        cases[k]["cross"] = True
    return cases, max_full


def gen_weighted(ctx, rng):
    """(b) row-constant and free positive weights, up to 12 plus ensembles; a few Monte-Carlo decisions"""
    cases = []
    plan = []   # (m, mode, count)
    q = ctx.quick
    for m in range(1, 7):
        plan += [(m, "rowconst", 120 if q else 1500), (m, "free", 120 if q else 1500)]
    for m in (7, 8):
        plan += [(m, "rowconst", 40 if q else 400), (m, "free", 30 if q else 300)]
    for m in (9, 10):
        plan += [(m, "rowconst", 20 if q else 200), (m, "free", 4 if q else 40)]
    for m in (11, 12):
        plan += [(m, "rowconst", 20 if q else 200), (m, "free", 1 if q else 12)]
    for (m, mode, cnt) in plan:
        for it in range(cnt):
            off = 0 if rng.random() < 0.15 else 1
            lasts = sorted(rng.randint(1, m) for _ in range(m))
            if it % 3 == 0:
                lasts = [m] * m          # one big block
            elif it % 3 == 1:
                lasts = sorted(rng.choice((max(1, m // 2), m)) for _ in range(m))
            lasts = [max(v, k + 1) for k, v in enumerate(lasts)]
            seq = random_valid(rng, lasts) if it % 4 else tuple(lasts)
            wf = weight_fun(rng, mode, m, WSET if (m <= GLYNN_WIDE_MAX or mode == "rowconst") else WMILD)
            W = build(off, seq, wf, wminus=rng.choice(WSET))
            nslots = off + m
            if m >= 9 and mode == "free" and it < 2:
                lk = [0] * nslots + [1]
            else:
                lk = random_locks(rng, nslots, True, rng.choice((0.0, 0.1, 0.3)))
            c = {"kind": "weighted-" + mode, "off": off, "W": W, "locks": lk}
            idle = [s for s in range(len(lk)) if not lk[s]]
            if m <= 8:
                c["rescale"] = (rng.choice(idle), rng.choice((2, 3, 7, 1000)))
            if m <= 6 and it % 5 == 0:
                c["cross"] = True
            cases.append(c)
    # mixed: some rows constant, some free; wire-fencing-like rows (1 on some columns, n on others)
    for it in range(150 if q else 3000):
        m = rng.randint(2, 7)
        off = 0 if rng.random() < 0.15 else 1
        lasts = [max(v, k + 1) for k, v in enumerate(sorted(rng.randint(1, m) for _ in range(m)))]
        seq = random_valid(rng, lasts)
        colw = [rng.choice((1, 1, 7, 40) if m <= 4 else (1, 1, 2, 3)) for _ in range(m)]
        free = [rng.random() < 0.4 for _ in range(m)]
        tbl = [[(rng.choice(WSET if m <= 4 else WMILD) if free[k] else 1) * (colw[c] if rng.random() < 0.5 else 1)
                for c in range(m)]
               for k in range(m)]
        W = build(off, seq, lambda k, c: tbl[k][c], wminus=rng.choice(WSET))
        lk = random_locks(rng, off + m, True, rng.choice((0.0, 0.2, 0.4)))
        c = {"kind": "weighted-mixed", "off": off, "W": W, "locks": lk}
        idle = [s for s in range(len(lk)) if not lk[s]]
        c["rescale"] = (rng.choice(idle), rng.choice((2, 5, 1000)))
        if it % 7 == 0:
            c["cross"] = True
        cases.append(c)
    # block structured: several closed blocks, each all-0/1, row-constant (-> quick inside find_blocks) or free
    # (-> glynn); the weights a path has in ensembles below its own block are arbitrary (they are in no matching)
    for it in range(500 if q else 8000):
        m = rng.randint(2, 10)
        sizes = []
        while sum(sizes) < m:
            sizes.append(min(rng.choice((1, 2, 2, 3, 3, 4, 5, 6)), m - sum(sizes)))
        off = 0 if rng.random() < 0.15 else 1
        lasts, rows = [], []
        s0 = 0
        anyfree = False
        for b in sizes:
            rel = [max(v, k + 1) for k, v in enumerate(sorted(rng.randint(1, b) for _ in range(b)))]
            typ = rng.choice(("01", "rowconst", "rowconst", "free"))
            anyfree = anyfree or typ == "free"
            for k in range(b):
                rw = 1 if typ == "01" else rng.choice(WSET)
                below = rng.random() < 0.5
                row = []
                for c in range(m):
                    if c >= s0 + rel[k]:
                        row.append(0)
                    elif c < s0:
                        row.append(rng.choice(WSET) if below else rw)
                    else:
                        row.append(rng.choice(WSET if b <= GLYNN_WIDE_MAX else WMILD) if typ == "free" else rw)
                lasts.append(s0 + rel[k])
                rows.append(row)
            s0 += b
        # slot s (1-based) needs last >= s: draw a valid order of the rows
        pool = list(range(m))
        seqi = [0] * m
        for sl in range(m, 0, -1):
            cand = [i for i in pool if lasts[i] >= sl]
            i = rng.choice(cand)
            pool.remove(i)
            seqi[sl - 1] = i
        n = off + m + 1
        W = ([[rng.choice(WSET)] + [0] * (n - 1)] if off else []) + [[0] * off + rows[i] + [0] for i in seqi] + [[0] * n]
        lk = random_locks(rng, off + m, True, rng.choice((0.0, 0.0, 0.15, 0.3)))
        c = {"kind": "weighted-blocks", "off": off, "W": W, "locks": lk}
        idle = [s_ for s_ in range(len(lk)) if not lk[s_]]
        c["rescale"] = (rng.choice(idle), rng.choice((2, 5, 1000)))
        if it % 9 == 0 and len(idle) <= 7:
            c["cross"] = True
        cases.append(c)
    # Monte-Carlo decision: non-row-constant blocks of 13-14
    mc = []
    for it in range(3 if q else 8):
        m = 13 + (it % 2)
        lasts = [m] * m
        if it % 3 == 2:
            m = 15                              # blocks: [0-] single, a 2-block, a 13-block
            lasts = [2, 2] + [m] * (m - 2)
        tbl = [[rng.choice((1, 2, 3)) for _ in range(m)] for _ in range(m)]
        seq = random_valid(rng, lasts)
        W = build(1, seq, lambda k, c: tbl[k][c])
        mc.append({"kind": "monte-carlo-decision", "off": 1, "W": W, "locks": [0] * (m + 1) + [1]})
    # row-constant 13-16: must NOT go to Monte-Carlo (quick branch)
    for it in range(3 if q else 10):
        m = 13 + it % 4
        rw = [rng.choice(WSET) for _ in range(m)]
        lasts = [max(v, k + 1) for k, v in enumerate(sorted(rng.choice((m // 2, m)) for _ in range(m)))]
        if it == 0:
            lasts = [m] * m
        W = build(1, random_valid(rng, lasts), lambda k, c: rw[k])
        cases.append({"kind": "weighted-rowconst-large", "off": 1, "W": W, "locks": [0] * (m + 1) + [1]})
    # a row-constant block of 13..14 next to a small free block: not `equal`, the big block must take the quick
    # branch (the row-constant test precedes the size test), never Monte-Carlo
    for it in range(2 if q else 8):
        big = 13 + it % 2
        m = 2 + big
        rw = [rng.choice(WSET) for _ in range(m)]
        rel = [max(v, k + 1) for k, v in enumerate(sorted(rng.choice((big // 2, big)) for _ in range(big)))]
        rows = [[rng.choice(WMILD), rng.choice(WMILD)] + [0] * big for _ in range(2)]
        rows += [[rng.choice(WSET), rng.choice(WSET)] + [rw[k] if c < rel[k] else 0 for c in range(big)] for k in range(big)]
        order = list(range(2, m))
        rng.shuffle(order)
        order.sort(key=lambda i: rel[i - 2])          # ascending `last`, random among equals: valid slot order
        W = [[1] + [0] * (m + 1)] + [[0] + rows[i] + [0] for i in [0, 1] + order] + [[0] * (m + 2)]
        cases.append({"kind": "weighted-rowconst-large-block", "off": 1, "W": W, "locks": [0] * (m + 1) + [1]})
    return cases, mc


def gen_boundary(ctx, rng):
    """exact boundaries and falsy-but-valid values (all in-family, judged by the full predicate):
    block sizes around every switch of code path (1|2: single vs quick/permanent; 12|13: exact vs Monte-Carlo,
    for the block AND for the idle matrix around it), the equal-weight test with weights equal up to the
    last bit, zero vs tiny positive weights, exactly one idle ensemble (each slot, incl. the [0-] slot 0)"""
    cases, mc = [], []
    tiny = [5e-324, 2.0 ** -1000, 1e-300]
    up = float(np.nextafter(3.0, 4.0))          # 3 + 1 ulp
    dn = float(np.nextafter(3.0, 2.0))

    def fam(kind, off, seq, wf, locks=None, wminus=1, **kw):
        W = build(off, seq, wf, wminus=wminus)
        lk = locks if locks is not None else [0] * (len(W) - 1) + [1]
        c = {"kind": "boundary-" + kind, "off": off, "W": W, "locks": lk}
        c.update(kw)
        return c
    # --- block-size thresholds. `pre` single blocks in front, then one closed block of size b
    def blocked(pre, b):
        return tuple(range(1, pre + 1)) + (pre + b,) * b
    free_tbl = [[rng.choice(WMILD) for _ in range(20)] for _ in range(20)]
    free_tbl[0][0], free_tbl[0][1] = 2, 3        # make sure row 0 is not row-constant
    sizes_exact = (2, 3, 11, 12) if ctx.quick else (2, 3, 10, 11, 12)
    for b in sizes_exact:
        for pre in (0, 2):
            for off in (1, 0):
                if b >= 11 and (off == 0 or (ctx.quick and pre == 0 and b == 11)):
                    continue
                seq = blocked(pre, b)
                cases.append(fam(f"free-block-{b}-idle-{off + pre + b}", off, seq,
                                 lambda k, c, pre=pre: free_tbl[max(0, k - pre)][c % 20] if k >= pre else 5))
    for b, pre in ((12, 0), (13, 0), (14, 0), (12, 3), (13, 2)):
        # row-constant blocks never go to Monte-Carlo, whatever their size
        rw = [rng.choice(WSET) for _ in range(pre + b)]
        cases.append(fam(f"rowconst-block-{b}-idle-{1 + pre + b}", 1, blocked(pre, b), lambda k, c, rw=rw: rw[k]))
    for b, pre in ((13, 0),) if ctx.quick else ((13, 0), (13, 2), (14, 0)):
        mc.append(fam(f"free-block-{b}-montecarlo", 1, blocked(pre, b),
                      lambda k, c, pre=pre: free_tbl[max(0, k - pre)][c % 20] if k >= pre else 5))
    # the 12-limit is a limit on the BLOCK: a free block of 3 and of 12 inside an idle matrix of 14 / 16
    cases.append(fam("free-block-3-idle-15", 1, tuple(range(1, 12)) + (14,) * 3,
                     lambda k, c: free_tbl[k][c % 20] if k >= 11 else 2))
    # --- equal-weight test: exactly equal vs equal up to the last bit
    for m in (2, 3, 4):
        seq = (m,) * m
        for how in ("exact", "up", "down", "first-up"):
            def wf(k, c, how=how, m=m):
                if how == "exact" or k != m - 1:
                    return 3.0
                if how == "first-up":
                    return up if c == 0 else 3.0
                return (up if how == "up" else dn) if c == m - 1 else 3.0
            cases.append(fam(f"equal-test-{how}", 1, seq, wf, wminus=3.0))
            cases.append(fam(f"equal-test-{how}", 0, seq, wf))
    # staircase (not one block): a last-bit difference inside one row of an otherwise row-constant state
    cases.append(fam("equal-test-stair-up", 1, (1, 3, 3), lambda k, c: up if (k, c) == (2, 1) else 3.0))
    # --- zero vs tiny positive: a tiny weight is a weight (row-constant tiny rows; one tiny entry that extends a row)
    for t in tiny:
        for seq in ((2, 2), (1, 3, 3), (3, 3, 3)):
            m = len(seq)
            cases.append(fam("tiny-row", 1, seq, lambda k, c, t=t: t if k == 0 else 1, wminus=t))
            cases.append(fam("tiny-row", 0, seq, lambda k, c, t=t: t if k == m - 1 else 2))
            cases.append(fam("tiny-all", 1, seq, lambda k, c, t=t: t, wminus=1))
    t40 = 2.0 ** -40
    cases.append(fam("tiny-entry-extends-row", 1, (2, 3, 3), lambda k, c: t40 if (k, c) == (0, 1) else 1))
    cases.append(fam("tiny-entry-extends-row", 1, (1, 2, 3), lambda k, c: t40 if (k, c) == (2, 2) else 2))
    cases.append(fam("zero-instead-of-tiny", 1, (1, 3, 3), lambda k, c: 1))
    # --- exactly one idle ensemble: every slot in turn (slot 0 = the [0-] ensemble), both offsets
    for off in (1, 0):
        for seq in ((1,), (2, 2), (1, 2, 3), (3, 3, 3)):
            nsl = off + len(seq)
            for s in range(nsl):
                lk = [0 if x == s else 1 for x in range(nsl)] + [1]
                cases.append(fam(f"one-idle-slot-{s}", off, seq, lambda k, c: 1 + ((k + c) % 3), locks=lk, wminus=7))
    # two idle: slot 0 and one other
    for s in (1, 2, 3):
        cases.append(fam("idle-0-and-one", 1, (3, 3, 3), lambda k, c: 2, locks=[0 if x in (0, s) else 1 for x in range(4)] + [1]))
    for c in cases:
        idle = [x for x in range(len(c["locks"])) if not c["locks"][x]]
        if len(c["W"]) <= 8 and "rescale" not in c:
            c["rescale"] = (idle[len(idle) // 2], 1000)
    return cases, mc


# --------------------------------------------------------------------------- (a)/(b) long-lived objects
class _P:
    """stand-in for a Path as far as REPEX_state needs it here"""

    def __init__(self, pn, weights):
        self.path_number = pn
        self.weights = None if weights is None else tuple(weights)

    def __deepcopy__(self, memo):
        return _P(self.path_number, self.weights)


def _full_state(size, workers, seed):
    """a complete REPEX_state (size ensembles incl. [0-], ghost) as setup_internal builds it, with a genuine
    numpy generator"""
    import importlib.util  # noqa: F401
    from infretis.classes.repex import REPEX_state
    cfg = {"current": {"size": size, "cstep": 0, "active": list(range(size)), "locked": [], "traj_num": size, "frac": {}},
           "runner": {"workers": workers},
           "simulation": {"seed": seed, "steps": 10 ** 6, "interfaces": [float(i) for i in range(size)],
                          "shooting_moves": ["sh"] * size, "tis_set": {"lambda_minus_one": False, "maxlength": 100},
                          "load_dir": "load", "ensemble_engines": [["engine"]] * size},
           "output": {"screen": 0, "data_dir": "./", "data_file": "./infretis_data.txt", "delete_old": False}}
    st = REPEX_state(cfg, minus=True)
    st.rgen = np.random.default_rng(seed)
    st.initiate_ensembles()
    st.toinitiate = -1
    st.cworker = 0
    return st


def _valid_for(rng, size, e, wf):
    """weights of a new path accepted in plus ensemble e (0-based among the size-1 plus ensembles): positive on
    plus columns 0..last, last >= e; as `add_traj` wants it (plus columns + ghost column)"""
    nplus = size - 1
    last = rng.randint(e, nplus - 1)
    if wf == "01":
        w = [1] * (last + 1)
    elif wf == "row":
        w = [rng.choice(WSET)] * (last + 1)
    else:
        w = [rng.choice(WMILD) for _ in range(last + 1)]
    return tuple(w + [0] * (nplus - 1 - last) + [0])


def object_history(label, nops, quick=True):
    """ONE long-lived REPEX_state per entry of `sizes` (two or three alive at once, operations interleaved) driven
    through add_traj / swap+lock / pick() / pick_traj_ens / pick_lock (re-issue branch) / sort_trajstate, with
    `prob` read after every mutator.  After every step, for the object just touched AND for the others:
      cached `prob` == inf_retis of a FRESH object on copies of (|state|, locks) == exact permanent ratios;
      reading `prob` leaves state and locks untouched.
    -> (failures [(signature, what, replay)], model lines [(label, step, W, locks, P)], steps done)"""
    import random
    rng = random.Random(label)
    fails, recs = [], []
    info = {"ops": {}, "abandoned": None}
    sizes = [rng.choice((3, 4, 5)), rng.choice((4, 5, 6, 7))] + ([rng.choice((2, 3))] if rng.random() < 0.5 else [])
    wfs = [rng.choice(("01", "row", "free")) for _ in sizes]
    sts = []
    pn = [0]

    def newpath(weights):
        pn[0] += 1
        return _P(pn[0], weights)

    def check(tag, step):
        for which, st in enumerate(sts):
            if st._locks[:-1].all():
                continue                       # everything busy: the sampler does not ask for P then
            rep = {"kind": "objhist", "label": label, "step": step, "object": which, "after": tag, "off": 1,
                   "W": [[float(x) for x in r] for r in np.abs(st.state)], "locks": [int(x) for x in st._locks]}
            S0, L0 = st.state.copy(), st._locks.copy()
            try:
                P = _bounded(lambda st=st: st.prob, 60)
                Pf = np.asarray(P, dtype=float)
            except Exception as e:  # noqa: BLE001
                fails.append(("C02:exception-in-family", f"reading prob after {tag} raised {err_kind(e)} "
                              f"(object {which} of {len(sts)}, step {step})", rep))
                return False
            if not (np.array_equal(st.state, S0) and np.array_equal(st._locks, L0)):
                fails.append(("C02:input-modified", f"reading prob after {tag} changed state/locks of the sampler", rep))
                return False
            from infretis.classes.repex import REPEX_state
            fr = REPEX_state({"current": {"size": len(S0) - 1}, "runner": {"workers": 1}, "simulation": {"seed": 0}}, minus=True)
            try:
                F = np.asarray(fr.inf_retis(np.abs(S0.copy()), L0.copy()), dtype=float)
            except Exception as e:  # noqa: BLE001
                fails.append(("C02:exception-in-family", f"inf_retis on the state after {tag} raised {err_kind(e)}", rep))
                return False
            if Pf.shape != F.shape or not np.allclose(Pf, F, rtol=0, atol=1e-12):
                fails.append(("C02:cached-prob-stale",
                              f"after {tag} (step {step}, object {which} of {len(sts)} alive) `prob` differs from "
                              f"inf_retis of a fresh object on the current state/locks "
                              f"(max diff {np.abs(Pf - F).max() if Pf.shape == F.shape else 'shape'})", rep))
                return False
            want = oracle(rep["W"], rep["locks"])
            if want is not None:
                Wf = np.array([[float(x) for x in r] for r in want])
                if np.abs(F - Wf).max() > TOL:
                    fails.append(("C02:prob-ne-permanent-ratio", f"state after {tag}: inf_retis differs from the "
                                  f"permanent ratios by {np.abs(F - Wf).max():.3e}", rep))
                    return False
            if which == step % len(sts):
                recs.append((step, rep["W"], rep["locks"], F))
        return True

    try:
        for size, wf in zip(sizes, wfs):
            st = _full_state(size, max(1, size - 2), seed=len(sts))
            sts.append(st)
            for e in range(size - 1):
                st.add_traj(e, newpath(None), _valid_for(rng, size, e, wf), count=False)
            st.add_traj(-1, newpath(None), (float(rng.choice(WSET)),), count=False)
            if not check("initial add_traj", -1):
                return fails, recs, info
        for step in range(nops):
            k = step % len(sts) if rng.random() < 0.7 else rng.randrange(len(sts))
            st, size, wf = sts[k], sizes[k], wfs[k]
            n = size + 1
            idle = [e for e in range(n - 1) if not st._locks[e]]
            busy = [e for e in range(n - 1) if st._locks[e]]
            ops = ["read"]
            if len(idle) >= 2:
                ops += ["pickdirect", "pickdirect", "reissue", "colpick", "same"]
            if len(idle) >= 3:
                ops += ["pickreal", "pickreal"]
            if busy:
                ops += ["finish", "finish", "finish"]
            op = rng.choice(ops)
            info["ops"][op] = info["ops"].get(op, 0) + 1
            if op == "read":
                tag = "a second read"
            elif op in ("pickdirect", "same"):
                P = np.asarray(st.prob, dtype=float)
                opts = [(t, e) for t in idle for e in idle if P[t, e] > 1e-12 and (op != "same" or t == e)]
                if not opts:
                    continue
                t, e = rng.choice(opts)
                st.swap(t, e)
                st.lock(e)
                tag = f"swap({t},{e}); lock({e})"
            elif op == "colpick":
                e = rng.choice(idle)
                st.pick_traj_ens(e)
                tag = f"pick_traj_ens({e})"
            elif op == "pickreal":
                st.pick()
                tag = "pick()"
            elif op == "reissue":
                P = np.asarray(st.prob, dtype=float)
                opts = [(t, e) for t in idle for e in idle if P[t, e] > 1e-12]
                if not opts:
                    continue
                t, e = rng.choice(opts)
                st.locked0 = [([e], [str(st._trajs[t].path_number)])]
                st.pick_lock()
                tag = f"pick_lock() re-issuing ensemble index {e} with the path of slot {t}"
            else:
                e = rng.choice(busy)
                if e == 0:
                    st.add_traj(-1, newpath(None), (float(rng.choice(WSET)),), count=False)
                else:
                    st.add_traj(e - 1, newpath(None), _valid_for(rng, size, e - 1, wf), count=False)
                tag = f"add_traj(ensemble index {e})"
                if not check(tag, step):
                    return fails, recs, info
                _bounded(st.sort_trajstate, 20)
                tag += "; sort_trajstate()"
            if not check(tag, step):
                return fails, recs, info
    except _Hang:
        info["abandoned"] = "hang-in-mutator"   # sort_trajstate did not return: not this property's business
    except Exception as e:  # noqa: BLE001
        import traceback
        names = {fr.name for fr in traceback.extract_tb(e.__traceback__)}
        if names & {"inf_retis", "quick_prob", "permanent_prob", "find_blocks", "fast_glynn_perm", "random_prob", "prob"}:
            fails.append(("C02:exception-in-family", f"computing the probability matrix inside a sampler operation "
                          f"raised {err_kind(e)} (history {label}): " + traceback.format_exc(limit=-2)[-300:],
                          {"kind": "objhist", "label": label, "step": -2}))
        else:
            info["abandoned"] = "mutator-raised-" + type(e).__name__    # other properties' business
    return fails, recs, info


def _object_state(ctx):
    """(a) call history / several objects alive, (b) input purity — see object_history"""
    nh = 6 if ctx.quick else 60
    lines, meta = [], []
    for h in range(nh):
        label = f"C02-objhist:{ctx.seed}:{h}"
        fails, recs, info = object_history(label, 70 if ctx.quick else 160)
        ctx.count(len(recs), branch="object_history_step")
        for op, cnt in info["ops"].items():
            ctx.hit("object_history:op=" + op, cnt)
        if info["abandoned"]:
            ctx.hit("object_history:abandoned:" + info["abandoned"])
            abandoned = ctx.extra.setdefault("object_histories_abandoned", [])
            abandoned.append(label)
            if len(abandoned) * 2 > nh:
                ctx.disagree({"fn": "object histories", "labels": abandoned[:5]},
                             "more than half of the operation histories could not be driven to the end",
                             info["abandoned"])
        for sig, what, rep in fails:
            ctx.fail(sig, what, rep)
        for (step, W, locks, F) in recs[:: (3 if ctx.quick else 1)]:
            lines.append(f"infretis 1 {tok_list(locks)} {tok_mat(W)}")
            meta.append((label, step, W, locks, F))
    if ctx._driver_ok and lines:
        out = ctx.driver(lines)
        for (label, step, W, locks, F), mo in zip(meta, out):
            body = mo.partition(" | ")[0]
            mt = body.split()
            ctx.hit("object_history:model-compared")
            try:
                if mt[0] != "ok":
                    ctx.disagree({"fn": "inf_retis on a state of a long-lived object", "label": label, "step": step,
                                  "W": W, "locks": locks}, "ok", body[:200])
                    continue
                Mm, _ = parse_mat_f(mt, 1)
                if np.shape(Mm) != F.shape or np.abs(F - np.array(Mm)).max() > TOL:
                    ctx.disagree({"fn": "inf_retis value on a state of a long-lived object", "label": label,
                                  "step": step, "W": W, "locks": locks}, "values differ", body[:200])
            except Exception as e:  # noqa: BLE001
                ctx.disagree({"fn": "object history: model answer unreadable", "label": label, "step": step},
                             f"{type(e).__name__}", body[:200])


def sub_functions(ctx, code, rng):
    """(c) quick_prob, find_blocks, permanent_prob, fast_glynn_perm directly against the model"""
    st = code.st
    cls = type(st)
    have = ctx._driver_ok
    q = ctx.quick
    lines, checks = [], []

    def arr(M):
        return np.array(M, dtype=float)

    # ---- quick_prob: sorted staircase blocks as inf_retis passes them (square, and rectangular with zero padding)
    for it in range(400 if q else 4000):
        m = rng.randint(1, 7)
        lasts = [max(v, k + 1) for k, v in enumerate(sorted(rng.randint(1, m) for _ in range(m)))]
        rw = [rng.choice(WSET) for _ in range(m)]      # ascending `last`: the order inf_retis sorts into
        padl, padr = rng.choice((0, 0, 1, 2)), rng.choice((0, 0, 1, 3))
        M = [[0] * padl + [rw[k] if c < lasts[k] else 0 for c in range(m)] + [0] * padr for k in range(m)]
        checks.append(("quick-block" if padl == padr == 0 else "quick", M))
    for it in range(200 if q else 1500):       # <= 2 rows: every intermediate is dyadic, any zero pattern
        r, ccols = rng.randint(1, 2), rng.randint(1, 5)
        M = [[rng.choice((0, 1, 3)) for _ in range(ccols)] for _ in range(r)]
        checks.append(("quick", M))
    # ---- find_blocks: integer logic only, arbitrary matrices
    for it in range(600 if q else 6000):
        m = rng.randint(1, 7)
        off = rng.randint(0, min(2, m))
        if it % 2:
            M = [[rng.choice((0, 1, 5)) for _ in range(m)] for _ in range(m)]
        else:
            lasts = sorted((rng.randint(1, m) for _ in range(m)), reverse=True)
            M = [[rng.choice((1, 5)) if c < lasts[k] else 0 for c in range(m)] for k in range(m)]
        checks.append(("blocks", (off, M)))
    # ---- permanent_prob / fast_glynn_perm
    checks.append(("permprob", W_MATRIX1))
    checks.append(("permprob", W_MATRIX2))
    checks.append(("glynn", W_MATRIX1))
    checks.append(("glynn", W_MATRIX2))
    for it in range(300 if q else 3000):
        m = rng.randint(1, 6)
        if it % 2:
            # dyadic entries: every float operation is exact, so singular matrices are compared too
            M = [[rng.choice((0, 0, 1, 2, 4, 8)) for _ in range(m)] for _ in range(m)]
            exact = True
        else:
            M = [[rng.choice((0,) + (WSET if m <= GLYNN_WIDE_MAX else WMILD)) for _ in range(m)] for _ in range(m)]
            for i in range(m):
                if M[i][i] == 0:
                    M[i][i] = rng.choice(WMILD)
            exact = False
        if m >= 2:      # never called with 1x1 by inf_retis (1x1 zero: code TypeError, model nan - reported)
            checks.append(("permprob", M))
        if exact or max(max(r) for r in M) <= 17:
            checks.append(("glynn", M))
    checks.append(("glynn", []))
    for kind, payload in checks:
        if kind == "blocks":
            lines.append(f"blocks {payload[0]} {tok_mat(payload[1])}")
        else:
            lines.append(f"{kind.split('-')[0]} {tok_mat(payload)}")
    out = ctx.driver(lines) if have else [None] * len(lines)
    for (kind, payload), mo in zip(checks, out):
        isblock = kind == "quick-block"
        kind = kind.split("-")[0]
        ctx.count(1, branch="sub:" + kind)
        rep = {"kind": "sub:" + kind, "arg": payload}
        try:
            if kind == "quick":
                r = np.asarray(cls.quick_prob(st, arr(payload)), dtype=float)
                cv = ("ok", r)
            elif kind == "blocks":
                off, M = payload
                r = cls.find_blocks(st, arr(M), off)
                cv = "tuple" if isinstance(r, tuple) else tok_list([f"{int(a)},{int(b)},{int(d)}" for a, b, d in r])
            elif kind == "permprob":
                r = np.asarray(cls.permanent_prob(st, arr(payload)), dtype=float)
                cv = ("nan", None) if not np.all(np.isfinite(r)) else ("ok", r)
            else:
                M = np.array(payload, dtype=float) if payload else np.zeros((0, 0))
                cv = ("val", float(cls.fast_glynn_perm(st, M)))
        except Exception as e:  # noqa: BLE001
            cv = (err_kind(e), None)
        if have:
            if kind == "blocks":
                if cv != mo:
                    ctx.disagree({"fn": "find_blocks", **rep}, cv, mo)
            elif kind == "glynn":
                if cv[0] == "val":
                    try:
                        mv = tokf(mo)
                        if abs(mv - cv[1]) > TOL * max(1.0, abs(mv)):
                            ctx.disagree({"fn": "fast_glynn_perm", **rep}, cv[1], mo)
                    except ValueError:
                        ctx.disagree({"fn": "fast_glynn_perm", **rep}, cv[1], mo)
                elif cv[0] != mo:
                    ctx.disagree({"fn": "fast_glynn_perm", **rep}, cv[0], mo)
            else:
                mt = mo.split()
                if mt[0] == "ok" and cv[0] == "ok":
                    Mm, _ = parse_mat_f(mt, 1)
                    if np.shape(Mm) != cv[1].shape or (cv[1].size and np.abs(np.array(Mm) - cv[1]).max() > TOL):
                        ctx.disagree({"fn": kind, **rep}, cv[1].tolist(), mo[:200])
                elif mt[0] != cv[0]:
                    ctx.disagree({"fn": kind, **rep}, cv[0], mo[:200])
        # property predicates on the code paths themselves (independent of the model)
        if kind == "glynn" and payload and cv[0] == "val":
            perm, _ = minors_perm(payload)
            if abs(cv[1] - perm) > TOL * max(1.0, abs(perm)):
                ctx.fail("C02:glynn-ne-permanent", f"fast_glynn_perm={cv[1]!r}, permanent={perm}", rep)
        if kind == "permprob" and len(payload) >= 2:
            want = oracle(payload, [0] * len(payload))
            if want is not None:
                if cv[0] != "ok":
                    ctx.fail("C02:permanent-prob-ne-ratio", f"permanent_prob gives {cv[0]} on a matrix with perm>0", rep)
                else:
                    Wf = np.array([[float(x) for x in r] for r in want])
                    if np.abs(Wf - cv[1]).max() > TOL:
                        ctx.fail("C02:permanent-prob-ne-ratio", "permanent_prob differs from W_ij*perm(minor)/perm(W)", rep)
        if kind == "quick" and cv[0] == "ok":
            M = payload
            if isblock and len(M) >= 2:
                # square sorted row-constant block: quick == permanent ratio == permanent_prob
                want = oracle(M, [0] * len(M))
                if want is not None:
                    Wf = np.array([[float(x) for x in r] for r in want])
                    if np.abs(Wf - cv[1]).max() > TOL:
                        ctx.fail("C02:quick-prob-ne-ratio", "quick_prob differs from the permanent ratios on a row-constant block", rep)
                    try:
                        pp = np.asarray(cls.permanent_prob(st, arr(M)), dtype=float)
                        bad = (not np.all(np.isfinite(pp))) or np.abs(pp - cv[1]).max() > TOL
                    except Exception:  # noqa: BLE001
                        bad = True
                    if bad:
                        ctx.fail("C02:paths-disagree:quick-vs-permanent", "quick_prob and permanent_prob differ on a row-constant block", rep)


def tie_sensitive(off, W, locks):
    """two idle rows of the same part (minus / plus) have the same argsort key but differ: the code's result
    may then depend on numpy's (unspecified, here unstable) tie order, the model sorts stably"""
    idle = [i for i in range(len(W)) if not locks[i]]
    offset = off - sum(locks[:off])
    seen = {}
    for a, i in enumerate(idle):
        row = tuple(W[i][j] for j in idle)
        pos = [x > 0 for x in row]
        if a < offset:
            key = ("m", pos.index(True) if True in pos else 0)
        else:
            rp = pos[::-1]
            key = ("p", rp.index(True) if True in rp else 0)
        if seen.setdefault(key, row) != row:
            return True
    return False


def malformed(ctx, code, rng):
    """(d) out-of-family matrices: only ok / error kind compared with the model (no property claim)"""
    cases = []
    q = ctx.quick
    for n in (1, 2, 3, 5):
        for off in (0, 1):
            cases.append({"off": off, "W": [[1] * n for _ in range(n)], "locks": [1] * n})      # everything locked
    # every 2x2 matrix over {0,1,2} x locks x off; every (thorough) / sampled (quick) 3x3 0/1 matrix
    for ent in itertools.product((0, 1, 2), repeat=4):
        for lk in ((0, 0), (0, 1), (1, 0)):
            for off in (0, 1, 2):
                cases.append({"off": off, "W": [list(ent[:2]), list(ent[2:])], "locks": list(lk)})
    all3 = list(itertools.product((0, 1), repeat=9))
    pick3 = rng.sample(all3, 120) if q else all3
    for ent in pick3:
        for lk in ((0, 0, 0), (0, 0, 1), (1, 0, 0), (0, 1, 0)):
            for off in (0, 1):
                cases.append({"off": off, "W": [list(ent[0:3]), list(ent[3:6]), list(ent[6:9])], "locks": list(lk)})
    for it in range(500 if q else 6000):
        m = rng.randint(2, 4)
        off = rng.choice((0, 1, 1, 1))
        lasts = [max(v, k + 1) for k, v in enumerate(sorted(rng.randint(1, m) for _ in range(m)))]
        seq = random_valid(rng, lasts)
        mode = rng.choice(("01", "rowconst", "free"))
        W = build(off, seq, weight_fun(rng, mode, m, (1, 2, 3)), wminus=rng.choice((1, 2, 3)))
        n = len(W)
        lk = random_locks(rng, off + m, True, rng.choice((0.0, 0.3)))
        how = it % 6
        if how == 0:      # a zero row for an idle path
            r = rng.randrange(n - 1)
            W[r] = [0] * n
            lk[r] = 0
        elif how == 1:    # a hole in a staircase
            r, cc = rng.randrange(off, n - 1), rng.randrange(off, n - 1)
            W[r][cc] = 0
        elif how == 2:    # ghost left unlocked
            lk[-1] = 0
        elif how == 3:    # minus path with weight in a plus ensemble / plus path with weight in [0-]
            r, cc = rng.randrange(n - 1), rng.randrange(n - 1)
            W[r][cc] = rng.choice((1, 2))
        elif how == 4:    # arbitrary zero pattern
            W = [[rng.choice((0, 1, 1, 2, 3)) for _ in range(n)] for _ in range(n)]
        else:             # slot order that violates W[s][s] > 0
            body = W[off:n - 1]
            rng.shuffle(body)
            W = W[:off] + body + W[n - 1:]
        cases.append({"off": off, "W": W, "locks": lk})
    res = [code.inf(c["off"], c["W"], c["locks"]) for c in cases]
    if not ctx._driver_ok:
        for _ in cases:
            ctx.count(1, branch="malformed")
        return
    out = ctx.driver([f"infretis {c['off']} {tok_list(c['locks'])} {tok_mat(c['W'])}" for c in cases])
    tie_cases = []
    for c, r, mo in zip(cases, res, out):
        kind, P, cbr = r[0], r[1], r[2]
        body, _, brs = mo.partition(" | ")
        mt = body.split()
        mkind = mt[0] if mt[0] in ("ok", "mc") else body.strip()
        ctx.count(1, branch="malformed:" + mkind)
        rep = {"kind": "malformed", "off": c["off"], "W": c["W"], "locks": c["locks"]}
        if tie_sensitive(c["off"], c["W"], c["locks"]):
            # audit pass: no longer skipped - the model is run with the code's own argsort results (below)
            tie_cases.append(c)
            continue
        ctx.hit("malformed:compared")
        if mkind != kind:
            if kind == "ok" and mkind == "err:assert":
                # np.allclose (rtol 1e-5) in the code vs exact sums in the model: only a disagreement if the
                # code's matrix is doubly stochastic far beyond that tolerance
                Pf = np.asarray(P, dtype=float)
                idle = np.array(c["locks"]) == 0
                blk = Pf[idle][:, idle]
                dev = max(np.abs(blk.sum(axis=0) - 1).max(), np.abs(blk.sum(axis=1) - 1).max())
                if dev > 1e-12:
                    ctx.hit("malformed:allclose-tolerance-not-compared")
                    continue
            ctx.disagree({"fn": "inf_retis kind (malformed)", **rep}, kind, body[:200])
        elif kind == "ok":
            Mm, _ = parse_mat_f(mt, 1)
            if np.shape(Mm) != np.shape(P) or np.abs(np.asarray(P, dtype=float) - np.array(Mm)).max() > TOL:
                ctx.disagree({"fn": "inf_retis value (malformed)", **rep}, "values differ", body[:200])


    # two different idle rows share an argsort key: the code's outcome depends on numpy's tie order, so the model
    # is run with the argsort results the code really got (Infretis.Perm.infRetisGiven, driver op `given`)
    from props import c02_ext as X
    recs = [X.code_prep(c["W"], c["locks"], c["off"]) for c in tie_cases]
    lines = [X.given_line(c, rec["sorts"][0][1], rec["sorts"][1][1]) if len(rec["sorts"]) >= 2 else "noop"
             for c, rec in zip(tie_cases, recs)]
    out2 = ctx.driver(lines) if lines else []
    for c, rec, mo in zip(tie_cases, recs, out2):
        rep = {"kind": "malformed", "off": c["off"], "W": c["W"], "locks": c["locks"]}
        if len(rec["sorts"]) < 2:
            ctx.hit("malformed:tie-case-raised-before-argsort-not-compared")
            continue
        ctx.hit("malformed:tie-case-compared-with-code-order")
        X.compare_given(ctx, rep, rec, X.parse_given(mo), "malformed")


def corpus_cases():
    d = CORPUS / "C02"
    out = []
    if d.exists():
        for f in sorted(d.glob("*.json")):
            try:
                o = json.loads(f.read_text())
            except Exception:  # noqa: BLE001
                continue
            for c in (o if isinstance(o, list) else [o]):
                c = c.get("replay", c)
                if "W" in c and "locks" in c:
                    out.append({"kind": "corpus", "off": int(c.get("off", 1)), "W": c["W"], "locks": c["locks"],
                                **({"rescale": tuple(c["rescale"])} if "rescale" in c else {}), "cross": True})
    return out


def _run_core(ctx):
    rng = ctx.rng
    ctx.rule = ("a case = (offset, weight matrix, lock vector); distinct by exactly that triple. In-family cases: "
                "staircase `last` vector (Hall: sorted last[k] >= k+1) x assignment of rows to slots with W[s][s] > 0 "
                "x lock subset of the non-ghost slots (ghost always locked, never all locked) x weights "
                "(0/1, one weight per row, or free per entry, from {1,2,3,5,17,1000}). Every in-family case counts as "
                "non-trivial (its idle block has perm > 0 and is checked entry-wise against the permanent ratios).")
    ctx.exhaustive = False
    with warnings.catch_warnings(), np.errstate(all="ignore"):
        warnings.simplefilter("ignore")
        code = Code()
        t0 = ctx.elapsed()
        # corpus first
        cc = corpus_cases()
        if cc:
            evaluate_family(ctx, code, cc, "corpus")
        ex, max_full = gen_exhaustive(ctx, rng)
        evaluate_family(ctx, code, ex, "staircase01")
        t1 = ctx.elapsed()
        wt, mc = gen_weighted(ctx, rng)
        evaluate_family(ctx, code, wt, "weighted")
        evaluate_family(ctx, code, mc, "monte-carlo-decision")
        bd, bmc = gen_boundary(ctx, rng)
        evaluate_family(ctx, code, bd, "boundary")
        evaluate_family(ctx, code, bmc, "boundary-monte-carlo-decision")
        ctx.extra["boundary_cases"] = sorted({c["kind"] for c in bd + bmc})
        t2 = ctx.elapsed()
        try:
            sub_functions(ctx, code, rng)
        except Exception as e:  # noqa: BLE001  (never let a harness error hide the verdicts above)
            ctx.disagree({"fn": "sub_functions section could not be completed"}, f"{type(e).__name__}: {e}", "")
        ill = predicate(code, ILL_CONDITIONED, full=False)
        ctx.extra["ill_conditioned_witness"] = {"fails_now": [list(f) for f in ill], "reported": REPORT_ILL_CONDITIONED}
        if ill and REPORT_ILL_CONDITIONED:
            ctx.fail("C02:glynn-cancellation-ill-conditioned",
                     "rounding in fast_glynn_perm: " + ill[0][1], {k: v for k, v in ILL_CONDITIONED.items()})
        t3 = ctx.elapsed()
        try:
            malformed(ctx, code, rng)
        except Exception as e:  # noqa: BLE001
            ctx.disagree({"fn": "malformed section could not be completed"}, f"{type(e).__name__}: {e}", "")
        t4 = ctx.elapsed()
    ctx.extra["exhaustive_part"] = (
        f"0/1 weights, offset 1 (with [0-]): every staircase with 1..{max_full} plus ensembles x every lock subset of the "
        f"non-ghost slots (not all locked) x slot orders (every distinct valid order for <= 4 plus ensembles; sorted, "
        f"reversed-if-valid and 2 random valid orders beyond); offset 0: the same up to 4 plus ensembles; larger sizes "
        f"(up to 6) with sampled lock subsets")
    ctx.extra["cases"] = {"staircase01": len(ex), "weighted": len(wt), "monte_carlo_decisions": len(mc), "corpus": len(cc)}
    ctx.extra["observed_max_abs_error"] = {k: float(f"{v:.3e}") for k, v in STATS.items()}
    ctx.extra["timing_s"] = {"staircase01": round(t1 - t0, 2), "weighted": round(t2 - t1, 2),
                             "sub_functions": round(t3 - t2, 2), "malformed": round(t4 - t3, 2)}
    ctx.assumptions += [
        "np.argsort tie order is unspecified (numpy default sort is not stable: on this machine ~6 % of 8-ensemble "
        "states with free weights are sorted into another row order than the model's stable sort); assumed is only that "
        "each argsort call returns a permutation that sorts its keys (checked on every logged call); the pipeline "
        "theorems hold for every such result (infRetis_any_tie_order*), and the tie runs the model with the code's own "
        "argsort results (driver op `given`)",
        "longdouble rounding not modelled; tolerance 1e-9",
        "Monte-Carlo branch (non-row-constant blocks > 12) outside exactness: only the branch decision is checked",
        "exactness theorems are over Rat; float cancellation inside fast_glynn_perm/permanent_prob (longdouble) is "
        "outside the model; one fixed ill-conditioned witness is evaluated each run as known finding",
        "malformed (out-of-family) inputs in which two different idle rows share an argsort key (the code's outcome "
        "then depends on numpy's tie order) are compared through Infretis.Perm.infRetisGiven with the argsort results "
        "the code really got",
        "np.allclose(…, 1) (rtol 1e-5) is modelled as exact equality with 1; on malformed inputs an ok/err:assert "
        "difference is only reported when the code's matrix is doubly stochastic to 1e-12",
        "weights are integers (exact in float64 and as Lean rationals); conditioning: non-row-constant (glynn) blocks "
        "larger than 5 get free weights from {1,2,3,5,17} only, the full set {1,2,3,5,17,1000} is used for glynn blocks "
        "<= 5 and for every row-constant case. Reason: fast_glynn_perm cancels catastrophically for dynamic range 1000 "
        "(witness ILL_CONDITIONED in c02.py: 9 plus ensembles, one path (1,..,1), eight paths (1000,1,..,1) -> "
        "AssertionError inside inf_retis; 8 ensembles -> error 5.8e-7); that is rounding, outside the model",
        "object state / call history is tie-only: the Lean model is a pure function of (offset, W, locks), so "
        "`one long-lived REPEX_state over many inputs`, `several REPEX_state objects alive at once`, `prob` read "
        "between mutators (add_traj, swap+lock, pick, pick_traj_ens, pick_lock re-issue, sort_trajstate) and input "
        "purity of inf_retis/prob are established by comparing the long-lived object with a fresh object, with the "
        "exact permanent ratios and with the model on the current (|state|, locks); a bare swap() is not an "
        "invalidation point of the cache in the code (it is always followed by lock()), so `prob` is read after "
        "swap+lock, not between them; that `prob` returns the cache array itself (no copy) is not claimed either way",
        "boundary weights: tiny positive weights (5e-324, 2^-1000, 1e-300) only as whole rows or with row-constant "
        "rows (no products of tiny numbers are formed by the code then), last-bit differences at weight 3.0; these "
        "are floats, passed to Lean as exact rationals",
        "a sampler operation that does not return inside an operation history (sort_trajstate after wrong picks) "
        "abandons that history after 20 s (counted in the histogram); termination is property C05's claim",
        "the Python oracle (exact integer subset-DP permanents) is compared token-for-token with the Lean "
        "specification probMatrix on every case with an idle block <= 4 and on a capped sample of 5..7; for idle blocks "
        "5..8 the Lean permC of the idle block and of one random minor is compared with the oracle's integers",
    ]


def replay(ctx, obj):
    """re-run one recorded failing input on the current implementation: 1 = still failing"""
    r = obj.get("replay", obj)
    if "W" not in r and "arg" not in r and r.get("kind") not in ("objhist", "randprob", "cachehist"):
        # a `no-failing-input-found` record (broken proof obligation / correspondence): nothing to re-run on the code
        print(json.dumps(obj, indent=1, default=str)[:4000])
        return 1
    with warnings.catch_warnings(), np.errstate(all="ignore"):
        warnings.simplefilter("ignore")
        code = Code()
        kind = r.get("kind", "")
        if kind in ("randprob", "cachehist"):
            from props import c02_ext
            return c02_ext.replay_ext(ctx, r)
        if kind == "objhist":
            fails, _recs, _info = object_history(r["label"], 160)
            for sig, what, _rep in fails:
                print(sig, "-", what)
            if not fails:
                print("the recorded operation history passes now")
            return 1 if fails else 0
        if kind.startswith("sub:"):
            c = common_ctx_stub()
            _replay_sub(c, code, kind[4:], r["arg"])
            for f in c.fails:
                print(f["signature"], "-", f["what"])
            return 1 if c.fails else 0
        case = {"off": int(r.get("off", 1)), "W": r["W"], "locks": r["locks"], "cross": True}
        if "rescale" in r:
            case["rescale"] = tuple(r["rescale"])
        fails = predicate(code, case)
        for sig, what in fails:
            print(sig, "-", what)
        if not fails:
            print("property holds on this input now")
        return 1 if fails else 0


class _Stub:
    """minimal ctx for re-evaluating one sub-function case"""

    def __init__(self):
        self.fails = []
        self._driver_ok = False
        self.quick = True

    def count(self, *a, **k):
        pass

    def fail(self, sig, what, rep):
        self.fails.append({"signature": sig, "what": what})

    def disagree(self, *a, **k):
        pass


def common_ctx_stub():
    return _Stub()


def _replay_sub(c, code, kind, payload):
    """the predicates of sub_functions() on exactly one recorded case"""
    st = code.st
    cls = type(st)
    rep = {"kind": "sub:" + kind, "arg": payload}
    a = np.array(payload, dtype=float) if payload else np.zeros((0, 0))
    try:
        if kind == "glynn":
            v = float(cls.fast_glynn_perm(st, a))
            perm, _ = minors_perm(payload)
            if abs(v - perm) > TOL * max(1.0, abs(perm)):
                c.fail("C02:glynn-ne-permanent", f"fast_glynn_perm={v!r}, permanent={perm}", rep)
        elif kind == "permprob":
            want = oracle(payload, [0] * len(payload))
            r = np.asarray(cls.permanent_prob(st, a), dtype=float)
            Wf = np.array([[float(x) for x in row] for row in want])
            if not np.all(np.isfinite(r)) or np.abs(Wf - r).max() > TOL:
                c.fail("C02:permanent-prob-ne-ratio", "permanent_prob differs from W_ij*perm(minor)/perm(W)", rep)
        elif kind == "quick":
            want = oracle(payload, [0] * len(payload))
            r = np.asarray(cls.quick_prob(st, a), dtype=float)
            Wf = np.array([[float(x) for x in row] for row in want])
            if np.abs(Wf - r).max() > TOL:
                c.fail("C02:quick-prob-ne-ratio", "quick_prob differs from the permanent ratios on a row-constant block", rep)
            pp = np.asarray(cls.permanent_prob(st, a), dtype=float)
            if not np.all(np.isfinite(pp)) or np.abs(pp - r).max() > TOL:
                c.fail("C02:paths-disagree:quick-vs-permanent", "quick_prob and permanent_prob differ", rep)
    except Exception as e:  # noqa: BLE001
        c.fail("C02:sub-exception", f"{kind} raised {err_kind(e)}", rep)



def _cache_coherence(ctx):
    """`REPEX_state.prob` caches the matrix in `_last_prob`; it must be invalidated by every lock, unlock,
    swap-affecting add: along real multi-worker histories the cached matrix must equal a fresh
    `inf_retis(abs(state), locks)` after every operation (C02 anchors: `_last_prob`)."""
    import random
    import repex_tie as T
    n_hist = 10 if ctx.quick else 80
    for k in range(n_hist):
        n_ens = 4 + k % 4
        workers = 2 + k % max(1, n_ens - 2)
        workers = min(workers, n_ens - 1)
        label = f"cache n_ens={n_ens} workers={workers} k={k} ctxseed={ctx.seed}"
        cwd0 = os.getcwd()
        try:
            sim = _bounded(lambda: T.run_history(ctx, n_ens, workers, 25, seed=k % 3, wf=bool(k % 2),
                                                 rng=random.Random(label), rich_init=True), 20)
        except _Hang:
            # a sampler operation (e.g. sort_trajstate on a state reached through wrong picks) does not return:
            # termination is not this property's claim and P itself is judged elsewhere - abandon the history,
            # but never hang the check
            tmp = os.getcwd()
            os.chdir(cwd0)
            if tmp.startswith("/var/tmp/vp-repex-"):
                shutil.rmtree(tmp, ignore_errors=True)
            ctx.hit("cache_coherence:history-did-not-terminate-abandoned")
            ctx.extra.setdefault("cache_histories_abandoned", []).append(label)
            if len(ctx.extra["cache_histories_abandoned"]) >= 3:
                break
            continue
        for idx, (tag, d, held) in enumerate(sim.snaps):
            ctx.count(1, branch="cache_coherence")
            if d.get("_prob_stale") not in ("0", None):
                ctx.fail("C02:cached-prob-stale",
                         f"after {tag} (snapshot {idx}) the cached probability matrix differs from inf_retis on the current "
                         f"state/locks ({d.get('_prob_stale')}): locks {d['locks']}",
                         {"history": label, "snapshot": idx, "locks": d["locks"], "W": d["W"]})
                break


def run(ctx):
    _run_core(ctx)
    with warnings.catch_warnings(), np.errstate(all="ignore"):
        warnings.simplefilter("ignore")
        _object_state(ctx)
    _cache_coherence(ctx)
    # extension pass: intermediate values of inf_retis, random_prob with scripted draws, the `_last_prob` state
    # machine, hole-vector witnesses (props/c02_ext.py)
    from props import c02_ext
    try:
        c02_ext.run_ext(ctx)
    except Exception as e:  # noqa: BLE001  (never let a harness error hide the verdicts above)
        import traceback
        ctx.disagree({"fn": "extension sections could not be completed"}, f"{type(e).__name__}: {e}",
                     traceback.format_exc(limit=-3)[-400:])
