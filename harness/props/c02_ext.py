"""C02 extension pass: three more pieces of repex.py inside the Lean model, tied here.

 (1) intermediate values of `inf_retis` (`prep`): the offset, the keys and the results of the two `np.argsort`
     calls, the equal-weight decision, the block list of `find_blocks` and the routine used per block, compared
     with Infretis.Perm.prepare / keysMinus / keysPlus / findBlocks / branchOf (driver op `prep`, `infretis`).
 (2) `random_prob` with scripted draws (`randprob`): the real routine runs with a generator object that replays a
     script and records every request; compared with Infretis.PermRandom.randomProb / requests; predicates
     (independent of the model): rows and columns sum to 1, exact zero where the weight is zero, every entry a
     multiple of 1/(n+1).
 (3) the `prob` property and `_last_prob` (`cache`): operation histories (getter, lock, unlock, pick's read-swap-
     lock, add_traj, sort_trajstate, print_state, and a bare swap) on a real REPEX_state against
     Infretis.PermCache.trace: after every operation `_last_prob is None`, the locks, the cached matrix and every
     matrix handed out; predicate: a matrix handed out equals `inf_retis(abs(state), locks)` of a fresh object.
 (4) the two hole-vector witnesses of Props/C02 §11 (outside the family of C02's statement): code vs model only,
     the outcome is recorded in the evidence (`PENDING_FINDINGS`).
"""
from __future__ import annotations

import contextlib
import io
import logging
import random
from fractions import Fraction

import numpy as np

from common import err_kind

TOL = 1e-9
WP2 = (1, 2, 4, 8, 16, 1024)         # power-of-two weights: every quotient and product in random_prob is exact
WMILD = (1, 2, 3, 5, 17)             # with uniform numbers on the grid odd/64 no comparison r < p is within 5e-5
PENDING_FINDINGS = ["C02:hole-vector:silently-wrong-matrix"]
HOLE_WITNESSES = [
    {"name": "hole-01-equal-branch", "off": 1, "locks": [0, 0, 0, 0, 1],
     "W": [[1, 0, 0, 0, 0], [0, 1, 0, 1, 0], [0, 1, 1, 0, 0], [0, 1, 1, 1, 0], [0, 0, 0, 0, 0]]},
    {"name": "hole-weighted-find-blocks", "off": 1, "locks": [0, 0, 0, 0, 1],
     "W": [[1, 0, 0, 0, 0], [0, 2, 0, 3, 0], [0, 1, 1, 0, 0], [0, 1, 5, 1, 0], [0, 0, 0, 0, 0]]},
]
ASSUMPTIONS = [
    "extension (1): np.argsort is only assumed to return `a permutation that sorts the logged keys` (checked on every "
    "logged call, in Python and by the model's sortsB): the model is run with the code's OWN argsort results "
    "(Infretis.Perm.infRetisGiven, driver op `given`) and compared in full - result, equal-weight decision, sorted "
    "matrix, block list, routine per block - also on ties and outside the family; the permutation is compared with "
    "the model's stable one only when the keys are pairwise different",
    "extension (2): random_prob runs with a scripted generator object (choice / random only); weights are powers of "
    "two (all float operations exact) or from {1,2,3,5,17} with uniform numbers k/64, k odd (no acceptance test "
    "closer than 5e-5 to equality); longdouble accumulation of 0/1 matrices and one division are exact to 1e-15",
    "extension (2): `current_state` is represented in the model by temp[0] (the path per column); both are swapped "
    "identically in the code",
    "extension (3): print_state's use of the matrix is observed through `_last_prob` before/after only; the model "
    "caches the marker monteCarlo for blocks > 12 (histories here stay <= 8 ensembles)",
    "extension (4): hole vectors are outside the staircase family of C02's statement; the witnesses are evaluated "
    "code-vs-model and recorded, not reported as violations (open C05 finding)",
]


def tok_mat(M):
    parts = [str(len(M))]
    for r in M:
        parts.append(str(len(r)))
        parts.extend(tok_num(x) for x in r)
    return " ".join(parts)


def tok_num(x):
    if isinstance(x, (int, np.integer)):
        return str(int(x))
    q = Fraction(x)
    return str(q.numerator) if q.denominator == 1 else f"{q.numerator}/{q.denominator}"


def tok_list(xs):
    return " ".join([str(len(xs))] + [str(x) for x in xs])


_fc = {}


def tokf(t):
    v = _fc.get(t)
    if v is None:
        if "/" in t:
            a, b = t.split("/")
            v = int(a) / int(b)
        else:
            v = float(int(t))
        if len(_fc) < 200000:
            _fc[t] = v
    return v


def parse_mat(toks, pos=0):
    R = int(toks[pos])
    pos += 1
    M = []
    for _ in range(R):
        k = int(toks[pos])
        M.append([tokf(t) for t in toks[pos + 1: pos + 1 + k]])
        pos += 1 + k
    return M, pos


def parse_list(toks, pos=0):
    k = int(toks[pos])
    return [int(t) for t in toks[pos + 1: pos + 1 + k]], pos + 1 + k


def _new_state(size=3):
    import importlib.util  # noqa: F401
    from infretis.classes.repex import REPEX_state
    st = REPEX_state({"current": {"size": size}, "runner": {"workers": 1}, "simulation": {"seed": 0}}, minus=True)
    st.rgen = np.random.default_rng(0)
    return st


# ------------------------------------------------------------------------------------------------ (1) prep
class _NpProxy:
    """stands in for the module global `np` of repex.py while inf_retis runs: logs argsort, delegates the rest"""

    def __init__(self, log):
        self._log = log

    def __getattr__(self, name):
        return getattr(np, name)

    def argsort(self, a, *args, **kw):
        r = np.argsort(a, *args, **kw)
        self._log.append(([int(x) for x in np.asarray(a).tolist()], [int(x) for x in np.asarray(r).tolist()]))
        return r


def code_prep(W, locks, off):
    """run the real inf_retis; -> dict(kind, sorts, blocks, calls, find_offset)"""
    import infretis.classes.repex as R
    st = _new_state()
    st.n = len(W)
    st._offset = off
    cls = type(st)
    rec = {"sorts": [], "blocks": None, "calls": [], "find_offset": None}

    def find_blocks(arr, offset):
        r = cls.find_blocks(st, arr, offset)
        rec["blocks"] = r
        rec["find_offset"] = int(offset)
        rec["sorted"] = np.array(arr, dtype=float)
        return r

    def mk(name):
        def f(arr, *a, **k):
            rec["calls"].append((name, len(arr)))
            if name == "random_prob":
                rec.setdefault("random_args", []).append(np.array(arr, dtype=float))
            return getattr(cls, name)(st, arr, *a, **k)
        return f
    st.find_blocks = find_blocks
    for nm in ("quick_prob", "permanent_prob", "random_prob"):
        setattr(st, nm, mk(nm))
    old = R.np
    R.np = _NpProxy(rec["sorts"])
    try:
        with contextlib.redirect_stdout(io.StringIO()):
            P = st.inf_retis(np.array(W, dtype=float), np.array(locks, dtype=float))
        rec["kind"] = "ok"
        rec["P"] = np.asarray(P, dtype=float)
    except Exception as e:  # noqa: BLE001
        rec["kind"] = err_kind(e)
    finally:
        R.np = old
    return rec


def _branches_of(rec):
    if rec["blocks"] is None:
        return ["equal"] if rec["calls"] else None
    if isinstance(rec["blocks"], tuple):
        return ["single-tuple"]
    out, pos = [], 0
    for (a, b, _d) in rec["blocks"]:
        if int(b) - int(a) == 1:
            out.append("single")
        elif pos < len(rec["calls"]):
            out.append({"quick_prob": "quick", "permanent_prob": "glynn", "random_prob": "random"}[rec["calls"][pos][0]])
            pos += 1
        else:
            out.append("?")
    return out


def gen_prep_cases(rng, quick):
    from props import c02 as B
    cases = []
    nfam = 500 if quick else 6000
    for _ in range(nfam):
        m = rng.choice((1, 2, 3, 3, 4, 4, 5, 6, 7))
        lasts = sorted(rng.randint(k + 1, m) for k in range(m))
        for k in range(m):
            lasts[k] = max(lasts[k], k + 1)
        lasts = sorted(lasts)
        seq = B.random_valid(rng, lasts)
        mode = rng.choice(("01", "rowconst", "free", "free"))
        off = 1 if rng.random() < 0.9 else 0
        W = B.build(off, seq, B.weight_fun(rng, mode, m, B.WMILD if m > 5 else B.WSET), wminus=rng.choice(B.WSET))
        locks = B.random_locks(rng, off + m, True, rng.choice((0.0, 0.2, 0.5)))
        cases.append({"kind": "family", "off": off, "W": W, "locks": locks})
    # audit pass: many live paths that END AT THE SAME ENSEMBLE with DIFFERENT weights (argsort ties between
    # different rows) and 8..11 plus ensembles, where numpy's default argsort really leaves the stable order
    for _ in range(110 if quick else 1200):
        m = rng.choice((8, 8, 8, 9) if quick else (8, 8, 9, 9, 10))
        nd = rng.choice((1, 2, 2, 3))
        vals = sorted(rng.sample(range(1, m + 1), nd) + [m])
        lasts = sorted(rng.choice(vals) for _k in range(m))
        lasts = [max(v, k + 1) for k, v in enumerate(lasts)]
        seq = B.random_valid(rng, lasts)
        mode = rng.choice(("free", "free", "rowconst"))
        W = B.build(1, seq, B.weight_fun(rng, mode, m, B.WMILD), wminus=rng.choice(B.WSET))
        locks = B.random_locks(rng, 1 + m, True, rng.choice((0.0, 0.0, 0.1)))
        cases.append({"kind": "family-ties", "off": 1, "W": W, "locks": locks})
    # blocks of 13/14 free rows: the Monte-Carlo decision and the argument handed to random_prob
    for _ in range(3 if quick else 25):
        m = rng.choice((13, 14, 15))
        lasts = [m] * m
        k0 = rng.randint(0, 2)
        for k in range(k0):
            lasts[k] = k + 1
        W = B.build(1, tuple(lasts), B.weight_fun(rng, "free", m, WP2), wminus=1)
        cases.append({"kind": "family-mc", "off": 1, "W": W, "locks": [0] * (m + 1) + [1]})
    # outside the family: random 0/weight matrices (holes, zero diagonals) — code vs model only
    nout = 250 if quick else 3000
    for _ in range(nout):
        m = rng.choice((2, 3, 3, 4, 4, 5))
        off = rng.choice((0, 1, 1, 1))
        n = off + m + 1
        W = [[0] * n for _ in range(n)]
        if off:
            W[0][0] = rng.choice((1, 2, 3))
        for r in range(off, off + m):
            for c in range(off, off + m):
                W[r][c] = rng.choice((0, 0, 1, 1, 2, 5)) if rng.random() < 0.8 else 0
            if not any(W[r]):
                W[r][rng.randrange(off, off + m)] = 1
        locks = B.random_locks(rng, off + m, True, rng.choice((0.0, 0.3)))
        cases.append({"kind": "outside", "off": off, "W": W, "locks": locks})
    return cases


def _tie_sensitive(rec, keys_model):
    return any(len(set(k)) != len(k) for k in keys_model)


def given_line(c, r1, r2):
    return f"given {c['off']} {tok_list(c['locks'])} {tok_mat(c['W'])} {tok_list(r1)} {tok_list(r2)}"


def parse_given(line):
    """driver answer of `given` -> dict(res, offset, m, sort_idx, equal, blocks, sorts, branches, sorted)"""
    f = [x.strip() for x in line.split(" | ")]
    d = {"res": f[0], "empty": f[1] == "empty"}
    if not d["empty"]:
        d["offset"], d["m"] = (int(x) for x in f[1].split())
        d["sort_idx"], _ = parse_list(f[2].split())
        d["equal"] = f[3] == "1"
        d["blocks"] = f[4]
    d["sorts"] = f[5].split()
    d["branches"] = f[6].split()[1:]
    d["sorted"] = parse_mat(f[7].split())[0] if not d["empty"] else []
    return d


def compare_given(ctx, rep, rec, g, what="given"):
    """the real inf_retis (record `rec` of code_prep) against the model run with the code's OWN argsort results:
    no tie-order caveat, so everything is compared - kind, matrix, equal-weight decision, sorted matrix handed to
    find_blocks, block list, routine per block.  -> True if comparable and equal"""
    if g["sorts"] != ["1", "1"]:
        ctx.disagree({"fn": what + ": model says the logged argsort result does not sort its keys", **rep},
                     [r for (_k, r) in rec["sorts"][:2]], g["sorts"])
        return False
    mt = g["res"].split()
    mkind = mt[0] if mt[0] in ("ok", "mc") else g["res"].strip()
    ckind = rec["kind"]
    if ckind == "ok" and any(nm == "random_prob" for nm, _ in rec["calls"]):
        ckind = "mc"
    if mkind != ckind:
        if ckind == "ok" and mkind == "err:assert":
            P = rec["P"]
            idle = np.array(rep["locks"]) == 0
            blk = P[idle][:, idle]
            dev = max(np.abs(blk.sum(axis=0) - 1).max(), np.abs(blk.sum(axis=1) - 1).max())
            if dev > 1e-12:
                ctx.hit(what + ":allclose-tolerance-not-compared")
                return False
        ctx.disagree({"fn": what + ": inf_retis kind with the code's argsort results", **rep}, ckind, g["res"][:200])
        return False
    ok = True
    if ckind == "ok":
        Mm, _ = parse_mat(mt, 1)
        if np.shape(Mm) != rec["P"].shape or np.abs(np.array(Mm) - rec["P"]).max() > TOL:
            ctx.disagree({"fn": what + ": inf_retis value with the code's argsort results", **rep},
                         "values differ", g["res"][:200])
            ok = False
    elif ckind == "mc":
        if sorted(int(x) for x in mt[2:]) != sorted(n for nm, n in rec["calls"] if nm == "random_prob"):
            ctx.disagree({"fn": what + ": Monte-Carlo blocks", **rep},
                         [n for nm, n in rec["calls"] if nm == "random_prob"], g["res"][:100])
            ok = False
    if ckind in ("ok", "mc") and not g["empty"]:
        code_equal = rec["blocks"] is None
        if code_equal != g["equal"]:
            ctx.disagree({"fn": what + ": equal-weight decision", **rep}, code_equal, g["equal"])
            return False
        if not code_equal:
            cb = "tuple" if isinstance(rec["blocks"], tuple) else \
                tok_list([f"{int(a)},{int(b)},{int(d)}" for (a, b, d) in rec["blocks"]])
            if rec["find_offset"] != g["offset"]:
                ctx.disagree({"fn": what + ": offset", **rep}, rec["find_offset"], g["offset"])
                ok = False
            if cb != g["blocks"]:
                ctx.disagree({"fn": what + ": find_blocks", **rep}, cb, g["blocks"])
                ok = False
            S = rec.get("sorted")
            if S is not None and (np.shape(S) != np.shape(g["sorted"]) or not np.array_equal(S, np.array(g["sorted"]))):
                ctx.disagree({"fn": what + ": sorted matrix handed to find_blocks", **rep}, S.tolist(), g["sorted"])
                ok = False
        cbr = _branches_of(rec)
        if cbr is not None and "?" not in cbr and cbr != g["branches"]:
            ctx.disagree({"fn": what + ": routine per block", **rep}, cbr, g["branches"])
            ok = False
    return ok


def prep_tie(ctx, rng):
    cases = gen_prep_cases(rng, ctx.quick)
    recs = [code_prep(c["W"], c["locks"], c["off"]) for c in cases]
    if not ctx._driver_ok:
        return
    lines = []
    for c, rec in zip(cases, recs):
        lines.append(f"prep {c['off']} {tok_list(c['locks'])} {tok_mat(c['W'])}")
        lines.append(f"infretis {c['off']} {tok_list(c['locks'])} {tok_mat(c['W'])}")
        if len(rec["sorts"]) >= 2:
            lines.append(given_line(c, rec["sorts"][0][1], rec["sorts"][1][1]))
        else:
            lines.append("noop")
    out = ctx.driver(lines)
    mc_args = []
    for k, (c, rec) in enumerate(zip(cases, recs)):
        rep = {"kind": "prep:" + c["kind"], "off": c["off"], "W": c["W"], "locks": c["locks"]}
        pm = out[3 * k]
        body, _, brs = out[3 * k + 1].partition(" | ")
        mbr = brs.split()[1:]
        ctx.count(1, branch="prep:" + c["kind"])
        if pm == "empty":
            continue
        f = [x.strip() for x in pm.split(" | ")]
        offset, m = (int(x) for x in f[0].split())
        sort_idx, _ = parse_list(f[1].split())
        km, _ = parse_list(f[4].split())
        kp, _ = parse_list(f[5].split())
        sorts = rec["sorts"]
        if len(sorts) < 2:
            if rec["kind"] == "ok":
                ctx.disagree({"fn": "prep: argsort calls", **rep}, f"{len(sorts)} argsort calls", pm[:200])
            continue
        (k1, r1), (k2, r2) = sorts[0], sorts[1]
        ctx.hit("prep:argsort-compared", 2)
        if k1 != km or k2 != kp:
            ctx.disagree({"fn": "prep: argsort keys", **rep}, [k1, k2], [km, kp])
            continue
        bad_sort = False
        for keys, res in ((k1, r1), (k2, r2)):
            if sorted(res) != list(range(len(keys))) or any(keys[res[i]] > keys[res[i + 1]] for i in range(len(res) - 1)):
                ctx.fail("C02:argsort-not-a-sort", f"np.argsort returned {res} for keys {keys}", rep)
                bad_sort = True
        if bad_sort:
            continue
        ties = len(set(k1)) != len(k1) or len(set(k2)) != len(k2)
        code_idx = r1 + [x + offset for x in r2]
        if not ties:
            ctx.hit("prep:sort-permutation-compared-exactly")
            if code_idx != sort_idx:
                ctx.disagree({"fn": "prep: sort permutation", **rep}, code_idx, sort_idx)
                continue
        elif code_idx != sort_idx:
            ctx.hit("prep:code-tie-order-differs-from-stable:" + c["kind"])
        # the model with the code's own argsort results (Infretis.Perm.infRetisGiven - the function the theorems
        # `infRetis_any_tie_order*` are about): compared in full, ties or not, in the family or outside
        g = parse_given(out[3 * k + 2])
        if g["empty"]:
            continue
        ctx.hit("prep:given-compared")
        if g["sort_idx"] != code_idx:
            ctx.disagree({"fn": "prep: sort_idx assembled from the argsort results", **rep}, code_idx, g["sort_idx"])
            continue
        if not compare_given(ctx, rep, rec, g, "prep"):
            continue
        if not ties or c["kind"].startswith("family"):
            # stable order and code order must give the same final answer (in the family: theorem; without ties: same order)
            if body.split()[0] != g["res"].split()[0]:
                ctx.disagree({"fn": "prep: stable-order result vs code-order result", **rep}, g["res"][:120], body[:120])
            elif mbr != g["branches"]:
                ctx.disagree({"fn": "prep: stable-order branches vs code-order branches", **rep}, g["branches"], mbr)
        for a in rec.get("random_args", []):
            ctx.hit("prep:random_prob-argument")
            if c["kind"].startswith("family") and not np.all(np.diag(a) != 0):
                ctx.fail("C02:monte-carlo-block-zero-diagonal",
                         "a block handed to random_prob has a zero on its diagonal (the identity start has weight 0)", rep)
            mc_args.append(a)
    ctx.extra["ext_prep_cases"] = len(cases)
    return mc_args


# ------------------------------------------------------------------------------------------------ (2) random_prob
class Script:
    """replays draws for random_prob and records the requests"""

    def __init__(self, draws, odd):
        self.q = []
        for d in draws:
            self.q.append(("c2", -1 if d["left"] else 1))
            if odd:
                self.q.append(("c2", d["s1"]))
                self.q.append(("c2", d["s2"]))
            self.q.append(("rnd", d["rs"]))
        self.pos = 0
        self.reqs = []
        self.bad = None

    def _next(self, kind):
        if self.pos >= len(self.q):
            self.bad = f"request {kind} beyond the script"
            raise RuntimeError(self.bad)
        k, v = self.q[self.pos]
        self.pos += 1
        if k != kind:
            self.bad = f"request {kind} where the script has {k} (position {self.pos - 1})"
        return k, v

    def choice(self, a, *args, **kw):
        a = list(np.asarray(a).tolist())
        k, v = self._next("c2")
        self.reqs.append("c2")
        if k != "c2":
            return a[0]
        if v not in a:
            self.bad = f"scripted outcome {v} is not among the choices {a}"
            return a[0]
        return v

    def random(self, size=None):
        k, v = self._next("rnd")
        m = 0 if size is None else int(size)
        self.reqs.append(f"rnd{m}")
        if k != "rnd":
            return np.zeros(m)
        if len(v) != m:
            self.bad = f"random({m}) where the script has {len(v)} numbers"
            return np.zeros(m)
        return np.array([float(x) for x in v], dtype=float)


def gen_random_cases(rng, quick, extra_arrs):
    cases = []
    ncase = 220 if quick else 2500
    for i in range(ncase):
        k = rng.choice((1, 2, 2, 3, 3, 4, 4, 5, 5, 6, 7, 13, 14)) if i % 9 else rng.choice((13, 14, 15))
        mode = rng.choice(("p2", "p2", "mild", "zero-diag"))
        wset = WP2 if mode != "mild" else WMILD
        # staircase-like zeros above a non-zero diagonal, in column order as find_blocks hands blocks over
        last = [rng.randint(r, k - 1) for r in range(k)]
        arr = [[rng.choice(wset) if c <= last[r] else 0 for c in range(k)] for r in range(k)]
        if rng.random() < 0.3:          # a few interior zeros as well (the routine does not care)
            for _ in range(rng.randint(1, k)):
                r, c = rng.randrange(k), rng.randrange(k)
                if r != c:
                    arr[r][c] = 0
        if mode == "zero-diag" and k >= 2:
            arr[rng.randrange(k)][rng.randrange(k)] = 0
            d = rng.randrange(k)
            arr[d][d] = 0
        n = rng.choice((0, 1, 2, 3, 5, 8, 13, 30)) if k < 13 else rng.choice((3, 10, 25))
        cases.append({"arr": arr, "draws": _draws(rng, k, n, mode), "mode": mode})
    for a in extra_arrs[: (4 if quick else 40)]:
        arr = [[int(x) for x in r] for r in a.tolist()]
        cases.append({"arr": arr, "draws": _draws(rng, len(arr), 40 if quick else 400, "p2"), "mode": "from-inf_retis"})
    return cases


def _draws(rng, k, n, mode):
    out = []
    for _ in range(n):
        if mode == "mild":
            rs = [Fraction(2 * rng.randrange(32) + 1, 64) for _ in range(k // 2)]
        else:
            rs = [Fraction(rng.randrange(64), 64) if rng.random() < 0.8 else Fraction(0) for _ in range(k // 2)]
        out.append({"left": rng.random() < 0.5, "s1": rng.randrange(2), "s2": rng.randrange(2), "rs": rs})
    return out


def code_random(arr, draws):
    st = _new_state()
    k = len(arr)
    sc = Script(draws, odd=(k // 2) * 2 != k)
    st.rgen = sc
    try:
        with np.errstate(all="ignore"):
            P = type(st).random_prob(st, np.array(arr, dtype=float), n=len(draws))
        return "ok", np.asarray(P, dtype=float), sc
    except Exception as e:  # noqa: BLE001
        return err_kind(e), None, sc


def random_predicate(arr, draws, P):
    """the sure properties, stated on the code's matrix only"""
    k = len(arr)
    fails = []
    if P.shape != (k, k):
        return [("C02:random-prob:shape", f"shape {P.shape} for a {k}x{k} block")]
    if k and (np.abs(P.sum(axis=1) - 1).max() > 1e-12 or np.abs(P.sum(axis=0) - 1).max() > 1e-12):
        fails.append(("C02:random-prob:not-doubly-stochastic",
                      f"row sums {P.sum(axis=1).tolist()} / column sums {P.sum(axis=0).tolist()}"))
    n1 = len(draws) + 1
    if k and np.abs(P * n1 - np.round(P * n1)).max() > 1e-9:
        fails.append(("C02:random-prob:not-a-count", f"an entry is not a multiple of 1/{n1}"))
    A = np.array(arr, dtype=float)
    if k and np.all(np.diag(A) != 0):
        bad = np.argwhere((A == 0) & (P != 0))
        if len(bad):
            r, c = (int(x) for x in bad[0])
            fails.append(("C02:random-prob:nonzero-where-weight-zero",
                          f"entry ({r},{c}) is {P[r, c]!r} although the weight is 0"))
    return fails


def random_tie(ctx, rng, extra_arrs):
    cases = gen_random_cases(rng, ctx.quick, extra_arrs or [])
    lines = []
    for c in cases:
        dr = " ".join(f"{1 if d['left'] else 0} {d['s1']} {d['s2']} {len(d['rs'])} " + " ".join(tok_num(x) for x in d["rs"])
                      if d["rs"] else f"{1 if d['left'] else 0} {d['s1']} {d['s2']} 0" for d in c["draws"])
        lines.append(f"randprob {len(c['draws'])} {dr} {tok_mat(c['arr'])}".replace("  ", " "))
    out = ctx.driver(lines) if ctx._driver_ok else [None] * len(lines)
    for c, mo in zip(cases, out):
        kind, P, sc = code_random(c["arr"], c["draws"])
        k = len(c["arr"])
        rep = {"kind": "randprob", "arr": c["arr"], "mode": c["mode"],
               "draws": [{"left": d["left"], "s1": d["s1"], "s2": d["s2"], "rs": [str(x) for x in d["rs"]]} for d in c["draws"]]}
        ctx.count(1, branch=f"random_prob:{c['mode']}:{'odd' if k % 2 else 'even'}")
        ctx.distinct(("randprob", tuple(map(tuple, c["arr"])), len(c["draws"])))
        if kind != "ok":
            ctx.fail("C02:random-prob:exception", f"random_prob raised {kind} ({sc.bad})", rep)
            continue
        if sc.bad or sc.pos != len(sc.q):
            ctx.disagree({"fn": "random_prob draw requests", **rep},
                         sc.bad or f"{sc.pos} of {len(sc.q)} scripted draws consumed", "script")
            continue
        for sig, what in random_predicate(c["arr"], c["draws"], P):
            ctx.fail(sig, what, rep)
        if mo is None:
            continue
        f = [x.strip() for x in mo.split(" | ")]
        per_iter = f[0].split()[1:]
        if sc.reqs != per_iter * len(c["draws"]):
            ctx.disagree({"fn": "random_prob draw requests", **rep}, sc.reqs[:8], per_iter)
            continue
        Mm, _ = parse_mat(f[2].split())
        if np.shape(Mm) != P.shape or (k and np.abs(np.array(Mm) - P).max() > 1e-12):
            ctx.disagree({"fn": "random_prob matrix", **rep}, P.tolist(), f[2][:300])
    ctx.extra["ext_random_cases"] = len(cases)


def replay_random(r):
    draws = [{"left": d["left"], "s1": d["s1"], "s2": d["s2"], "rs": [Fraction(x) for x in d["rs"]]} for d in r["draws"]]
    kind, P, sc = code_random(r["arr"], draws)
    if kind != "ok":
        print("C02:random-prob:exception -", kind)
        return 1
    fails = random_predicate(r["arr"], draws, P)
    for sig, what in fails:
        print(sig, "-", what)
    return 1 if fails else 0


# ------------------------------------------------------------------------------------------------ (3) cache
def _fresh_inf(S, L):
    from infretis.classes.repex import REPEX_state
    fr = REPEX_state({"current": {"size": len(S) - 1}, "runner": {"workers": 1}, "simulation": {"seed": 0}}, minus=True)
    return np.asarray(fr.inf_retis(np.abs(S.copy()), L.copy()), dtype=float)


class _LogGen(np.random.Generator):
    """a genuine numpy generator that records every probability vector handed to choice() together with the
    sampler's state and locks at that moment (pick / pick_traj_ens draw from `self.prob` through it)"""

    def __init__(self, bitgen):
        super().__init__(bitgen)
        self.log = []
        self.snap = None

    def choice(self, a, size=None, replace=True, p=None, axis=0, shuffle=True):
        if p is not None and self.snap is not None:
            self.log.append((np.array(p, dtype=float),) + self.snap())
        return super().choice(a, size=size, replace=replace, p=p, axis=axis, shuffle=shuffle)


def cache_history(label, nops, script=None):
    """drive one real REPEX_state; -> (init, ops, observations, failures).  With `script` the recorded operations
    are replayed instead of drawn."""
    from props import c02 as B
    rng = random.Random(label)
    size = rng.choice((2, 3, 3, 4, 4, 5, 6))
    wf = rng.choice(("01", "row", "free"))
    st = B._full_state(size, max(1, size - 2), seed=0)
    pn = [0]

    def newpath():
        pn[0] += 1
        p = B._P(pn[0], None)
        st.traj_data[pn[0]] = {"max_op": [0.0], "min_op": [0.0], "length": 1, "frac": np.zeros(size + 1)}
        return p
    st.traj_data = {}
    st.toinitiate = size
    for e in range(size - 1):
        st.add_traj(e, newpath(), B._valid_for(rng, size, e, wf), count=False)
    st.add_traj(-1, newpath(), (float(rng.choice(B.WSET)),), count=False)
    st.toinitiate = -1
    st._last_prob = None
    n = size + 1
    # audit pass: the REAL pick_traj_ens / pick / pick_lock(re-issue) are operations of the history; their swap and
    # lock calls are logged (instance wrappers) and become the model operations `sl t e` / `ri t e`
    st.rgen = _LogGen(np.random.PCG64(sum(map(ord, label))))
    st.rgen.snap = lambda: (st.state.copy(), st._locks.copy())
    calls = []
    _osw, _olk = st.swap, st.lock

    def _swap(t, e):
        calls.append(("swap", int(t), int(e)))
        return _osw(t, e)

    def _lock(e):
        calls.append(("lock", int(e)))
        return _olk(e)
    st.swap, st.lock = _swap, _lock
    init = {"n": n, "toinit": -1, "locks": [int(x) for x in st._locks],
            "trajs": [t.path_number if hasattr(t, "path_number") else -1 for t in st._trajs],
            "W": [[int(x) for x in r] for r in st.state]}
    ops, obs, fails = [], [], []
    bare_pending = False
    allow_bare = rng.random() < 0.3
    logging.disable(logging.CRITICAL)
    try:
        for step in range(nops if script is None else len(script)):
            idle = [e for e in range(n - 1) if not st._locks[e]]
            busy = [e for e in range(n - 1) if st._locks[e]]
            if script is not None:
                op = script[step]
            else:
                menu = ["r", "r", "p"]
                if idle:
                    menu += ["l", "sl", "sl"]
                    if not bare_pending:
                        # the REAL pick operations only from a state the public operations can produce: after a bare
                        # swap() (not a public step, not an invalidation point - bare_swap_stale_counterexample) the
                        # cache is legitimately stale until the next invalidating operation
                        menu += ["pk", "pk", "pr", "pr", "ri"]
                if busy:
                    menu += ["u", "a", "a", "a"]
                menu += ["s"]
                if allow_bare and len(idle) >= 2:
                    menu += ["x"]
                if rng.random() < 0.03:
                    menu = ["l!", "u!"]
                kind = rng.choice(menu)
                if kind == "r":
                    op = ["r"]
                elif kind in ("pk", "pr", "ri"):
                    op = [kind]
                elif kind == "p":
                    op = ["p"]
                elif kind == "s":
                    op = ["s"]
                elif kind == "l":
                    op = ["l", rng.choice(idle)]
                elif kind == "u":
                    op = ["u", rng.choice(busy)]
                elif kind == "l!":
                    op = ["l", rng.choice(busy) if busy else n - 1]
                elif kind == "u!":
                    op = ["u", rng.choice(idle) if idle else 0]
                elif kind == "x":
                    prs = [(t, e) for t in idle for e in idle if t != e and st.state[t][e] != 0 and st.state[e][t] != 0]
                    op = ["x", *rng.choice(prs)] if prs else ["r"]
                elif kind == "sl":
                    try:
                        P = np.asarray(st.prob, dtype=float)
                    except Exception:  # noqa: BLE001
                        P = np.zeros((n, n))
                    opts = [(t, e) for t in idle for e in idle if P[t, e] > 1e-12]
                    if not opts:
                        opts = [(t, e) for t in idle for e in idle]
                    t, e = rng.choice(opts)
                    op = ["sl", t, e]
                else:
                    e = rng.choice(busy)
                    if e == 0:
                        op = ["a", -1, pn[0] + 1, [rng.choice(B.WSET)]]
                    else:
                        op = ["a", e - 1, pn[0] + 1, [int(x) for x in B._valid_for(rng, size, e - 1, wf)]]
            if op[0] in ("pk", "pr", "ri"):
                # ---- a REAL sampler operation; translated into model operations from its logged swap/lock calls
                del calls[:]
                del st.rgen.log[:]
                try:
                    P = np.asarray(st.prob, dtype=float)
                    opts = [(t, e) for t in idle for e in idle if P[t, e] > 1e-12]
                except Exception:  # noqa: BLE001
                    # the generator's bare lock/unlock operations can lead to an idle block without perfect matching
                    # (a lock the scheduler never takes: probability-0 pair): `prob` itself raises there.  That is a
                    # plain read - model-vs-code comparison of the error kind below, not a property failure
                    P, opts = None, []
                if P is None:
                    op = ["r"]
                elif not opts:
                    continue
            if op[0] in ("pk", "pr", "ri"):
                try:
                    if op[0] == "pk":
                        e = rng.choice(sorted({e for _t, e in opts}))
                        st.pick_traj_ens(e)
                    elif op[0] == "pr":
                        st.pick()
                    else:
                        t, e = rng.choice(opts)
                        st.locked0 = [([e], [str(st._trajs[t].path_number)])]
                        st.pick_lock()
                except Exception as ex:  # noqa: BLE001
                    fails.append(("C02:exception-in-family", f"real {op[0]} raised {err_kind(ex)}", step))
                    break
                pairs = []
                ok_shape = len(calls) % 2 == 0 and len(calls) >= 2
                for q in range(0, len(calls) - 1, 2):
                    a_, b_ = calls[q], calls[q + 1]
                    if a_[0] != "swap" or b_[0] != "lock" or a_[2] != b_[1]:
                        ok_shape = False
                        break
                    pairs.append((a_[1], a_[2]))
                if not ok_shape:
                    fails.append(("C02:pick-not-read-swap-lock",
                                  f"real {op[0]} performed {calls} instead of swap(traj, ens); lock(ens) pairs", step))
                    break
                # every probability vector drawn from is the CURRENT matrix (normalised) at the moment of the draw
                for (pv, S_, L_) in st.rgen.log:
                    try:
                        F = _fresh_inf(S_, L_)
                    except Exception:  # noqa: BLE001
                        continue
                    if len(pv) == n * n:
                        want = F.flatten() / F.sum()
                    else:
                        col = [e_ for (_t, e_) in pairs if abs(F[:, e_].sum()) > 0]
                        want = None
                        for e_ in [e2 for (_t2, e2) in pairs]:
                            cand = F[:, e_] / F[:, e_].sum() if F[:, e_].sum() else None
                            if cand is not None and np.allclose(pv, cand, rtol=0, atol=1e-12):
                                want = cand
                        if want is None:
                            fails.append(("C02:pick-uses-stale-matrix",
                                          f"real {op[0]} (step {step}) drew a path from a column that is no column of "
                                          f"inf_retis(abs(state), locks) at that moment", step))
                            break
                    if not np.allclose(pv, want, rtol=0, atol=1e-12):
                        fails.append(("C02:pick-uses-stale-matrix",
                                      f"real {op[0]} (step {step}) drew from a matrix that is not "
                                      f"inf_retis(abs(state), locks) at that moment", step))
                        break
                if fails:
                    break
                tag = "ri" if op[0] == "ri" else "sl"
                if op[0] == "ri" and st.rgen.log:
                    fails.append(("C02:reissue-reads-prob", "pick_lock re-issue drew from the probability matrix", step))
                    break
                for q, (t_, e_) in enumerate(pairs):
                    ops.append([tag, t_, e_])
                    if q < len(pairs) - 1:
                        obs.append({"kind": "ok", "skip": True})
                cached = None if st._last_prob is None else np.asarray(st._last_prob, dtype=float).copy()
                obs.append({"kind": "ok", "none": st._last_prob is None, "locks": "".join(str(int(x)) for x in st._locks),
                            "cached": cached, "handed": None, "real": op[0]})
                bare_pending = False
                continue
            ops.append(op)
            was_pending = bare_pending      # a bare swap() has happened since the last invalidation
            handed = []            # (matrix handed out, |state| and locks at that moment)
            try:
                if op[0] == "r":
                    handed.append((np.asarray(st.prob, dtype=float), st.state.copy(), st._locks.copy()))
                elif op[0] == "l":
                    st.lock(op[1])
                elif op[0] == "u":
                    st.unlock(op[1])
                elif op[0] == "x":
                    st.swap(op[1], op[2])
                    bare_pending = True
                elif op[0] == "sl":
                    P = np.asarray(st.prob, dtype=float)
                    handed.append((P.copy(), st.state.copy(), st._locks.copy()))
                    st.swap(op[1], op[2])
                    st.lock(op[2])
                elif op[0] == "a":
                    p = newpath()
                    assert p.path_number == op[2]
                    st.add_traj(op[1], p, tuple(float(x) for x in op[3]), count=False)
                    handed.append((np.asarray(st._last_prob, dtype=float), st.state.copy(), st._locks.copy()))
                elif op[0] == "s":
                    B._bounded(st.sort_trajstate, 20)
                    handed.append((np.asarray(st._last_prob, dtype=float), st.state.copy(), st._locks.copy()))
                elif op[0] == "p":
                    before = None if st._last_prob is None else np.asarray(st._last_prob, dtype=float).copy()
                    st.print_state()
                    if before is not None:
                        handed.append((before, st.state.copy(), st._locks.copy()))
                kind = "ok"
            except B._Hang:
                kind = "err:stall"
            except Exception as e:  # noqa: BLE001
                kind = err_kind(e)
            cached = None if st._last_prob is None else np.asarray(st._last_prob, dtype=float).copy()
            obs.append({"kind": kind, "none": st._last_prob is None, "locks": "".join(str(int(x)) for x in st._locks),
                        "cached": cached, "handed": [h[0] for h in handed]})
            if kind != "ok":
                break
            if st._last_prob is None or op[0] in ("a", "s", "l", "u", "sl"):
                bare_pending = False        # these operations invalidate (and possibly recompute) the cache
            # the property: whatever was handed out is inf_retis of the state at that moment
            if not was_pending and not bare_pending:
                for (P, S, L) in handed:
                    try:
                        F = _fresh_inf(S, L)
                    except Exception as e:  # noqa: BLE001
                        fails.append(("C02:exception-in-family", f"inf_retis on the state after {op} raised {err_kind(e)}",
                                      step))
                        break
                    if P.shape != F.shape or not np.allclose(P, F, rtol=0, atol=1e-12):
                        fails.append(("C02:cached-prob-stale",
                                      f"operation {step} {op}: the matrix handed out differs from inf_retis(abs(state), "
                                      f"locks) of a fresh object (locks {obs[-1]['locks']})", step))
                        break
            if not bare_pending:
                if cached is not None and not fails:
                    F = None
                    try:
                        F = _fresh_inf(st.state, st._locks)
                    except Exception:  # noqa: BLE001
                        pass
                    if F is not None and (cached.shape != F.shape or not np.allclose(cached, F, rtol=0, atol=1e-12)):
                        fails.append(("C02:cached-prob-stale",
                                      f"after operation {step} {op} `_last_prob` is not None and differs from "
                                      f"inf_retis(abs(state), locks) (locks {obs[-1]['locks']})", step))
            if fails:
                break
    finally:
        logging.disable(logging.NOTSET)
    return init, ops, obs, fails


def _op_tokens(op):
    if op[0] == "a":
        return f"a {op[1]} {op[2]} {len(op[3])} " + " ".join(str(x) for x in op[3])
    return " ".join(str(x) for x in op)


def cache_line(init, ops):
    return (f"cache {init['n']} {init['toinit']} {tok_list(init['locks'])} {tok_list(init['trajs'])} "
            f"{tok_mat(init['W'])} {len(ops)} " + " ".join(_op_tokens(o) for o in ops))


def cache_tie(ctx):
    nh = 40 if ctx.quick else 500
    hist = []
    for h in range(nh):
        label = f"C02-cache:{ctx.seed}:{h}"
        with np.errstate(all="ignore"), contextlib.redirect_stdout(io.StringIO()):
            init, ops, obs, fails = cache_history(label, 25 if ctx.quick else 40)
        hist.append((label, init, ops, obs))
        for o in ops[: len(obs)]:
            ctx.hit("cache:op=" + o[0])
        for o in obs:
            if o.get("real"):
                ctx.hit("cache:real-op=" + o["real"])
        ctx.count(len(obs), branch="cache_history_step")
        ctx.distinct(("cache", label))
        for sig, what, step in fails:
            ctx.fail(sig, what, {"kind": "cachehist", "label": label, "nops": 25 if ctx.quick else 40, "step": step,
                                 "ops": ops[: step + 1]})
    if not ctx._driver_ok:
        return
    out = ctx.driver([cache_line(init, ops) for (_l, init, ops, _o) in hist])
    for (label, init, ops, obs), mo in zip(hist, out):
        items = [x.strip() for x in mo.split(" ; ")] if mo.strip() else []
        rep = {"fn": "cache history", "label": label, "ops": ops}
        if len(items) != len(obs):
            ctx.disagree(rep, f"{len(obs)} operations performed (last: {obs[-1]['kind'] if obs else '-'})",
                         f"{len(items)} trace items: {mo[-120:]}")
            continue
        mcache = None
        for k, (o, it) in enumerate(zip(obs, items)):
            ctx.hit("cache:model-compared")
            if o.get("skip"):
                if it.startswith("err") or it == "nan":
                    ctx.disagree({**rep, "step": k}, "ok", it[:80])
                    break
                parts = it.split(" # ")
                if parts[0].split()[0] == "N":
                    mcache = None
                elif len(parts) > 1:
                    t_ = parts[-1].split()
                    mcache = np.array(parse_mat(t_, 1)[0]) if t_[0] == "ok" else parts[-1]
                continue
            if o["kind"] != "ok" or it.startswith("err") or it == "nan":
                if o["kind"] != it:
                    ctx.disagree({**rep, "step": k}, o["kind"], it[:80])
                break
            parts = it.split(" # ")
            flag, locks = parts[0].split()
            uses = []
            for u in parts[1:]:
                t = u.split()
                uses.append(np.array(parse_mat(t, 1)[0]) if t[0] == "ok" else u)
            if (flag == "N") != o["none"] or locks != o["locks"]:
                ctx.disagree({**rep, "step": k}, f"_last_prob is None: {o['none']}, locks {o['locks']}", parts[0])
                break
            if flag == "N":
                mcache = None
            elif uses:
                mcache = uses[-1]
            bad = False
            if not o["none"]:
                if not isinstance(mcache, np.ndarray) or mcache.shape != o["cached"].shape \
                        or np.abs(mcache - o["cached"]).max() > TOL:
                    ctx.disagree({**rep, "step": k}, "cached matrix differs", parts[-1][:200])
                    bad = True
            if o.get("handed") is None:
                if bad:
                    break
                continue
            if not bad and ops[k][0] in ("r", "sl", "a", "s") or (ops[k][0] == "p" and o["handed"]):
                if len(uses) != len(o["handed"]):
                    ctx.disagree({**rep, "step": k}, f"{len(o['handed'])} matrices handed out", f"{len(uses)} uses")
                    bad = True
                else:
                    for a, b in zip(o["handed"], uses):
                        if not isinstance(b, np.ndarray) or a.shape != b.shape or np.abs(a - b).max() > TOL:
                            ctx.disagree({**rep, "step": k}, "matrix handed out differs", str(b)[:200])
                            bad = True
                            break
            if bad:
                break


def replay_cache(r):
    with np.errstate(all="ignore"), contextlib.redirect_stdout(io.StringIO()):
        _i, _o, _obs, fails = cache_history(r["label"], r.get("nops", 25))
    for sig, what, _s in fails:
        print(sig, "-", what)
    return 1 if fails else 0


# ------------------------------------------------------------------------------------------------ (4) boundary
def boundary(ctx):
    from props import c02 as B
    res = []
    lines = [f"infretis {w['off']} {tok_list(w['locks'])} {tok_mat(w['W'])}" for w in HOLE_WITNESSES]
    out = ctx.driver(lines) if ctx._driver_ok else [None] * len(lines)
    for w, mo in zip(HOLE_WITNESSES, out):
        rec = code_prep(w["W"], w["locks"], w["off"])
        want = B.oracle(w["W"], w["locks"])
        entry = {"name": w["name"], "code": rec["kind"]}
        if rec["kind"] == "ok" and want is not None:
            Wf = np.array([[float(x) for x in r] for r in want])
            P = rec["P"]
            entry["max_abs_diff_to_permanent_ratios"] = float(np.abs(P - Wf).max())
            idle = [i for i, l in enumerate(w["locks"]) if not l]
            Q = P[np.ix_(idle, idle)]
            entry["doubly_stochastic"] = bool(np.allclose(Q.sum(axis=0), 1) and np.allclose(Q.sum(axis=1), 1))
            entry["silently_wrong"] = bool(entry["max_abs_diff_to_permanent_ratios"] > TOL and entry["doubly_stochastic"])
        ctx.count(1, branch="boundary:hole-witness")
        if mo is not None:
            body = mo.partition(" | ")[0].split()
            if body[0] == "ok" and rec["kind"] == "ok":
                Mm, _ = parse_mat(body, 1)
                if np.abs(np.array(Mm) - rec["P"]).max() > TOL:
                    ctx.disagree({"fn": "hole witness", "name": w["name"]}, rec["P"].tolist(), mo[:200])
            elif body[0] != rec["kind"]:
                ctx.disagree({"fn": "hole witness", "name": w["name"]}, rec["kind"], mo[:200])
        res.append(entry)
    ctx.extra["out_of_family_hole_witnesses"] = {"pending": PENDING_FINDINGS, "results": res}


# ------------------------------------------------------------------------------------------------ (5) near-equal / tiny weights
NEAR_BASES = (1000, 30000, 300000, 10 ** 6, 10 ** 7, 10 ** 8, 10 ** 9)
TINY_EXPS = (10, 20, 24, 27, 30, 33, 35, 40)
ASSUMPTIONS_NEAR = [
    "extension (5): nearly-equal weights are integers w+e (w in 1e3..1e9, |e| <= 3: relative differences 1e-3..1e-9, "
    "on both sides of numpy's default isclose rtol 1e-5) or dyadic w*(1+j*2^-t); tiny weights are whole rows of "
    "{1,2,3,5,17} multiplied by 2^-10..2^-40 (on both sides of isclose's atol 1e-8); all exactly representable in "
    "float64 and as Lean rationals, so the oracle, the rescale-invariance predicate (factor 2^-k) and the "
    "block-wise-vs-permanent predicate are evaluated at the usual 1e-9; blocks have at most 6 rows and a dynamic "
    "range <= 17 inside each row (far from the open Glynn-cancellation regime)",
]


def gen_near_equal(rng, quick):
    """in-family cases whose non-row-constant blocks are only APPROXIMATELY row-constant (or become so when one
    path's weights are rescaled): the exact code path (permanent_prob) must still be taken"""
    from props import c02 as B
    cases = []
    n_each = 90 if quick else 900

    def lasts_for(m, full):
        if full:
            return tuple([m] * m)
        ls = sorted(max(k + 1, rng.randint(k + 1, m)) for k in range(m))
        return B.random_valid(rng, sorted(ls))

    def emit(kind, m, seq, tbl, rescale):
        off = 1 if rng.random() < 0.85 else 0
        W = B.build(off, seq, lambda k, c: tbl[k][c], wminus=rng.choice(B.WSET))
        locks = B.random_locks(rng, off + m, True, rng.choice((0.0, 0.0, 0.25)))
        c = {"kind": kind, "off": off, "W": W, "locks": locks, "cross": True}
        if rescale is not None:
            c["rescale"] = (off + rescale[0], rescale[1])
        cases.append(c)

    for _ in range(n_each):
        # (1) integer weights w + e: every row nearly constant, not exactly
        m = rng.choice((2, 2, 3, 3, 4, 5, 6))
        tbl = []
        for _k in range(m):
            w = rng.choice(NEAR_BASES)
            row = [w + rng.randint(-3, 3) for _c in range(m)]
            if len(set(row)) == 1:
                row[rng.randrange(m)] += 1
            tbl.append(row)
        emit("near-equal-int", m, lasts_for(m, rng.random() < 0.6), tbl,
             (rng.randrange(m), 2.0 ** -rng.choice(TINY_EXPS)) if rng.random() < 0.5 else None)
    for _ in range(n_each // 2):
        # (1b) dyadic relative differences w * (1 + j * 2^-t)
        m = rng.choice((2, 3, 3, 4, 5))
        t = rng.choice((10, 14, 17, 20, 24, 27, 30))
        tbl = []
        for _k in range(m):
            w = rng.choice((1, 3, 5, 17, 1000))
            row = [w * (1.0 + rng.randint(0, 3) * 2.0 ** -t) for _c in range(m)]
            if len(set(row)) == 1:
                row[rng.randrange(m)] = w * (1.0 + 2.0 ** -t)
            tbl.append(row)
        emit("near-equal-dyadic", m, lasts_for(m, rng.random() < 0.6), tbl, None)
    for _ in range(n_each):
        # (2) free weights, every plus row multiplied by a power of two down to 2^-40 (unequal but tiny)
        m = rng.choice((2, 2, 3, 3, 4, 5, 6))
        same = rng.random() < 0.5
        k0 = rng.choice(TINY_EXPS)
        tbl = []
        for _k in range(m):
            f = 2.0 ** -(k0 if same else rng.choice(TINY_EXPS))
            row = [rng.choice(WMILD) * f for _c in range(m)]
            if len(set(row)) == 1 and m > 1:
                row[0] = (17 if row[0] != 17 * f else 1) * f
            tbl.append(row)
        emit("tiny-rows", m, lasts_for(m, rng.random() < 0.6), tbl,
             (rng.randrange(m), 2.0 ** rng.choice((10, 30, 40))) if rng.random() < 0.3 else None)
    for _ in range(n_each):
        # (3) row-constant rows and ONE free row; rescaling that path by 2^-k must change nothing
        m = rng.choice((2, 3, 3, 4, 5, 6))
        r = rng.randrange(m)
        tbl = []
        for k in range(m):
            if k == r:
                row = [rng.choice(WMILD) for _c in range(m)]
                if len(set(row)) == 1:
                    row[0] = 17 if row[0] != 17 else 1
            else:
                row = [rng.choice(B.WSET)] * m
            tbl.append(row)
        emit("rescale-to-tiny", m, tuple([m] * m), tbl, (r, 2.0 ** -rng.choice(TINY_EXPS)))
    return cases


def near_equal_tie(ctx):
    from props import c02 as B
    rng = random.Random(f"C02-near:{ctx.seed}")
    cases = gen_near_equal(rng, ctx.quick)
    B.evaluate_family(ctx, B.Code(), cases, "near-equal")
    ctx.extra["ext_near_equal_cases"] = len(cases)
    ctx.assumptions += ASSUMPTIONS_NEAR


def run_ext(ctx):
    rng = random.Random(f"C02-ext:{ctx.seed}")
    with np.errstate(all="ignore"):
        import warnings
        with warnings.catch_warnings():
            warnings.simplefilter("ignore")
            t0 = ctx.elapsed()
            mc_args = prep_tie(ctx, rng) or []
            t1 = ctx.elapsed()
            random_tie(ctx, rng, mc_args)
            t2 = ctx.elapsed()
            cache_tie(ctx)
            t3 = ctx.elapsed()
            boundary(ctx)
            t4 = ctx.elapsed()
            near_equal_tie(ctx)
            t5 = ctx.elapsed()
    ctx.extra["ext_timing_s"] = {"prep": round(t1 - t0, 2), "random_prob": round(t2 - t1, 2), "cache": round(t3 - t2, 2),
                                 "near_equal": round(t5 - t4, 2)}
    ctx.assumptions += ASSUMPTIONS


def replay_ext(ctx, r):
    kind = r.get("kind", "")
    if kind == "randprob":
        return replay_random(r)
    if kind == "cachehist":
        return replay_cache(r)
    return None
