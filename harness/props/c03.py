"""C03 — a busy ensemble, path, engine or work directory is never shared.

Tie: the real REPEX_state driven through scheduler-shaped histories (repex_tie) against the Lean
state machine (Infretis.Repex), state-for-state after every op; then the property predicates are
evaluated directly on the real snapshots (independent of the model).

Third family (engine OBJECTS): the real `tis.def_globals` / `factory.create_engines` builds the engine
instances (turtlemd engines, several instances per engine name); every in-flight job's engines are
resolved exactly as `tis.select_shoot` does (`ENGINES[name][eng_idx]`) and the OBJECTS (and the exe
directories) of concurrently in-flight jobs must be pairwise distinct.
Extension pass (props/c03_micro.py): every op is also observed at SUB-STEP granularity (snapshot after every write to
`_locks`/`_trajs`/`state` inside treat_output / prep_md_items) → compared with the model's traces (`treatm`/`prepm`) and
judged directly (exactly the other jobs' ensembles + what the job at hand has not released / has already locked are busy;
busy slots are only written by add_traj of their own job, swaps only move idle slots); every history is replayed event by
event through `sysStep` (`sysev`); histories driven by the REAL scheduler() with a deep-copying runner; load through the REAL
load_paths; `REPEX_state.__init__` against `blank`; direct cases for create_engines / assign_engines.
Fourth family (restarts with an observer): restart chains with `output.screen = 1` and with the
probability matrix read right after `load_paths` (a legal observation that fills the `_last_prob`
cache); the matrix the code hands to `choice` at every pick must have no mass on a busy row/column.
Fifth family (hand-over, props/c03_lazy.py): the REAL scheduler() with a runner that — like the real aiorunner — keeps the
submitted REFERENCE and copies when the schedule lets a worker take the unit (late / eager / random take points, also inside the
following prep_md_items / treat_output, also across restarts); the C03 predicates are evaluated on what the workers RECEIVE
(content at take time = content at submit time; pins, folders, ensembles, paths, engine instances of the running units pairwise
distinct; complete jobs), plus the aliasing predicate (no unit is the object of / shares a container that prep_md_items writes to
with a unit still in flight); the object-level events are replayed through `Infretis.Repex.Submit` (driver ops lz…).
Audit additions (props/c03_audit.py): output.screen in {0,1,5}; runner.wmdrun lists (own command per pin); finished runs continued
with more steps; pins are worker indices (judged right after prep_md_items, before the state is dumped); the Monte-Carlo branch of
inf_retis directly; a recorded note on the class-level traj_data dict.
"""
from __future__ import annotations

import contextlib
import copy
import io
import os
import random

import repex_tie as T

from props import c03_audit as A
from props import c03_lazy as Z
from props import c03_micro as M


_BYREF = []


def _runner_by_reference():
    if not _BYREF:
        _BYREF.append(A.runner_enqueues_reference())
    return _BYREF[0]


def predicates(ctx, sim, label):
    """the property, stated on what the real code did (snapshots after every op)"""
    n = sim.n
    for idx, (tag, d, held) in enumerate(sim.snaps):
        locks = d["locks"]
        trajs = d["trajs"].split(",")
        W = [row.split(",") for row in d["W"].split(";")]
        ens_held = [e for (_pin, picked, *_r) in held for (e, _pn) in picked]
        pns_held = [pn for (_pin, picked, *_r) in held for (_e, pn) in picked]
        rep = {"history": label, "params": getattr(sim, "params", None), "ctxseed": ctx.seed, "snapshot": idx, "after": tag, "locks": locks, "trajs": d["trajs"], "held": str([h[:4] for h in held])}
        if len(set(ens_held)) != len(ens_held):
            ctx.fail("C03:ensemble-shared", f"an ensemble is held by two in-flight jobs: {ens_held}", rep)
        if len(set(pns_held)) != len(pns_held):
            ctx.fail("C03:path-shared", f"a path is held by two in-flight jobs: {pns_held}", rep)
        busy = sorted(i - 1 for i, l in enumerate(locks[:-1]) if l == "1")
        if busy != sorted(ens_held) or locks[-1] != "1":
            ctx.fail("C03:busy-flags-differ-from-inflight", f"busy ensembles {busy} but in flight {sorted(ens_held)}", rep)
        for (_pin, picked, *_r) in held:
            for (e, pn) in picked:
                slot = e + 1
                if trajs[slot] != str(pn):
                    ctx.fail("C03:held-path-not-in-its-slot", f"ensemble {e} holds path {trajs[slot]}, job has {pn}", rep)
                if W[slot][slot] in ("0", "0.0"):
                    ctx.fail("C03:zero-weight-job", f"path {pn} has zero weight in ensemble {e}", rep)
            es = [e for (e, _pn) in picked]
            if len(es) == 2 and sorted(es) != [-1, 0]:
                ctx.fail("C03:two-ensemble-job-not-zero-swap", f"job holds {es}", rep)
            if len(es) > 2:
                ctx.fail("C03:job-holds-more-than-two", f"job holds {es}", rep)
        # the record the restart file is written from lists exactly the jobs in flight
        recs = sorted(x for x in d.get("locked", "").split(";") if x)
        want = sorted(",".join(str(e) for (e, _pn) in h[1]) + ":" + ",".join(str(pn) for (_e, pn) in h[1]) for h in held)
        if recs != want:
            ctx.fail("C03:restart-record-differs-from-inflight", f"`locked` is {recs}, jobs in flight are {want}", rep)
        pins = [h[0] for h in held]
        wfs = [h[3] for h in held]
        if len(set(pins)) != len(pins) or len(set(wfs)) != len(wfs):
            ctx.fail("C03:worker-directory-shared", f"pins {pins} folders {wfs}", rep)
        for h in held:
            if h[3] != f"worker{h[0]}":
                ctx.fail("C03:folder-not-own", f"pin {h[0]} got {h[3]}", rep)
            # the pin is a worker index (it selects the folder, the engine cells and runner.wmdrun[pin])
            if isinstance(h[0], bool) or not isinstance(h[0], int) or not 0 <= h[0] < sim.workers:
                ctx.fail("C03:pin-not-a-worker-index", f"a job in flight has pin {h[0]!r} with {sim.workers} worker(s)", rep)
            ex = h[6] if len(h) > 6 else None
            if ex is not None:
                if any(p != h[0] for p in ex["pins"]):
                    ctx.fail("C03:folder-not-own", f"job of pin {h[0]!r} carries picked entries with pins {ex['pins']}", rep)
                wm = sim.cfg["runner"].get("wmdrun", False)
                if wm:
                    want = wm[h[0]] if isinstance(h[0], int) and 0 <= h[0] < len(wm) else None
                    if any(c != want for c in ex["wmdrun"]):
                        ctx.fail("C03:worker-command-not-own", f"job of pin {h[0]!r} runs with mdrun command(s) {ex['wmdrun']}, "
                                 f"runner.wmdrun[{h[0]}] is {want!r}", rep)
                elif any(c is not None for c in ex["wmdrun"]):
                    ctx.fail("C03:worker-command-not-own", f"no runner.wmdrun configured but the job carries {ex['wmdrun']}", rep)
        cmds = [c for h in held if len(h) > 6 and h[6] is not None for c in set(h[6]["wmdrun"]) if c is not None]
        if len(set(cmds)) != len(cmds):
            ctx.fail("C03:worker-command-shared", f"two jobs in flight run with the same per-worker mdrun command: {cmds}", rep)
        inst = [(k, i) for h in held for ed in h[2].values() for k, i in ed.items()]
        per_job = [set((k, i) for ed in h[2].values() for k, i in ed.items()) for h in held]
        allinst = [x for s in per_job for x in s]
        if len(set(allinst)) != len(allinst):
            ctx.fail("C03:engine-instance-shared", f"engine instances {inst}", rep)
        # the engine OBJECTS the jobs run with (resolved as select_shoot does) and their exe directories
        obj_owner, dir_owner = {}, {}
        for h in held:
            objs, dirs = (h[4], h[5]) if len(h) > 5 else (None, None)
            for (name, i, oid) in (objs or []):
                if oid in obj_owner and obj_owner[oid][0] != h[0]:
                    ctx.fail("C03:engine-object-shared",
                             f"workers {obj_owner[oid][0]} (slot {obj_owner[oid][1]}[{obj_owner[oid][2]}]) and {h[0]} "
                             f"(slot {name}[{i}]) run with the same engine object", rep)
                obj_owner.setdefault(oid, (h[0], name, i))
            for dpath in (dirs or []):
                if dpath in dir_owner and dir_owner[dpath] != h[0]:
                    ctx.fail("C03:exe-directory-shared", f"workers {dir_owner[dpath]} and {h[0]} run in {os.path.basename(dpath)}", rep)
                dir_owner.setdefault(dpath, h[0])
    # zero swap only when both idle: a 2-ensemble job must appear in a snapshot whose predecessor had both free
    for idx in range(1, len(sim.snaps)):
        prev_locks = sim.snaps[idx - 1][1]["locks"]
        prev_held = {h[0] for h in sim.snaps[idx - 1][2]}
        for h in sim.snaps[idx][2]:
            pin, picked = h[0], h[1]
            if len(picked) == 2 and sim.snaps[idx][0] == "prep":
                was = [j for j in sim.snaps[idx - 1][2] if j[0] == pin and len(j[1]) == 2]
                if not was and (prev_locks[0] == "1" or prev_locks[1] == "1") and pin not in prev_held:
                    ctx.fail("C03:zero-swap-started-while-busy", f"locks before {prev_locks}",
                             {"history": label, "params": getattr(sim, "params", None), "ctxseed": ctx.seed, "snapshot": idx})
    rep0 = {"history": label, "params": getattr(sim, "params", None), "ctxseed": ctx.seed}
    for (opi, what) in getattr(sim, "busy_picks", []):
        ctx.fail("C03:pick-from-busy-slot", what, dict(rep0, op_index=opi))
    for what in getattr(sim, "eng_faults", []):
        ctx.fail("C03:engine-objects-aliased", what, rep0)
    for what in getattr(sim, "unit_faults", [])[:4]:
        ctx.fail("C03:pin-not-a-worker-index", what, rep0)
    for what in getattr(sim, "unreadable", [])[:1]:
        ctx.fail("C03:state-unreadable", f"the canonical dump cannot read the sampler's state ({what})", rep0)
    if sim.error is not None:
        # who raised: the sampler, or the harness while reading the sampler's state (e.g. a None in engine_occ)?
        tb, last = sim.error.__traceback__, None
        while tb is not None:
            last = tb.tb_frame.f_code.co_filename
            tb = tb.tb_next
        if last and os.sep + "harness" + os.sep in last:
            ctx.fail("C03:state-unreadable", f"the state cannot be read after the last op ({type(sim.error).__name__}: {sim.error})", rep0)
        else:
            ctx.fail("C03:sampler-raised", f"{type(sim.error).__name__}: {sim.error}", rep0)


# ----------------------------------------------------------------------------- real engine objects
def real_engines(sim):
    """build the engine instances of this configuration with the REAL `tis.def_globals` (→ create_engines,
    create_orderparameters) on turtlemd engines; returns (tis module, engine_occ, list of faults)"""
    import tomli
    import infretis
    from infretis.core import tis
    root = os.path.dirname(os.path.dirname(os.path.abspath(infretis.__file__)))
    ex = os.path.join(root, "examples", "turtlemd", "double_well")
    if not os.path.exists(os.path.join(ex, "infretis.toml")):
        ex = "/repo/examples/turtlemd/double_well"
    with open(os.path.join(ex, "infretis.toml"), "rb") as fh:
        base = tomli.load(fh)
    ens_engs = copy.deepcopy(sim.cfg["simulation"]["ensemble_engines"])
    cfg = {"runner": {"workers": sim.workers}, "simulation": {"ensemble_engines": ens_engs},
           "orderparameter": dict(base["orderparameter"], module=os.path.join(ex, "orderp.py"))}
    for k in sim.eng_names:
        cfg[k] = copy.deepcopy(base["engine"])
    with contextlib.redirect_stdout(io.StringIO()):
        occ = tis.def_globals(cfg)
    faults = []
    for k in sim.eng_names:
        count = sum(1 for ee in ens_engs for e in ee if e == k)
        want = min(count, sim.workers)
        got = tis.ENGINES.get(k, [])
        if len(got) != want or len(occ.get(k, [])) != want or any(x != -1 for x in occ.get(k, [])):
            faults.append(f"engine {k}: {len(got)} instances, occupation {occ.get(k)}, expected {want} free instances")
        if len(set(map(id, got))) != len(got):
            faults.append(f"engine {k}: {len(got)} instance slots but only {len(set(map(id, got)))} distinct engine objects")
    return tis, occ, faults


# ----------------------------------------------------------------------------- one history (with restarts)
def _check_draws(sim, locks_before, draws, opi):
    n = sim.n
    for kind, p in draws:
        if p is None:
            continue
        if kind == "A":
            bad = [(divmod(i, n)) for i in range(len(p)) if p[i] > 1e-12 and (locks_before[i // n] or locks_before[i % n])]
            if bad:
                sim.busy_picks.append((opi, f"pick() draws from a matrix with mass on busy (path row, ensemble) pairs {bad[:6]}; "
                                            f"busy flags {''.join('1' if b else '0' for b in locks_before)}"))
        elif kind == "K":
            bad = [i for i in range(len(p)) if p[i] > 1e-12 and locks_before[i]]
            if bad:
                sim.busy_picks.append((opi, f"zero-swap partner drawn from busy rows {bad}"))


def activate(sim):
    """make `sim` the one the class-level hooks of the harness talk to (several Sims may be alive at once)"""
    os.chdir(sim.tmp)
    T.ScriptedGen.chooser = sim._choose


def make_sim(ctx, q, workers, rng, image, orig_cwd=None):
    if orig_cwd is not None:
        os.chdir(orig_cwd)
    log = T.ScriptedGen.log
    sim = T.Sim(ctx, q["n_ens"], workers, q["steps"], seed=q["seed"], wf=q["wf"], eng_types=q["et"], rng=rng,
                cstep=0 if image is None else image["cstep"], image=image, screen=q["screen"])
    if orig_cwd is not None and log is not None:
        # a second Sim alive at the same time: keep ONE draw log (the dumps count the main-stream draws in it)
        T.ScriptedGen.log = log
    sim.image = None
    sim.busy_picks, sim.eng_faults, sim.alias_faults = [], [], []
    if q["engmap"] == "rich":
        sim.rich_init = True    # initial paths valid far beyond their own ensemble: off-diagonal picks at once → sort_trajstate swaps
    M.install(sim)      # sub-step recorder on this instance (swap / lock / unlock / _trajs writes)
    sim.treat_k = {}
    if q["engmap"] == "wmd":
        # per-worker mdrun commands (GROMACS: pinned cores / GPU ids): picked[ens]["wmdrun"] = runner.wmdrun[pin]
        sim.cfg["runner"]["wmdrun"] = [f"gmx mdrun -pin on -pinoffset {4 * k} -gpu_id {k}" for k in range(workers)]
    if q["engmap"] == "wmd0":
        sim.cfg["runner"]["wmdrun"] = []       # falsy: the branch is skipped
    if q["engmap"] == "own0" and q["n_ens"] >= 3:
        # heterogeneous engines: [0-] runs on an engine of its own (exactly ONE instance, whatever the workers),
        # the other ensembles share a second engine name
        sim.eng_names = ["engine0", "engine1"]
        ens_engs = [["engine0"]] + [["engine1"] for _ in range(q["n_ens"] - 1)]
        sim.cfg["simulation"]["ensemble_engines"][:] = ens_engs
        sim.st.engine_occ = {"engine0": [-1] * min(1, workers), "engine1": [-1] * min(q["n_ens"] - 1, workers)}
        sim.lines[1] = "occ " + T.lst([len(sim.st.engine_occ[k]) for k in sim.eng_names])
        sim.lines[2] = f"enseng {q['n_ens']} " + " ".join(T.lst([sim.eng_names.index(e) for e in ee]) for ee in ens_engs)
    return sim


def _extras(md):
    """per picked ensemble: the mdrun command of the worker (runner.wmdrun[pin]) and the pin written into the entry"""
    return {"wmdrun": [dd.get("wmdrun") for dd in md["picked"].values()], "pins": [dd.get("pin") for dd in md["picked"].values()]}


def _check_unit(sim, md):
    """judged right after prep_md_items returns, before anything else reads the state: the unit's identity"""
    pin = md.get("pin")
    faults = sim.__dict__.setdefault("unit_faults", [])
    if isinstance(pin, bool) or not isinstance(pin, int) or not 0 <= pin < sim.workers:
        faults.append(f"prep_md_items hands out a job with pin {pin!r} ({sim.workers} worker(s)); folder "
                      f"{os.path.basename(str(md.get('w_folder')))}, engine_occ {dict(sim.st.engine_occ)}")
    elif os.path.basename(str(md.get("w_folder"))) != f"worker{pin}":
        faults.append(f"job of pin {pin} is sent to folder {os.path.basename(str(md.get('w_folder')))}")


def _dump(sim):
    """the canonical dump of the shared harness; when IT cannot read the state (e.g. a None where it expects a worker index) the
    history goes on with the recorder's own snapshot, so that the predicates still see what the jobs in flight share"""
    try:
        return sim.op_dump()
    except (TypeError, ValueError) as e:
        sim.__dict__.setdefault("unreadable", []).append(f"{type(e).__name__}: {e}")
        return sim.rec.snapshot()


def _job_view(md):
    return (md.get("pin"), list(md.get("ens_nums", [])), [(e, dd.get("pn_old"), dict(dd.get("eng_idx", {})), dd.get("exe_dir"), dd.get("pin"))
                                                           for e, dd in md["picked"].items()],
            md.get("w_folder"), list(md.get("pnum_old", [])))


def _state_view(sim):
    st = sim.st
    return ("".join("1" if l else "0" for l in st._locks), [t if t == "" else t.path_number for t in st._trajs],
            [(list(t[0]), list(t[1])) + tuple(t[2:]) for t in st.locked], [(list(t[0]), list(t[1])) + tuple(t[2:]) for t in st.locked0],
            {k: list(v) for k, v in st.engine_occ.items()}, st.state.tolist())


def alias_probe(sim, md, inflight):
    """what a worker may do to ITS md_items must not show in the sampler's bookkeeping nor in another job's md_items"""
    others = [o for o in inflight if o is not md]
    for o in others:
        if o is md or o["picked"] is md["picked"]:
            sim.alias_faults.append(f"jobs of pins {o.get('pin')} and {md.get('pin')} were handed the same `picked` dict")
        for e, dd in md["picked"].items():
            for e2, dd2 in o["picked"].items():
                for key in ("ens", "eng_idx"):
                    if key in dd and key in dd2 and dd[key] is dd2[key]:
                        sim.alias_faults.append(f"pins {o.get('pin')} and {md.get('pin')}: picked[{e2}]['{key}'] and picked[{e}]['{key}'] are one object")
                if dd is dd2:
                    sim.alias_faults.append(f"pins {o.get('pin')} and {md.get('pin')} share one picked entry")
    before = (_state_view(sim), [_job_view(o) for o in others])
    undo = []
    for key in ("ens_nums", "pnum_old"):
        if isinstance(md.get(key), list):
            md[key].append(-77)
            undo.append(lambda k=key: md[k].pop())
    for e, dd in md["picked"].items():
        if isinstance(dd.get("eng_idx"), dict):
            dd["eng_idx"]["__probe__"] = 99
            undo.append(lambda d=dd: d["eng_idx"].pop("__probe__"))
        old = (dd.get("pn_old"), dd.get("exe_dir"), dd.get("pin"))
        dd["pn_old"], dd["exe_dir"], dd["pin"] = -5, "/nowhere", -5
        undo.append(lambda d=dd, o=old: d.update(pn_old=o[0], exe_dir=o[1], pin=o[2]))
    after = (_state_view(sim), [_job_view(o) for o in others])
    for u in reversed(undo):
        u()
    if before[0] != after[0]:
        sim.alias_faults.append(f"changing the md_items of pin {md.get('pin')} changed the sampler's own bookkeeping (locks/paths/locked/engine_occ)")
    if before[1] != after[1]:
        sim.alias_faults.append(f"changing the md_items of pin {md.get('pin')} changed the md_items of another job in flight")


def drive(sim, q, rng, stop_after, image, weights):
    """generator: one scheduler-shaped history on `sim`, yielding after every op group (so that two can be interleaved)"""
    snaps, inflight, error, tis = [], [], None, None
    sim.snaps = snaps

    def snap(tag):
        d = _dump(sim)
        held = []
        for md in inflight:
            objs = None
            if tis is not None:
                objs = [(name, i, id(tis.ENGINES[name][i])) for dd in md["picked"].values() for name, i in dd["eng_idx"].items()]
            dirs = sorted({os.path.realpath(dd["exe_dir"]) for dd in md["picked"].values() if "exe_dir" in dd})
            held.append((md["pin"], [(e, dd["pn_old"]) for e, dd in md["picked"].items()],
                         {e: dict(dd["eng_idx"]) for e, dd in md["picked"].items()}, os.path.basename(md["w_folder"]),
                         objs, dirs, _extras(md)))
        snaps.append((tag, d, held))

    def prep(md):
        locks_before = [bool(x) for x in sim.st._locks]
        sim.rec.begin("prep", [o for o in inflight if o is not md], None)
        try:
            md = sim.op_prep(md)
        finally:
            sim.rec.end(len(sim.lines) - 1)
            _check_draws(sim, locks_before, getattr(sim, "draws_by_op", {}).get(len(sim.lines) - 1, []), len(sim.lines) - 1)
        _check_unit(sim, md)
        if q["alias"]:
            alias_probe(sim, md, inflight + [md])
        return md

    try:
        if q["engines"]:
            tis, occ, sim.eng_faults = real_engines(sim)
            if not sim.eng_faults:
                sim.st.engine_occ = occ
        if not q["wf"]:
            M.load_real(sim, image, weights)      # the REAL load_paths (shooting moves: 0/1 weights from ordermax)
        elif image is None:
            sim.load_initial()
        else:
            sim.load_initial([T.FakePath(pn, weights[pn]) for pn in image["active"]],
                             {int(k): [float(x) for x in v] for k, v in image["frac"].items()})
        if q["probe"]:
            sim.op_prob()       # any caller may look at the swap probabilities: this fills the `_last_prob` cache
        snap("loaded")
        yield
        base = {"mc_moves": sim.st.mc_moves, "interfaces": sim.st.interfaces, "cap": None}
        guard = 0
        while sim.op_initiate():
            guard += 1
            if guard > 4 * sim.n + 8:
                raise RuntimeError("initiate() keeps answering True: more jobs started than workers")
            md = prep(copy.deepcopy(base))
            inflight.append(md)
            snap("prep")
            yield
        guard = 0
        while sim.op_loop():
            guard += 1
            if guard > q["steps"] + 8:
                raise RuntimeError("loop() keeps answering True beyond the requested number of steps")
            if not inflight:
                raise RuntimeError("loop() answers True but no job is in flight")
            kidx = rng.randrange(len(inflight))
            md = inflight.pop(kidx)
            status = "ACC" if rng.random() < q["acc"] else "REJ"
            ws = sim.random_new_weights(md, rng)
            sim.rec.begin("treat", list(inflight), md)
            try:
                md = sim.op_treat(md, status, ws)
            finally:
                sim.rec.end(len(sim.lines) - 1)
                sim.treat_k[len(sim.lines) - 1] = kidx
            snap("treat")
            if stop_after is not None and 0 <= stop_after <= sim.st.cstep:
                sim.stopped_by_harness = True
                sim.image = T.read_image(sim.tmp)
                sim.weights_by_pn = {pn: v["weights"] for pn, v in sim.st.traj_data.items()}
                break
            if sim.st.cstep + sim.st.workers <= sim.st.tsteps:
                md = prep(md)
                inflight.append(md)
                snap("prep")
            yield
        if stop_after is not None and stop_after < 0:
            # the run FINISHED (loop() wrote the last restart file, workers-1 jobs still in flight): it is continued with more steps
            sim.image = T.read_image(sim.tmp)
            sim.weights_by_pn = {pn: v["weights"] for pn, v in sim.st.traj_data.items()}
    except Exception as e:  # noqa: BLE001
        error = e
    sim.error = error
    sim.inflight_end = inflight


class _Killed(Exception):
    """the process of the real scheduler() is killed by the check (restart chains of the real-scheduler families)"""


def drive_sched(sim, q, rng, stop_after=None, image=None, weights=None):
    """one history driven by the REAL `infretis.scheduler.scheduler(config)`: its two loops, its `if future:`, its
    resubmission rule and its deepcopy per worker run as they are; `setup_internal` hands it this Sim's REPEX_state
    (behind a recording proxy), `setup_runner` a runner that 'pickles' (deep-copies) every submitted md_items and a
    futures list whose as_completed() returns the jobs in an order drawn by the check"""
    import infretis.scheduler as S
    snaps, inflight = [], []
    sim.snaps = snaps
    pending = {}

    def snap(tag):
        d = _dump(sim)
        held = []
        for md in inflight:
            dirs = sorted({os.path.realpath(dd["exe_dir"]) for dd in md["picked"].values() if "exe_dir" in dd})
            held.append((md["pin"], [(e, dd["pn_old"]) for e, dd in md["picked"].items()],
                         {e: dict(dd["eng_idx"]) for e, dd in md["picked"].items()}, os.path.basename(md["w_folder"]), None, dirs,
                         _extras(md)))
        snaps.append((tag, d, held))

    class Fut:
        def __init__(self, md):
            self.md = md

        def result(self):
            return self.md

    class Runner:
        def submit_work(self, md):
            return Fut(copy.deepcopy(md))      # the pickling boundary: the worker gets a copy, the result is that copy

        def stop(self):
            pass

    lazy = None
    if q.get("runner"):
        # the hand-over as the real aiorunner does it: the REFERENCE is queued, the copy is made when a worker takes it
        lazy = Z.LazyRunner(sim, rng, q["runner"], by_reference=_runner_by_reference())
        sim.lazy = lazy
        Z.install_mid_hook(sim, lazy)

    class Futures:
        def __init__(self):
            self.l = []

        def add(self, f):
            self.l.append(f)
            inflight.append(f.md)
            snap("prep")

        def as_completed(self):
            if not self.l:
                return None
            if lazy is not None:
                lazy.take_point("as-completed")
                if not lazy.running:
                    lazy.take_point("as-completed", force=1)       # a job completes only after a worker took it
                cand = [i for i, f in enumerate(self.l) if lazy.is_running(f.entry)]
                if not cand:
                    raise RuntimeError("as_completed(): no unit is running in a worker")
                kidx = rng.choice(cand)
                lazy.complete(self.l[kidx].entry)
            else:
                kidx = rng.randrange(len(self.l))
            f = self.l.pop(kidx)
            inflight.pop(kidx)
            pending["k"] = kidx
            return f

    class Proxy:
        """what scheduler() touches of the state: initiate, prep_md_items, loop, treat_output, cstep, workers, tsteps"""
        cstep = property(lambda self: sim.st.cstep)
        workers = property(lambda self: sim.st.workers)
        tsteps = property(lambda self: sim.st.tsteps)

        def initiate(self):
            return sim.op_initiate()

        def loop(self):
            return sim.op_loop()

        def prep_md_items(self, md):
            locks_before = [bool(x) for x in sim.st._locks]
            if lazy is not None:
                lazy.before_prep(md, sim.st.ensembles)
            sim.rec.begin("prep", list(inflight), None)
            ok = False
            try:
                out = sim.op_prep(md)
                ok = True
                _check_unit(sim, out)
                return out
            finally:
                sim.rec.end(len(sim.lines) - 1)
                _check_draws(sim, locks_before, getattr(sim, "draws_by_op", {}).get(len(sim.lines) - 1, []), len(sim.lines) - 1)
                if lazy is not None:
                    lazy.after_prep(md, ok)

        def treat_output(self, md):
            status = "ACC" if rng.random() < q["acc"] else "REJ"
            ws = sim.random_new_weights(md, rng)
            sim.rec.begin("treat", list(inflight), md)
            try:
                md = sim.op_treat(md, status, ws)       # the worker's part (status, trial paths) + the real treat_output
            finally:
                sim.rec.end(len(sim.lines) - 1)
                sim.treat_k[len(sim.lines) - 1] = pending.get("k")
            snap("treat")
            if stop_after is not None and 0 <= stop_after <= sim.st.cstep:
                # the process dies right after treat_output wrote the restart file (jobs in flight stay on record)
                sim.stopped_by_harness = True
                sim.image = T.read_image(sim.tmp)
                sim.weights_by_pn = {pn: v["weights"] for pn, v in sim.st.traj_data.items()}
                raise _Killed()
            return md

    base = {"mc_moves": sim.st.mc_moves, "interfaces": sim.st.interfaces, "cap": None}
    o_int, o_run = S.setup_internal, S.setup_runner
    error = None
    try:
        if not q["wf"]:
            M.load_real(sim, image, weights)
        elif image is None:
            sim.load_initial()
        else:
            sim.load_initial([T.FakePath(pn, weights[pn]) for pn in image["active"]],
                             {int(k): [float(x) for x in v] for k, v in image["frac"].items()})
        snap("loaded")
        S.setup_internal = lambda config: (base, Proxy())
        S.setup_runner = lambda state: ((lazy if lazy is not None else Runner()), Futures())
        S.scheduler(sim.cfg)
        if stop_after is not None and stop_after < 0:
            sim.image = T.read_image(sim.tmp)
            sim.weights_by_pn = {pn: v["weights"] for pn, v in sim.st.traj_data.items()}
    except _Killed:
        pass
    except Exception as e:  # noqa: BLE001
        error = e
    finally:
        S.setup_internal, S.setup_runner = o_int, o_run
    sim.error = error
    sim.inflight_end = inflight


def run_segment(ctx, q, workers, rng, stop_after, image, weights):
    sim = make_sim(ctx, q, workers, rng, image)
    sim.error = None
    if q["sched"]:
        drive_sched(sim, q, rng, stop_after, image, weights)
    else:
        for _ in drive(sim, q, rng, stop_after, image, weights):
            pass
    sim.close()
    return sim


def norm(params):
    """(n_ens, workers, steps, seed, wf, eng_types, acc_p[, with_model, restarts, screen, probe, engines, wseq, engmap, alias, sched, runner])
    wseq: workers of the restarted segments (default: unchanged); sched: the history is driven by the REAL scheduler();
    runner ("" | "late" | "eager" | "random", sched only): the runner keeps the submitted REFERENCE and copies when a worker takes the unit"""
    p = list(params) + [True, [], 0, False, False, [], "", False, False, ""][max(0, len(params) - 7):]
    return dict(n_ens=p[0], workers=p[1], steps=p[2], seed=p[3], wf=p[4], et=p[5], acc=p[6], with_model=bool(p[7]),
                restarts=[int(x) for x in p[8]], screen=int(p[9]), probe=bool(p[10]), engines=bool(p[11]),
                wseq=[int(x) for x in p[12]], engmap=str(p[13]), alias=bool(p[14]), sched=bool(p[15]), runner=str(p[16]))


def label_of(q, ctx):
    return (f"n_ens={q['n_ens']} workers={q['workers']} steps={q['steps']} seed={q['seed']} wf={q['wf']} eng_types={q['et']} "
            f"acc_p={q['acc']} restarts={q['restarts']} screen={q['screen']} probe={q['probe']} real_engines={q['engines']} "
            f"wseq={q['wseq']} engmap={q['engmap']} alias={q['alias']} sched={q['sched']}" + (f" runner={q['runner']}" if q['runner'] else "") + f" ctxseed={ctx.seed}")


def judge(ctx, q, sims, label, with_model, outs, family):
    for k, sim in enumerate(sims):
        ctx.count(len(sim.snaps), history=f"n{q['n_ens']}w{sim.workers}", family=family)
        two = sum(1 for (_t, _d, held) in sim.snaps for j in held if len(j[1]) == 2)
        ctx.hit("snapshots_with_zero_swap_in_flight", two)
        if k > 0:
            ctx.hit("restarted_segments", 1)
            rec = sum(1 for l in sim.lines if l.startswith("locked0 "))
            ctx.hit("jobs_reissued_after_restart", min(rec, sim.workers))
            if rec > sim.workers:
                ctx.hit("restarts_with_fewer_workers_than_records", 1)
            if rec < sim.workers - 0 and sim.workers > sims[k - 1].workers:
                ctx.hit("restarts_with_more_workers", 1)
        for (tag, d, held) in sim.snaps:
            ctx.distinct((d["W"], d["trajs"], d["locks"], str([h[:4] for h in held])))
            if d.get("_prob_stale") not in ("0", None):
                ctx.hit("snapshots_with_stale_probability_cache", 1)
        lab = label + (f" segment={k}" if k else "")
        try:
            predicates(ctx, sim, lab)
        except Exception as e:  # noqa: BLE001  (a state the predicates cannot even read is a failing input, not a harness crash)
            ctx.fail("C03:state-unreadable", f"{type(e).__name__}: {e}", {"history": lab, "params": getattr(sim, "params", None), "ctxseed": ctx.seed})
        try:
            M.substep_predicates(ctx, sim, lab)
        except Exception as e:  # noqa: BLE001
            ctx.fail("C03:state-unreadable", f"sub-steps: {type(e).__name__}: {e}", {"history": lab, "params": getattr(sim, "params", None), "ctxseed": ctx.seed})
        for what in getattr(sim, "alias_faults", [])[:3]:
            ctx.fail("C03:md-items-aliased", what, {"history": lab, "params": getattr(sim, "params", None), "ctxseed": ctx.seed})
        lz = getattr(sim, "lazy", None)
        if lz is not None:
            ctx.hit("lazy_runner_takes", lz.ntake)
            ctx.hit("lazy_runner_takes_after_a_later_submission", lz.late_takes)
            ctx.hit("lazy_runner_takes_inside_prep_or_treat", lz.mid_takes)
            ctx.count(lz.ntake, family="lazy-runner-takes")
            for (sig, what) in lz.faults:
                ctx.fail(sig, what, {"history": lab, "params": getattr(sim, "params", None), "ctxseed": ctx.seed})
        if with_model:
            outs.append((sim, lab))


def one(ctx, params, with_model, outs):
    if params and params[0] == "two":
        two_states(ctx, tuple(params[1]), tuple(params[2]), with_model, outs)
        return None
    q = norm(params)
    label = label_of(q, ctx)
    rng = random.Random(label)
    sims, image, weights = [], None, None
    wseq = [q["workers"]] + (q["wseq"] + [q["wseq"][-1] if q["wseq"] else q["workers"]] * len(q["restarts"]))[:len(q["restarts"])]
    steps = q["steps"]
    for k, stop in enumerate(list(q["restarts"]) + [None]):
        # a negative entry -m: the segment runs to its END, the next one continues the finished run with m more steps
        sim = run_segment(ctx, dict(q, steps=steps), wseq[k], rng, stop, image, weights)
        sim.params = list(params)
        sims.append(sim)
        if stop is None or sim.error is not None or sim.image is None:
            break
        image, weights = sim.image, sim.weights_by_pn
        if q["engmap"] == "noord":
            # a restart file of the older format: in-flight jobs on record WITHOUT the ordinal of their random stream
            image = dict(image, locked=[list(e[:2]) for e in image.get("locked", [])])
            ctx.hit("restarts_from_records_without_ordinal", 1)
        if stop < 0:
            steps += -stop
            ctx.hit("finished_runs_continued", 1)
    family = "real-scheduler" if q["sched"] else (
        "engines" if q["engines"] else ("restart" if q["restarts"] else ("alias" if q["alias"] else "plain")))
    judge(ctx, q, sims, label, with_model, outs, family)
    return sims[-1]


def two_states(ctx, pa, pb, with_model, outs):
    """TWO REPEX_state objects alive in one process, their histories interleaved op group by op group: each must behave
    exactly as if it were alone (its own busy set, paths, records; compared with the functional model separately)"""
    qa, qb = norm(pa), norm(pb)
    label = "two-states A[" + label_of(qa, ctx) + "] B[" + label_of(qb, ctx) + "]"
    rng = random.Random(label)
    ra, rb = random.Random(label + "A"), random.Random(label + "B")
    orig = os.getcwd()
    T.ScriptedGen.log = None
    a = make_sim(ctx, qa, qa["workers"], ra, None)
    b = make_sim(ctx, qb, qb["workers"], rb, None, orig_cwd=orig)
    a.error = b.error = None
    a.params, b.params = ["two", list(pa), list(pb)], ["two", list(pa), list(pb)]
    gens = {id(a): (a, drive(a, qa, ra, None, None, None)), id(b): (b, drive(b, qb, rb, None, None, None))}
    live = [a, b]
    try:
        while live:
            sim = rng.choice(live)
            activate(sim)
            try:
                next(gens[id(sim)][1])
            except StopIteration:
                live.remove(sim)
    finally:
        os.chdir(orig)
        for sim in (a, b):
            sim.cwd0 = orig
            sim.close()
    for sim, q, tag in ((a, qa, "A"), (b, qb, "B")):
        judge(ctx, q, [sim], label + " state=" + tag, with_model, outs, "two-states")


def run(ctx):
    rng = ctx.rng
    ctx.rule = ("scheduler-shaped histories of the real REPEX_state (initiate/prep…, loop/treat_output/prep…) with all "
                "random outcomes (pick, coin, partner, completion order, accept/reject, new weight vectors) drawn from "
                "the check's PRNG among the admissible ones; grid over (ensembles 2..5, workers 1..ensembles-1) plus "
                "random deep runs up to 8 ensembles; restart chains (stop with jobs in flight, re-issue, up to 2 restarts) with "
                "and without output.screen=1 / an observation of `prob` after load, also with more / fewer workers than at the stop; "
                "boundary runs (steps <, =, > workers; maximal workers; [0-] on an engine of its own); md_items aliasing probes; two "
                "samplers interleaved in one process; histories on the REAL engine instances "
                "(def_globals → create_engines, turtlemd); histories driven by the REAL scheduler() (setup_internal / setup_runner "
                "replaced by a recording proxy state and a deep-copying runner, completion order drawn by the check), also with a runner "
                "that keeps the submitted REFERENCE and copies at take points drawn among all the real queue allows (late / eager / random, "
                "also inside prep_md_items / treat_output) — judged on what the workers RECEIVE; output.screen in {0,1,5}; runner.wmdrun "
                "lists; finished runs continued with more steps; the Monte-Carlo branch of inf_retis directly; "
                "every op also observed at SUB-STEP granularity (a snapshot after every write to _locks/_trajs/state inside "
                "treat_output / prep_md_items) and compared with the model's trace; every history also replayed event by event "
                "through the model's sysStep; load through the REAL load_paths (sh moves); direct cases for create_engines "
                "(random ensemble_engines × workers) and assign_engines (random occupation tables incl. exhausted ones); "
                "distinct = distinct (W, slot order, locks, in-flight jobs) snapshots")
    plans = []
    for n_ens in (2, 3, 4, 5):
        for w in range(1, n_ens):
            for rep in range(2 if ctx.quick else 8):
                plans.append((n_ens, w, 12 + 4 * n_ens, rng.randint(0, 9), bool(rep % 2), 1 + rep % 2, 0.7, True))
    for _ in range(6 if ctx.quick else 60):
        n_ens = rng.randint(5, 8)
        plans.append((n_ens, rng.randint(1, n_ens - 1), rng.randint(40, 120 if ctx.quick else 300), rng.randint(0, 9),
                      rng.random() < 0.5, rng.randint(1, 3), rng.choice([0.3, 0.7, 0.95]), n_ens <= 5))
    # restart chains: the stop leaves workers-1 jobs in flight, the restart re-issues them and then picks afresh
    observers = [(1, False), (0, True), (1, True), (0, False)]
    for i in range(12 if ctx.quick else 72):
        n_ens = rng.randint(3, 7)
        w = rng.randint(2, n_ens - 1) if n_ens > 3 else 2
        steps = rng.randint(12, 30)
        stops = sorted(rng.sample(range(1, steps - w - 1), rng.choice([1, 1, 2])))
        screen, probe = observers[i % 4]
        plans.append((n_ens, w, steps, rng.randint(0, 9), rng.random() < 0.5, rng.randint(1, 2), rng.choice([0.3, 0.7, 0.95]),
                      n_ens <= 5, stops, screen, probe, False))
    # the real engine objects
    for i in range(8 if ctx.quick else 40):
        n_ens = rng.randint(3, 7)
        w = rng.randint(2, n_ens - 1) if n_ens > 3 else 2
        steps = rng.randint(10, 30)
        stops = [] if i % 3 else [rng.randint(1, steps - w - 1)]
        plans.append((n_ens, w, steps, rng.randint(0, 9), False, rng.randint(1, 3), 0.7, False, stops, 0, False, True))
    # restarts with MORE and with FEWER workers than at the stop (fewer: recorded jobs are dropped), chains
    for i in range(8 if ctx.quick else 48):
        n_ens = rng.randint(4, 7)
        w = rng.randint(2, n_ens - 1)
        steps = rng.randint(14, 30)
        stops = sorted(rng.sample(range(1, steps - n_ens), rng.choice([1, 2])))
        wseq = [rng.choice([1, max(1, w - 1), w + 1 if w + 1 <= n_ens - 1 else w, n_ens - 1]) for _ in stops]
        screen, probe = observers[i % 4]
        plans.append((n_ens, w, steps, rng.randint(0, 9), rng.random() < 0.5, rng.randint(1, 2), rng.choice([0.3, 0.7]),
                      n_ens <= 5, stops, screen, probe, False, wseq, "", False))
    # boundaries: steps < workers, steps == workers, stop after the very first step, [0-] on an engine of its own
    # (one instance with >= 2 workers), maximal worker count
    for n_ens in (3, 4, 5) if ctx.quick else (3, 4, 5, 6):
        w = n_ens - 1
        for steps in (1, w - 1, w, w + 1):
            if steps >= 1:
                plans.append((n_ens, w, steps, rng.randint(0, 9), False, 1, 0.7, True, [], 0, False, False, [], "own0", False))
        plans.append((n_ens, w, 12, rng.randint(0, 9), False, 1, 0.7, True, [1], 1, True, False, [w], "own0", False))
        plans.append((n_ens, w, 12, rng.randint(0, 9), False, 1, 0.7, False, [], 0, False, True, [], "own0", False))
    # fewer workers than recorded jobs: records are dropped (never re-issued), disjointness must still hold
    for n_ens, w in ((5, 4), (6, 4)) if ctx.quick else ((5, 4), (6, 4), (6, 5), (7, 5), (7, 6), (5, 3)):
        plans.append((n_ens, w, 20, rng.randint(0, 9), False, 1, 0.7, n_ens <= 5, [rng.randint(2, 6), rng.randint(8, 12)], 0, False, False,
                      [rng.choice([1, 2]), w], "", False))
    # what a worker does to its md_items stays with that job
    for i in range(4 if ctx.quick else 16):
        n_ens = rng.randint(3, 6)
        plans.append((n_ens, rng.randint(2, n_ens - 1) if n_ens > 3 else 2, rng.randint(10, 20), rng.randint(0, 9), i % 2 == 1,
                      rng.randint(1, 2), 0.7, n_ens <= 5, [] if i % 2 else [rng.randint(1, 4)], 0, False, False, [], "", True))
    # initial paths that reach beyond their own ensemble + high acceptance: many off-diagonal picks, sort_trajstate has to swap
    for i in range(6 if ctx.quick else 40):
        n_ens = rng.randint(4, 5)
        plans.append((n_ens, rng.randint(1, n_ens - 1), rng.randint(20, 40), rng.randint(0, 9), i % 2 == 1, 1, 0.95, True,
                      [] if i % 3 else [rng.randint(2, 8)], 0, False, False, [], "rich", False, False))
    # the REAL scheduler() function drives the history (its loops, its resubmission rule, its deepcopy per worker)
    for i in range(8 if ctx.quick else 60):
        n_ens = rng.randint(2, 6)
        w = rng.randint(1, n_ens - 1)
        steps = rng.choice([1, w, w + 1, rng.randint(6, 24)])
        plans.append((n_ens, w, steps, rng.randint(0, 9), i % 3 == 2, rng.randint(1, 2), rng.choice([0.3, 0.7, 0.95]), n_ens <= 5,
                      [], 0, False, False, [], "", False, True))
    # output.screen = 5 (printing on every fifth step only: print_pick / print_shooted / print_state read the cache), with
    # and without restarts; per-worker mdrun commands (runner.wmdrun, also the empty list); finished runs that are continued
    for i in range(8 if ctx.quick else 48):
        n_ens = rng.randint(3, 6)
        w = rng.randint(2, n_ens - 1)
        steps = rng.randint(11, 24)
        stops = [] if i % 2 else [rng.randint(2, steps - w - 1)]
        plans.append((n_ens, w, steps, rng.randint(0, 9), i % 4 == 1, rng.randint(1, 2), rng.choice([0.3, 0.7, 0.95]), n_ens <= 5,
                      stops, 5, i % 4 == 2, False, [], "", False, i % 4 == 3))
    for i in range(6 if ctx.quick else 36):
        n_ens = rng.randint(3, 6)
        w = rng.randint(2, n_ens - 1)
        steps = rng.randint(8, 20)
        plans.append((n_ens, w, steps, rng.randint(0, 9), i % 2 == 1, rng.randint(1, 2), 0.7, n_ens <= 5,
                      [] if i % 3 else [rng.randint(1, steps - w - 1)], rng.choice([0, 1, 5]), False, False, [], "wmd" if i % 6 else "wmd0", False,
                      i % 3 == 1))
    for i in range(6 if ctx.quick else 36):
        n_ens = rng.randint(3, 6)
        w = rng.randint(2, n_ens - 1)
        steps = rng.randint(w, 14)
        chain = [-rng.randint(1, 8)] + ([] if i % 2 else [rng.choice([-rng.randint(1, 6), steps + 1])])
        plans.append((n_ens, w, steps, rng.randint(0, 9), i % 2 == 1, rng.randint(1, 2), rng.choice([0.3, 0.7]), n_ens <= 5,
                      chain, rng.choice([0, 1, 5]), False, False, [rng.choice([w, max(1, w - 1), min(n_ens - 1, w + 1)])], "", False))
    # restart files without job ordinals (older format: pick_lock hands the re-issued job a fresh stream); the process killed right
    # after the LAST treat_output (restart with no step left: initiate() and loop() answer False at once)
    for i in range(4 if ctx.quick else 24):
        n_ens = rng.randint(3, 6)
        w = rng.randint(2, n_ens - 1)
        steps = rng.randint(8, 16)
        plans.append((n_ens, w, steps, rng.randint(0, 9), i % 2 == 1, 1, 0.7, n_ens <= 5, sorted(rng.sample(range(1, steps - w), 2)),
                      rng.choice([0, 1]), False, False, [w, rng.choice([w, max(1, w - 1)])], "noord", False, i % 4 == 3))
    for i in range(3 if ctx.quick else 12):
        n_ens = rng.randint(3, 5)
        w = rng.randint(1, n_ens - 1)
        steps = rng.randint(max(2, w), 9)
        plans.append((n_ens, w, steps, rng.randint(0, 9), i % 2 == 1, 1, 0.7, True, [steps], rng.choice([0, 1, 5]), False, False, [w], "", False))
    # the REAL scheduler() with a runner that keeps the submitted REFERENCE and copies when a worker takes the unit (as the
    # real aiorunner: enqueue now, pickle later): take points late / eager / drawn at random among all the queue allows
    for i in range(15 if ctx.quick else 120):
        n_ens = rng.randint(3, 6)
        w = rng.randint(2, n_ens - 1)
        steps = rng.choice([w, w + 1, rng.randint(6, 20), rng.randint(6, 20)])
        plans.append((n_ens, w, steps, rng.randint(0, 9), i % 3 == 2, rng.randint(1, 2), rng.choice([0.3, 0.7, 0.95]), n_ens <= 5,
                      [], rng.choice([0, 1, 5]), False, False, [], "", False, True, ("late", "random", "random", "eager", "random")[i % 5]))
    # … the same across restarts: the process is killed after a treat_output, the REAL scheduler() re-issues the recorded jobs in its
    # initiation loop (fresh copy of the template per worker) and the runner again copies late
    for i in range(6 if ctx.quick else 48):
        n_ens = rng.randint(4, 6)
        w = rng.randint(2, n_ens - 1)
        steps = rng.randint(8, 18)
        stops = sorted(rng.sample(range(1, steps - w), rng.choice([1, 2]))) if i % 3 else [-rng.randint(2, 6)]
        plans.append((n_ens, w, steps, rng.randint(0, 9), i % 2 == 1, rng.randint(1, 2), rng.choice([0.3, 0.7]), n_ens <= 5,
                      stops, rng.choice([0, 1, 5]), False, False, [rng.choice([w, max(1, w - 1), min(n_ens - 1, w + 1)])], "wmd" if i % 2 else "",
                      False, True, ("late", "random")[i % 2]))
    outs = []
    for p in plans:
        one(ctx, p, p[7] and ctx._driver_ok, outs)
    # two samplers alive in one process, interleaved
    for i in range(3 if ctx.quick else 12):
        na, nb = rng.randint(3, 5), rng.randint(3, 5)
        pa = (na, rng.randint(1, na - 1), rng.randint(8, 16), rng.randint(0, 9), False, 1, 0.7, True)
        pb = (nb, rng.randint(1, nb - 1), rng.randint(8, 16), rng.randint(0, 9), i % 2 == 1, rng.randint(1, 2), 0.7, True)
        one(ctx, ("two", pa, pb), ctx._driver_ok, outs)
    for sim, label in outs:
        model = ctx.driver(M.micro_lines(sim))       # `prepm` / `treatm`: the answers of prep / treat plus the sub-step trace
        plain, traces = M.split_answers(model)
        if T.compare(ctx, sim, plain, label) == 0:
            if M.compare_traces(ctx, sim, traces, label) == 0:
                M.compare_events(ctx, sim, label)       # the same history through `sysStep` (one scheduler event per line)
    M.factory_cases(ctx)
    A.mc_cases(ctx)
    ctx.extra["real_aiorunner_queues_the_reference"] = _runner_by_reference()
    import sys
    A.classlevel_note(ctx, sys.modules[__name__])
    ctx.sample({"history": outs[0][1] if outs else "-", "first_ops": outs[0][0].lines[:10] if outs else []})
    if outs:
        s = outs[-1][0]
        ctx.sample({"history": outs[-1][1], "a_snapshot": s.snaps[len(s.snaps) // 2][1]["locks"],
                    "in_flight": str([h[:4] for h in s.snaps[len(s.snaps) // 2][2]])})
    new_assumptions = [
        "the MD move is abstracted to its outcome (status + new weight vectors in the staircase family)",
        "histories with more than 5 ensembles are checked by the direct predicates only (the model's exact permanents are exponential)",
        "two OS processes given different folders do not touch each other's files (not checked)",
        "an engine instance of the model is the pair (engine type, index); that distinct indices are distinct engine OBJECTS "
        "(create_engines builds min(count, workers) separate instances per name) is established by the tie on the real "
        "def_globals/create_engines with turtlemd engines, resolving every job's engines as select_shoot does",
        "the model has no probability cache (`prob` is a function of (W, locks)); coherence of the code's `_last_prob` cache is "
        "tie-only: restart chains are run with output.screen=1 and with `prob` read right after load, and the matrix handed to "
        "every pick is compared with the model's and must carry no mass on a busy row/column",
        "REPEX_state is used as ONE long-lived object over whole histories (and two of them alive at once, interleaved); the "
        "model is functional, so equality with the model after every op is equality with a fresh object's answer (tie-only)",
        "aliasing of handed-out md_items (between jobs, and with the sampler's own lists) is tie-only: the model's jobs are values",
        "two set-ups in one process share the module global tis.ENGINES by design (one sampler per process); not part of this check",
        "sub-step snapshots are taken through wrappers around the instance's own swap/lock/unlock and a list subclass for _trajs; "
        "`state[ens,:] = valid` is observed on entry of the following unlock(); an exception inside an op ends its trace (compared as error kind)",
        "the pickling boundary of the process pool is emulated by copy.deepcopy of every submitted md_items (real-scheduler family); "
        "object identity of the ens dicts / md_items between jobs is tie-only (alias probes), the model's jobs are values",
        "lazy-runner family: the real aiorunner is replaced by a synchronous runner that keeps the submitted REFERENCE and copies when "
        "the schedule lets a worker take the unit (FIFO; take points: before/after the enqueue, at every sub-step event inside the "
        "following prep_md_items / treat_output, forced at as_completed / stop). That the real aiorunner queues the reference is "
        "probed on its `_add_work_to_queue` on every run (evidence: real_aiorunner_queues_the_reference; if it copies, the runner of "
        "the check copies at submit too); its event-loop / feeder threads and the pickle itself are not executed here (C17). "
        "The heap/queue model `Infretis.Repex.Submit` treats prep_md_items as two writes to the unit (drop the old job, hold the new "
        "one); a unit is the tuple the model's Job carries (pin, folder, picked ensembles/paths/streams/engine indices) — other keys of "
        "md_items are compared by the tie's content rendering only",
        "blocks of more than 12 idle ensembles with unequal weights: inf_retis estimates the matrix by Monte Carlo (`random_prob`, "
        "10 000 sweeps drawn on the SCHEDULER stream). Not modelled: the model's `prob` is the exact permanent ratio for every size, and "
        "the theorems quantify over every outcome with positive EXACT probability; they cover the code there because the Monte-Carlo "
        "support is contained in the exact support (visited states are permutations with non-zero weights) — judged directly on the "
        "real function (support ⊆ idle × idle, ⊆ non-zero weights, ⊆ exact support), histories never reach that size (≤ 8 ensembles)",
        "runner.wmdrun (per-worker mdrun command) is not in the model; tie-only predicates (own command per pin, pairwise distinct in flight)",
        "every REPEX_state of a history gets its own traj_data dict and a fake path store (shared harness); the class-level "
        "traj_data/pstore/ensembles/engine_occ attributes of the real class (shared by all samplers of one process unless rebound) are "
        "only looked at by a recorded note (evidence: note_class_level_traj_data)",
        "select_shoot's resolution ENGINES[name][idx] is modelled as Factory.engineObj; the tie resolves the objects itself, select_shoot is not executed",
    ]
    ctx.assumptions += [a for a in new_assumptions if a not in ctx.assumptions]   # run() is re-entered on escalation


def replay(ctx, obj):
    """re-run the recorded history (same parameters, same per-history PRNG) on the current code"""
    r = obj.get("replay", {})
    if str(r.get("function", "")).startswith("inf_retis"):
        ctx.seed = r.get("ctxseed", ctx.seed)
        A.mc_one(ctx, int(r["n_ens"]), int(r["seed"]), int(r["reach"]), str(r["locks"]))
        for f in ctx.fails:
            print("still fails:", f["signature"], f["what"])
        return 1 if ctx.fails else 0
    if not r.get("params"):
        print("no history parameters in this replay file:", r)
        return 1
    ctx.seed = r.get("ctxseed", ctx.seed)
    one(ctx, tuple(r["params"]), False, [])   # also the two-state form ("two", paramsA, paramsB)
    for f in ctx.fails:
        print("still fails:", f["signature"], f["what"])
    return 1 if ctx.fails else 0
