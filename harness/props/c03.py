"""C03 — a busy ensemble, path, engine or work directory is never shared.

Tie: the real REPEX_state driven through scheduler-shaped histories (repex_tie) against the Lean
state machine (Infretis.Repex), state-for-state after every op; then the property predicates are
evaluated directly on the real snapshots (independent of the model).
"""
from __future__ import annotations

import itertools

import repex_tie as T


def predicates(ctx, sim, label):
    """the property, stated on what the real code did (snapshots after every op)"""
    n = sim.n
    for idx, (tag, d, held) in enumerate(sim.snaps):
        locks = d["locks"]
        trajs = d["trajs"].split(",")
        W = [row.split(",") for row in d["W"].split(";")]
        ens_held = [e for (_pin, picked, _eng, _wf) in held for (e, _pn) in picked]
        pns_held = [pn for (_pin, picked, _eng, _wf) in held for (_e, pn) in picked]
        rep = {"history": label, "params": getattr(sim, "params", None), "ctxseed": ctx.seed, "snapshot": idx, "after": tag, "locks": locks, "trajs": d["trajs"], "held": str(held)}
        if len(set(ens_held)) != len(ens_held):
            ctx.fail("C03:ensemble-shared", f"an ensemble is held by two in-flight jobs: {ens_held}", rep)
        if len(set(pns_held)) != len(pns_held):
            ctx.fail("C03:path-shared", f"a path is held by two in-flight jobs: {pns_held}", rep)
        busy = sorted(i - 1 for i, l in enumerate(locks[:-1]) if l == "1")
        if busy != sorted(ens_held) or locks[-1] != "1":
            ctx.fail("C03:busy-flags-differ-from-inflight", f"busy ensembles {busy} but in flight {sorted(ens_held)}", rep)
        for (_pin, picked, _eng, _wf) in held:
            for (e, pn) in picked:
                slot = e + 1
                if trajs[slot] != str(pn):
                    ctx.fail("C03:held-path-not-in-its-slot", f"ensemble {e} holds path {trajs[slot]}, job has {pn}", rep)
                if W[slot][slot] in ("0", "0.0"):
                    ctx.fail("C03:zero-weight-job", f"path {pn} has zero weight in ensemble {e}", rep)
            es = [e for (e, _pn) in picked]
            if len(es) == 2 and sorted(es) != [-1, 0]:
                ctx.fail("C03:two-ensemble-job-not-zero-swap", f"job holds {es}", rep)
            if len(es) > 2:
                ctx.fail("C03:job-holds-more-than-two", f"job holds {es}", rep)
        pins = [pin for (pin, *_r) in held]
        wfs = [wf for (*_r, wf) in held]
        if len(set(pins)) != len(pins) or len(set(wfs)) != len(wfs):
            ctx.fail("C03:worker-directory-shared", f"pins {pins} folders {wfs}", rep)
        for (pin, _p, _e, wf) in held:
            if wf != f"worker{pin}":
                ctx.fail("C03:folder-not-own", f"pin {pin} got {wf}", rep)
        inst = [(k, i) for (_pin, _picked, eng, _wf) in held for ed in eng.values() for k, i in ed.items()]
        per_job = [set((k, i) for ed in eng.values() for k, i in ed.items()) for (_pin, _picked, eng, _wf) in held]
        allinst = [x for s in per_job for x in s]
        if len(set(allinst)) != len(allinst):
            ctx.fail("C03:engine-instance-shared", f"engine instances {inst}", rep)
    # zero swap only when both idle: a 2-ensemble job must appear in a snapshot whose predecessor had both free
    for idx in range(1, len(sim.snaps)):
        prev_locks = sim.snaps[idx - 1][1]["locks"]
        prev_held = {pin for (pin, *_r) in sim.snaps[idx - 1][2]}
        for (pin, picked, _eng, _wf) in sim.snaps[idx][2]:
            if len(picked) == 2 and sim.snaps[idx][0] == "prep":
                was = [j for j in sim.snaps[idx - 1][2] if j[0] == pin and len(j[1]) == 2]
                if not was and (prev_locks[0] == "1" or prev_locks[1] == "1") and pin not in prev_held:
                    ctx.fail("C03:zero-swap-started-while-busy", f"locks before {prev_locks}",
                             {"history": label, "snapshot": idx})
    if sim.error is not None:
        ctx.fail("C03:sampler-raised", f"{type(sim.error).__name__}: {sim.error}", {"history": label})


def one(ctx, params, with_model, outs):
    n_ens, workers, steps, seed, wf, et, acc = params[:7]
    label = f"n_ens={n_ens} workers={workers} steps={steps} seed={seed} wf={wf} eng_types={et} acc_p={acc} ctxseed={ctx.seed}"
    import random
    sim = T.run_history(ctx, n_ens, workers, steps, seed=seed, wf=wf, eng_types=et, acc_p=acc,
                        rng=random.Random(label))
    sim.params = list(params)
    ctx.count(len(sim.snaps), history=f"n{n_ens}w{workers}")
    two = sum(1 for (_t, _d, held) in sim.snaps for j in held if len(j[1]) == 2)
    ctx.hit("snapshots_with_zero_swap_in_flight", two)
    for (tag, d, held) in sim.snaps:
        ctx.distinct((d["W"], d["trajs"], d["locks"], str(held)))
    predicates(ctx, sim, label)
    if with_model:
        outs.append((sim, label))
    return sim


def run(ctx):
    rng = ctx.rng
    ctx.rule = ("scheduler-shaped histories of the real REPEX_state (initiate/prep…, loop/treat_output/prep…) with all "
                "random outcomes (pick, coin, partner, completion order, accept/reject, new weight vectors) drawn from "
                "the check's PRNG among the admissible ones; grid over (ensembles 2..5, workers 1..ensembles-1) plus "
                "random deep runs up to 8 ensembles; distinct = distinct (W, slot order, locks, in-flight jobs) snapshots")
    plans = []
    for n_ens in (2, 3, 4, 5):
        for w in range(1, n_ens):
            for rep in range(2 if ctx.quick else 8):
                plans.append((n_ens, w, 12 + 4 * n_ens, rng.randint(0, 9), bool(rep % 2), 1 + rep % 2, 0.7, True))
    for _ in range(6 if ctx.quick else 60):
        n_ens = rng.randint(5, 8)
        plans.append((n_ens, rng.randint(1, n_ens - 1), rng.randint(40, 120 if ctx.quick else 300), rng.randint(0, 9),
                      rng.random() < 0.5, rng.randint(1, 3), rng.choice([0.3, 0.7, 0.95]), n_ens <= 5))
    outs = []
    for p in plans:
        one(ctx, p[:7], p[7] and ctx._driver_ok, outs)
    for sim, label in outs:
        model = ctx.driver(sim.lines)
        T.compare(ctx, sim, model, label)
    ctx.sample({"history": outs[0][1] if outs else "-", "first_ops": outs[0][0].lines[:10] if outs else []})
    if outs:
        s = outs[-1][0]
        ctx.sample({"history": outs[-1][1], "a_snapshot": s.snaps[len(s.snaps) // 2][1]["locks"],
                    "in_flight": str(s.snaps[len(s.snaps) // 2][2])})
    ctx.assumptions += [
        "the MD move is abstracted to its outcome (status + new weight vectors in the staircase family)",
        "histories with more than 5 ensembles are checked by the direct predicates only (the model's exact permanents are exponential)",
        "two OS processes given different folders do not touch each other's files (not checked)",
    ]


def replay(ctx, obj):
    """re-run the recorded history (same parameters, same per-history PRNG) on the current code"""
    r = obj.get("replay", {})
    if not r.get("params"):
        print("no history parameters in this replay file:", r)
        return 1
    ctx.seed = r.get("ctxseed", ctx.seed)
    one(ctx, tuple(r["params"]), False, [])
    for f in ctx.fails:
        print("still fails:", f["signature"], f["what"])
    return 1 if ctx.fails else 0
