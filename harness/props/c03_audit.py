"""C03 — direct cases added by the independent audit of the package.

mc_cases        the Monte-Carlo branch of `REPEX_state.inf_retis` (`random_prob`, blocks of more than 12 unlocked ensembles
                with unequal weights).  It is NOT modelled (the model's `prob` is the exact `Perm.probMatrix`) and the scripted
                generator of the histories cannot serve it; what C03 needs of a probability matrix is only its SUPPORT:
                mass only on (path row, ensemble column) pairs that are both idle and where the path has non-zero weight.
                Judged directly on the real function with a real numpy Generator, and against the exact branch
                (`permanent_prob` through the same pipeline): support(MC) ⊆ support(exact).
classlevel_note the class-level `traj_data` dict of REPEX_state (the real `setup_internal` never gives an instance its own):
                two samplers alive in one process, as the real set-up leaves them.  Outside the words of the property
                (one sampler per process): recorded as a note in the evidence, never a violation.
runner_probe    does the real `aiorunner` queue the REFERENCE of a submitted unit (→ the lazy-take semantics of c03_lazy
                apply) or a copy?
"""
from __future__ import annotations

import asyncio
import contextlib
import io
import warnings

import numpy as np


def _bare_state(seed):
    import importlib.util  # noqa: F401
    from infretis.classes.repex import REPEX_state
    st = REPEX_state.__new__(REPEX_state)
    st._offset = 1
    st._random_count = 0
    st.rgen = np.random.Generator(np.random.PCG64(seed))
    return st


def mc_cases(ctx):
    rng = ctx.rng
    shapes = [(14, 0)]
    for _ in range(1 if ctx.quick else 10):
        nlocked = rng.randint(0, 2)
        shapes.append((rng.randint(14 + nlocked, 16), nlocked))
    for (n_ens, nlocked) in shapes:
        seed = rng.randint(0, 10 ** 6)
        reach = rng.randint(2, 4)
        locks = [0] * (n_ens + 1)
        locks[-1] = 1
        # locked slots at the two ends only (a lock in the middle would cut the block below 13)
        for s in rng.sample([1, 2, n_ens - 1, n_ens - 2], nlocked):
            locks[s] = 1
        mc_one(ctx, n_ens, seed, reach, "".join(str(x) for x in locks))


def mc_one(ctx, n_ens, seed, reach, locks_str):
    n = n_ens + 1
    W = np.zeros((n, n))
    W[0, 0] = 1.0
    for i in range(1, n_ens):
        last = min(n_ens - 1, i + reach)
        W[i, 1:last + 1] = [float(1 + ((i * 7 + j * 3 + seed) % 5)) for j in range(1, last + 1)]
    locks = np.array([float(c == "1") for c in locks_str])
    rep = {"function": "inf_retis (Monte-Carlo branch)", "n_ens": n_ens, "seed": seed, "reach": reach, "locks": locks_str,
           "ctxseed": ctx.seed}
    st = _bare_state(seed)
    buf = io.StringIO()
    try:
        with contextlib.redirect_stdout(buf), warnings.catch_warnings(), np.errstate(all="ignore"):
            warnings.simplefilter("ignore")
            P = np.asarray(st.inf_retis(abs(W), locks), dtype=float)
    except Exception as e:  # noqa: BLE001
        ctx.fail("C03:sampler-raised", f"inf_retis on a {n_ens}-ensemble wire-fencing state: {type(e).__name__}: {e}", rep)
        return
    ctx.count(1, family="mc-branch")
    if st._random_count == 0:
        ctx.hit("mc_branch_not_reached", 1)
        return
    ctx.hit("mc_branch_matrices", 1)
    ctx.distinct(("mc", locks_str, n_ens, seed))
    bad = [(i, j) for i in range(n) for j in range(n) if P[i, j] > 0 and (locks[i] or locks[j])]
    if bad:
        ctx.fail("C03:pick-from-busy-slot", f"the Monte-Carlo probability matrix has mass on busy (path row, ensemble) pairs {bad[:6]}", rep)
    zero = [(i, j) for i in range(n) for j in range(n) if P[i, j] > 0 and W[i, j] == 0]
    if zero:
        ctx.fail("C03:zero-weight-job", f"the Monte-Carlo probability matrix lets path rows be picked for ensembles where their weight is 0: {zero[:6]}", rep)
    live = [i for i in range(n) if not locks[i]]
    if any(abs(P[i, live].sum() - 1) > 1e-6 for i in live) or any(abs(P[live, j].sum() - 1) > 1e-6 for j in live):
        ctx.fail("C03:pick-from-busy-slot", "the Monte-Carlo probability matrix is not doubly stochastic on the idle slots", rep)
    # the exact branch through the same pipeline (sorting, blocks, re-insertion of the locked rows/columns)
    st2 = _bare_state(seed)
    st2.random_prob = st2.permanent_prob
    try:
        with contextlib.redirect_stdout(buf), warnings.catch_warnings(), np.errstate(all="ignore"):
            warnings.simplefilter("ignore")
            E = np.asarray(st2.inf_retis(abs(W), locks), dtype=float)
    except Exception as e:  # noqa: BLE001
        ctx.extra.setdefault("mc_exact_errors", []).append(f"{type(e).__name__}: {e}")
        return
    outside = [(i, j) for i in range(n) for j in range(n) if P[i, j] > 0 and not E[i, j] > 0]
    if outside:
        ctx.fail("C03:zero-weight-job", f"the Monte-Carlo matrix gives (path row, ensemble) pairs {outside[:6]} a chance that the exact "
                 f"permanent ratio excludes", rep)
    ctx.extra["mc_branch_max_abs_deviation_from_exact"] = max(float(np.max(np.abs(P - E))),
                                                              ctx.extra.get("mc_branch_max_abs_deviation_from_exact", 0.0))


def classlevel_note(ctx, c03):
    """two REPEX_state objects in one process as the REAL setup_internal leaves them (no instance-level traj_data)"""
    from infretis.classes.repex import REPEX_state
    import common
    saved = REPEX_state.traj_data
    orig_make = c03.make_sim
    sub = common.Ctx("C03", ctx.tier, ctx.seed)
    sub._driver_ok = False

    def make(ctx_, q, workers, rng, image, orig_cwd=None):
        sim = orig_make(ctx_, q, workers, rng, image, orig_cwd)
        sim.st.__dict__.pop("traj_data", None)
        return sim
    try:
        REPEX_state.traj_data = {}
        c03.make_sim = make
        pa = (4, 2, 10, 3, False, 1, 0.7, True)
        pb = (4, 2, 11, 9, False, 1, 0.7, True)
        c03.one(sub, ("two", pa, pb), False, [])
    except Exception as e:  # noqa: BLE001
        sub.fails.append({"signature": "harness", "what": f"{type(e).__name__}: {e}"})
    finally:
        c03.make_sim = orig_make
        REPEX_state.traj_data = saved
    ctx.extra["note_class_level_traj_data"] = {
        "what": "REPEX_state.traj_data / ensembles / engine_occ / pstore are CLASS attributes; the real setup_internal never rebinds "
                "traj_data on the instance, so two samplers in one process share one traj_data dict (the histories of this check "
                "give every sampler its own dict). Outside the property (one sampler per process); recorded, never a violation.",
        "two_samplers_sharing_the_class_dict": [f"{f['signature']}: {f['what'][:160]}" for f in sub.fails[:4]] or ["no failure observed"],
    }


def runner_enqueues_reference():
    """True when the real aiorunner puts the submitted object itself into its queue (no copy at submit time)"""
    try:
        import importlib.util  # noqa: F401
        from infretis.asyncrunner import aiorunner
        r = aiorunner.__new__(aiorunner)
        unit = {"probe": [1, 2, 3]}

        async def go():
            r._queue = asyncio.Queue()
            await r._add_work_to_queue(unit)
            return r._queue.get_nowait()[0]
        got = asyncio.run(go())
        return got is unit and got["probe"] is unit["probe"]
    except Exception:  # noqa: BLE001
        return True      # unknown: keep the conservative (reference) semantics
