"""C03 — the hand-over of work units: submitted REFERENCES vs the VALUES the workers receive.

`aiorunner.submit_work(work_unit)` (infretis/asyncrunner.py) does not serialise the unit: it puts the reference into an
asyncio queue, sleeps 50 ms and returns.  The unit is pickled later (event-loop thread → pool feeder thread), at a moment
the scheduler does not control.  What a worker process runs with is therefore the content of the object AT THAT MOMENT.

`LazyRunner` is the synchronous stand-in for that: `submit_work` keeps the reference; the copy (the "pickle") is taken when
the schedule lets a worker take the unit — FIFO, at take points drawn by the check among all the real queue allows:
before / after the enqueue inside `submit_work`, at every sub-step event inside the following `prep_md_items` /
`treat_output` calls (while the scheduler thread is busy), at `as_completed()` (forced: a job can only complete after it
was taken) and at `stop()`.

Judged on what the workers actually receive, independent of the model:
  (a) content at take time = content at submit time (`canon` of the whole unit),
      units running concurrently in workers have pairwise distinct pins / worker folders / exe dirs, disjoint ensembles,
      paths and (engine name, instance) pairs, and are complete jobs (a half-filled unit is a failing input);
  (b) aliasing: a unit is never the object of (nor shares a mutable container that `prep_md_items` writes to with) another
      unit that is still in flight; no `prep_md_items` call changes the content of a unit in flight.
The object-level events (alloc / prepbegin / prepend / submit / take on small addresses) are also sent to the Lean model
`Infretis.Repex.Submit` (driver ops `lz…`) and what each take delivers is compared.
"""
from __future__ import annotations

import copy
import os

import numpy as np


# ----------------------------------------------------------------------------- content / object graph
def canon(o, _depth=0):
    """a hashable rendering of the CONTENT of a work unit (what a pickle of it would carry)"""
    if _depth > 12:
        return ("deep",)
    if o is None or isinstance(o, (bool, int, float, str, bytes)):
        return o
    if isinstance(o, dict):
        return ("d",) + tuple(sorted(((repr(k), canon(v, _depth + 1)) for k, v in o.items()), key=lambda kv: kv[0]))
    if isinstance(o, (list, tuple)):
        return ("l" if isinstance(o, list) else "t",) + tuple(canon(x, _depth + 1) for x in o)
    if isinstance(o, (set, frozenset)):
        return ("s",) + tuple(sorted(repr(canon(x, _depth + 1)) for x in o))
    if isinstance(o, np.ndarray):
        return ("a", o.shape, o.dtype.str, o.tobytes())
    if isinstance(o, np.generic):
        return o.item()
    if isinstance(o, np.random.Generator):
        # the bit-generator state identifies the stream and its position (copy.deepcopy does not keep the SeedSequence)
        st = o.bit_generator.state
        return ("g", repr(st.get("state")), st.get("has_uint32"), st.get("uinteger"))
    if hasattr(o, "path_number") and hasattr(o, "weights"):
        # a path travels by value through the pickle; its fields are what counts
        return ("p", o.path_number, tuple(float(w) for w in o.weights), getattr(o, "length", None))
    if hasattr(o, "__dict__"):
        return ("o", type(o).__name__, canon(vars(o), _depth + 1))
    return ("r", type(o).__name__, repr(o))


MUTABLE = (dict, list, set, bytearray, np.ndarray)


def containers(root):
    """all mutable containers reachable from `root` (by identity): {id: object}"""
    seen, stack = {}, [root]
    while stack:
        o = stack.pop()
        if isinstance(o, MUTABLE):
            if id(o) in seen:
                continue
            seen[id(o)] = o
        if isinstance(o, dict):
            stack.extend(o.values())
        elif isinstance(o, (list, tuple, set, frozenset)):
            stack.extend(o)
    return seen


def shallow(o):
    """one level of a container: which OBJECTS sit where (a write replaces an entry or changes the key set / bytes)"""
    if isinstance(o, dict):
        return tuple(sorted((repr(k), id(v)) for k, v in o.items()))
    if isinstance(o, list):
        return tuple(id(x) for x in o)
    if isinstance(o, set):
        return tuple(sorted(id(x) for x in o))
    if isinstance(o, np.ndarray):
        return o.tobytes()
    return bytes(o)


def unit_view(md):
    """(pin, folder, ensembles, paths, engine instances, exe dirs) of a received unit; raises KeyError when it is not a
    complete job"""
    picked = md["picked"]
    ens = [int(e) for e in picked]
    pns = [int(dd["traj"].path_number if dd.get("traj") is not None and getattr(dd["traj"], "path_number", None) is not None
               else dd["pn_old"]) for dd in picked.values()]
    eng = sorted({(k, int(i)) for dd in picked.values() for k, i in dd["eng_idx"].items()})
    dirs = sorted({os.path.realpath(dd["exe_dir"]) for dd in picked.values()})
    pins = sorted({repr(dd["pin"]) for dd in picked.values()} | {repr(md["pin"])})
    return {"pin": md["pin"], "pins": pins, "folder": os.path.realpath(md["w_folder"]), "ens": ens, "paths": pns, "engines": eng,
            "dirs": dirs, "pn_old": [int(dd["pn_old"]) for dd in picked.values()]}


class Fut:
    def __init__(self, entry):
        self.entry = entry
        self.md = entry["intent"]        # what the scheduler meant to submit (value at submit time), for the state-level predicates

    def result(self):
        e = self.entry
        if e["recv"] is None:
            raise RuntimeError("result() of a unit no worker has taken")
        return e["recv"]


class LazyRunner:
    """policy: 'late' (a unit is only taken when a completion needs it), 'eager' (taken inside its own submit_work, by
    reference all the same), 'random' (each take point takes a random number of queued units)"""

    def __init__(self, sim, rng, policy, with_model_lines=True, by_reference=True):
        self.sim, self.rng, self.policy = sim, rng, policy
        self.by_reference = by_reference     # False: the real runner was seen to copy at submit time → nothing can change later
        self.queue = []          # entries submitted, not yet taken (FIFO)
        self.running = []        # entries taken, not yet completed
        self.faults = []         # (signature, what)
        self.addr = {}           # id(object) -> (address, object)   (strong refs: ids are not reused)
        self.written = {}        # id -> container some prep_md_items call wrote to
        self.nsub = self.ntake = self.mid_takes = self.late_takes = 0
        self.lines = with_model_lines
        self.in_prep = None

    # ------------------------------------------------------------ model script (driver ops lz…)
    def emit(self, line, real):
        if self.lines:
            self.sim.emit(line, real, "lz")

    def address(self, obj):
        if id(obj) not in self.addr:
            a = len(self.addr)
            self.addr[id(obj)] = (a, obj)
            self.emit("lzalloc", f"a={a}")
        return self.addr[id(obj)][0]

    def fault(self, sig, what):
        if len(self.faults) < 12:
            self.faults.append((sig, what))

    # ------------------------------------------------------------ the scheduler side
    def before_prep(self, md, state_roots):
        a = self.address(md)
        self.in_prep = a
        inflight = self.queue + self.running
        for e in inflight:
            if e["ref"] is md:
                self.fault("C03:work-units-aliased", f"prep_md_items is run on the very object that was submitted as unit #{e['seq']} "
                           f"(pin {e['view0'].get('pin')}) and has not completed yet ({'still queued' if e in self.queue else 'taken'})")
        self._before = {i: (o, shallow(o)) for i, o in {**containers(md), **containers(state_roots)}.items()}
        self.emit(f"lzprepbegin {a}", "ok")

    def after_prep(self, md, ok):
        for i, (o, fp) in self._before.items():
            if shallow(o) != fp:
                self.written[i] = o
        self._before = None
        a = self.in_prep
        self.in_prep = None
        if ok:
            self.emit(f"lzprepend {a} {md.get('pin') if md.get('pin') is not None else '-'}", "ok")
        # (b) by effect: no unit in flight may have changed content through this call
        for e in self.queue:
            if canon(e["ref"]) != e["canon"]:
                self.fault("C03:work-unit-changed-before-take",
                           f"unit #{e['seq']} (pin {e['view0'].get('pin')}, ensembles {e['view0'].get('ens')}) is still queued and its content "
                           f"was changed by the prep_md_items call of another job")

    def submit_work(self, md):
        self.take_point("submit-entry")
        a = self.address(md)
        try:
            view0 = unit_view(md)
        except Exception as e:  # noqa: BLE001
            view0 = {"pin": md.get("pin"), "error": f"{type(e).__name__}: {e}"}
        ref = md if self.by_reference else copy.deepcopy(md)
        entry = {"ref": ref, "seq": self.nsub, "addr": a, "canon": canon(md), "intent": copy.deepcopy(md), "recv": None, "view0": view0,
                 "graph": containers(ref)}
        self.nsub += 1
        # (b) identity: the new unit against every unit still in flight
        for e in self.queue + self.running:
            if e["ref"] is md:
                self.fault("C03:work-units-aliased", f"units #{e['seq']} and #{entry['seq']} (pins {e['view0'].get('pin')} and {view0.get('pin')}) "
                           f"are one and the same md_items object")
                continue
            shared = [i for i in entry["graph"] if i in e["graph"] and i in self.written]
            if shared:
                kinds = sorted({type(self.written[i]).__name__ for i in shared})
                self.fault("C03:work-units-aliased", f"units #{e['seq']} and #{entry['seq']} share {len(shared)} mutable object(s) ({', '.join(kinds)}) "
                           f"that prep_md_items writes to")
        self.queue.append(entry)
        self.emit(f"lzsubmit {a}", f"ok q={len(self.queue)}")
        self.take_point("submit-exit")
        return Fut(entry)

    # ------------------------------------------------------------ the worker side
    def take_point(self, where, force=0):
        if not self.queue:
            return
        if force:
            k = force
        elif self.policy == "eager":
            k = len(self.queue) if where == "submit-exit" else 0
        elif self.policy == "late":
            k = 0
        else:
            r = self.rng.random()
            if where == "mid-op":
                k = 0 if r < 0.8 else self.rng.randint(1, len(self.queue))
            else:
                k = 0 if r < 0.4 else (len(self.queue) if r < 0.6 else self.rng.randint(0, len(self.queue)))
        for _ in range(min(k, len(self.queue))):
            self.take(where)

    def take(self, where):
        e = self.queue.pop(0)
        self.ntake += 1
        if where == "mid-op":
            self.mid_takes += 1
        if e["seq"] + 1 < self.nsub:
            self.late_takes += 1          # taken after a later unit was submitted
        try:
            recv = copy.deepcopy(e["ref"])      # the pickle is made NOW
        except Exception as err:  # noqa: BLE001
            self.fault("C03:work-unit-changed-before-take", f"unit #{e['seq']} cannot be copied at take time: {type(err).__name__}: {err}")
            recv = {}
        e["recv"] = recv
        same = canon(e["ref"]) == e["canon"]
        try:
            view = unit_view(recv)
            job = self.sim.job_real(e["ref"])       # (stream identities are read off the original: deepcopy drops the SeedSequence)
        except Exception as err:  # noqa: BLE001
            view, job = None, "err:key"
            self.fault("C03:worker-received-incomplete-unit",
                       f"the worker that takes unit #{e['seq']} (submitted for pin {e['view0'].get('pin')}) receives a half-filled md_items "
                       f"({type(err).__name__}: {err}); keys {sorted(map(str, recv))}")
        e["view"] = view
        if not same and view is not None:
            self.fault("C03:work-unit-changed-before-take",
                       f"unit #{e['seq']} was submitted as pin {e['view0'].get('pin')} ens {e['view0'].get('ens')} paths {e['view0'].get('paths')} "
                       f"engines {e['view0'].get('engines')}; the worker receives pin {view['pin']} ens {view['ens']} paths {view['paths']} "
                       f"engines {view['engines']} (taken at {where}, after {self.nsub - e['seq'] - 1} later submission(s))")
        if view is not None:
            if view["dirs"] != [view["folder"]] or len(view["pins"]) != 1:
                self.fault("C03:worker-received-shared-resource", f"unit #{e['seq']}: exe dirs {view['dirs']} / pins {view['pins']} are not the unit's own "
                           f"folder {view['folder']} / pin")
            for o in self.running:
                ov = o.get("view")
                if ov is None:
                    continue
                both = []
                if repr(ov["pin"]) == repr(view["pin"]):
                    both.append(f"pin {view['pin']}")
                if ov["folder"] == view["folder"] or set(ov["dirs"]) & set(view["dirs"]):
                    both.append(f"worker dir {os.path.basename(view['folder'])}")
                for kind in ("ens", "paths", "engines"):
                    common = sorted(set(ov[kind]) & set(view[kind]))
                    if common:
                        both.append(f"{kind} {common}")
                if both:
                    self.fault("C03:worker-received-shared-resource",
                               f"the workers running units #{o['seq']} and #{e['seq']} hold at the same time: " + ", ".join(both))
        self.running.append(e)
        self.emit("lztake", f"recv {job} same={'true' if same else 'false'}")

    def completable(self):
        return list(self.running)

    def is_running(self, e):
        return any(e is x for x in self.running)

    def complete(self, e):
        self.running = [x for x in self.running if x is not e]

    def stop(self):
        while self.queue:
            self.take("stop")


def install_mid_hook(sim, runner):
    """the recorder's sub-step events (inside prep_md_items / treat_output) are take points too"""
    rec = sim.rec
    orig = rec.event

    def event(tag):
        orig(tag)
        if rec.on:
            runner.take_point("mid-op")
    rec.event = event
