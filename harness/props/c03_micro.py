"""C03 — sub-step ("at every instant") observation of the real REPEX_state, and the direct ties of
`create_engines` / `assign_engines`.

Sub-steps: the instance under test gets wrappers around its OWN bound methods `swap`, `lock`, `unlock`,
`pick`, `pick_traj_ens`, `pick_lock`, `sort_trajstate` and a list subclass for `_trajs` (no change of the
source, no class-level patching): a snapshot (state matrix, path per slot, busy flags, `locked` record) is
taken after every statement of `treat_output` / `prep_md_items` that writes `_locks`, `_trajs` or `state`:

    add_traj:   _trajs[ens] = traj  → setTraj      state[ens,:] = valid → setRow (seen on entry of unlock)
                unlock(ens)         → unlock
    sort_trajstate: swap            → sortSwap
    pick:       swap → pickSwap, lock → pickLock;  pick_traj_ens: swap → zsSwap, lock → zsLock
    pick_lock (re-issue): swap → reSwap, lock → reLock

The model side is `Infretis.Repex.Micro.{treatTrace, prepTrace}` (driver ops `treatm` / `prepm`).
The predicate is evaluated on the real snapshots, independent of the model: at every sub-step the busy flags are
exactly the ensembles of the OTHER jobs in flight plus those the job under treatment has not released yet
(resp. the job being built has locked already), held paths sit in their slots, live paths are pairwise distinct.
"""
from __future__ import annotations

import contextlib
import copy
import io
import os

from common import err_kind, frac_token, lst

import repex_tie as T


# ----------------------------------------------------------------------------- recorder
class TrajList(list):
    hook = None

    def __setitem__(self, i, v):
        super().__setitem__(i, v)
        if self.hook is not None:
            self.hook()


class Recorder:
    def __init__(self, sim):
        self.sim = sim
        self.on = False
        self.in_swap = 0
        self.ctx = []          # stack of method names we are inside
        self.events = []       # (tag, snapshot) of the running op
        self.by_op = {}        # op index -> dict(kind, events, others, job)
        self.meta = None

    def snapshot(self):
        st = self.sim.st
        f = lambda x: frac_token(float(x))  # noqa: E731
        return {
            "W": ";".join(",".join(f(x) for x in row) for row in st.state),
            "trajs": ",".join("-" if t == "" else str(t.path_number) for t in st._trajs),
            "locks": "".join("1" if l else "0" for l in st._locks),
            "locked": ";".join(",".join(str(int(e)) for e in t[0]) + ":" + ",".join(str(int(p)) for p in t[1]) for t in st.locked),
        }

    def event(self, tag):
        if self.on:
            self.events.append((tag, self.snapshot()))

    def where(self):
        for name in reversed(self.ctx):
            if name in ("sort_trajstate", "pick_traj_ens", "pick", "pick_lock"):
                return name
        return None

    def begin(self, kind, others, job):
        self.on = True
        self.events = []
        self.start = self.snapshot()
        self.meta = {"kind": kind, "start": self.start,
                     "others": [(md.get("pin"), [(e, dd["pn_old"]) for e, dd in md["picked"].items()]) for md in others],
                     "job": None if job is None else [(e, dd["pn_old"]) for e, dd in job["picked"].items()]}

    def end(self, op_index):
        self.on = False
        self.meta["events"] = self.events
        self.by_op[op_index] = self.meta
        self.events, self.meta = [], None


SWAP_TAG = {"sort_trajstate": "sortSwap", "pick_traj_ens": "zsSwap", "pick": "pickSwap", "pick_lock": "reSwap"}
LOCK_TAG = {"pick_traj_ens": "zsLock", "pick": "pickLock", "pick_lock": "reLock"}


def install(sim):
    """instrument THIS REPEX_state instance (instance attributes shadow the class's methods)"""
    st = sim.st
    rec = Recorder(sim)
    sim.rec = rec
    tl = TrajList(st._trajs)
    st._trajs = tl

    def on_set():
        if rec.in_swap == 0:
            rec.event("setTraj")
    tl.hook = on_set

    o_swap, o_lock, o_unlock = st.swap, st.lock, st.unlock

    def swap(traj, ens):
        rec.in_swap += 1
        try:
            o_swap(traj, ens)
        finally:
            rec.in_swap -= 1
        rec.event(SWAP_TAG.get(rec.where(), "swap?"))

    def lock(ens):
        o_lock(ens)
        rec.event(LOCK_TAG.get(rec.where(), "lock?"))

    def unlock(ens):
        rec.event("setRow")
        o_unlock(ens)
        rec.event("unlock")

    st.swap, st.lock, st.unlock = swap, lock, unlock

    def ctxwrap(name):
        orig = getattr(st, name)

        def w(*a, **k):
            rec.ctx.append(name)
            try:
                return orig(*a, **k)
            finally:
                rec.ctx.pop()
        setattr(st, name, w)
    for name in ("sort_trajstate", "pick_traj_ens", "pick", "pick_lock"):
        ctxwrap(name)
    return rec


# ----------------------------------------------------------------------------- the predicate on real sub-steps
def substep_predicates(ctx, sim, label):
    n = sim.n
    rep0 = {"history": label, "params": getattr(sim, "params", None), "ctxseed": ctx.seed}
    for opi, m in sorted(sim.rec.by_op.items()):
        others = [(e, pn) for (_pin, picked) in m["others"] for (e, pn) in picked]
        oth_ens = sorted(e for e, _ in others)
        job = m["job"] or []
        released = 0
        mine = []          # (ens, pn) held by the job being built (prep)
        window = None      # ensemble whose slot is between `_trajs[ens] = traj` and `unlock(ens)`
        for k, (tag, d) in enumerate(m["events"]):
            ctx.hit(f"substep={tag}", 1)
            locks = d["locks"]
            trajs = d["trajs"].split(",")
            W = [row.split(",") for row in d["W"].split(";")]
            rep = dict(rep0, op_index=opi, op=sim.lines[opi] if opi < len(sim.lines) else "?", substep=k, tag=tag,
                       locks=locks, trajs=d["trajs"])
            if m["kind"] == "treat":
                if tag == "setTraj":
                    window = job[released][0] if released < len(job) else None
                elif tag == "unlock":
                    released += 1
                    window = None
                expect = sorted(oth_ens + [e for e, _ in job[released:]])
                held_now = others + [(e, pn) for (e, pn) in job[released:] if e != window]
            else:
                if tag in ("pickLock", "zsLock", "reLock"):
                    # the slot just locked: the one that became busy w.r.t. the previous sub-step
                    prev = m["events"][k - 1][1]["locks"] if k else m["start"]["locks"]
                    new = [i for i in range(n) if locks[i] == "1" and prev[i] == "0"]
                    if len(new) != 1:
                        ctx.fail("C03:substep-lock-not-single", f"lock() changed the flags {prev} -> {locks}", rep)
                    else:
                        mine.append((new[0] - 1, trajs[new[0]]))
                expect = sorted(oth_ens + [e for e, _ in mine])
                held_now = others + [(e, int(pn)) for (e, pn) in mine if pn != "-"]
            # who may write where: the content (path, weight row) of a BUSY slot is only replaced by add_traj of the job that
            # holds it; swap only ever moves IDLE slots; lock / unlock change one flag and nothing else
            prev = m["events"][k - 1][1] if k else m["start"]
            ptr, pW, plk = prev["trajs"].split(","), prev["W"].split(";"), prev["locks"]
            changed = [i for i in range(n) if ptr[i] != trajs[i] or pW[i] != d["W"].split(";")[i]]
            if tag in ("setTraj", "setRow"):
                bad = [i - 1 for i in changed if plk[i] != "1"]
                if bad:
                    ctx.fail("C03:substep-write-to-idle-slot", f"sub-step {k} {tag}: add_traj writes path/weights of ensemble(s) {bad} "
                             f"while not marked busy (flags {plk})", rep)
                if m["kind"] == "treat" and released < len(job) and any(i - 1 != job[released][0] for i in changed):
                    ctx.fail("C03:substep-write-to-foreign-slot", f"sub-step {k} {tag}: slots {[i - 1 for i in changed]} written, the job "
                             f"is releasing ensemble {job[released][0]}", rep)
            elif tag.endswith("Swap"):
                bad = [i - 1 for i in changed if plk[i] != "0"]
                if bad:
                    ctx.fail("C03:substep-swap-touches-busy-slot", f"sub-step {k} {tag}: swap moves path/weights of busy ensemble(s) {bad} "
                             f"(flags {plk})", rep)
            elif changed:
                ctx.fail("C03:substep-flag-op-moves-paths", f"sub-step {k} {tag}: slots {[i - 1 for i in changed]} changed content", rep)
            if tag in ("setTraj", "setRow") or tag.endswith("Swap"):
                if plk != locks:
                    ctx.fail("C03:substep-flags-changed-by-write", f"sub-step {k} {tag}: flags {plk} -> {locks}", rep)
            busy = sorted(i - 1 for i in range(n - 1) if locks[i] == "1")
            if busy != expect or locks[-1] != "1":
                ctx.fail("C03:substep-busy-flags-differ",
                         f"during {m['kind']} (sub-step {k} {tag}) busy ensembles are {busy}, in flight / being released or built are {expect}", rep)
            for (e, pn) in held_now:
                if trajs[e + 1] != str(pn):
                    ctx.fail("C03:substep-held-path-moved", f"sub-step {k} {tag}: ensemble {e} holds {trajs[e + 1]}, its job has {pn}", rep)
                elif W[e + 1][e + 1] in ("0", "0.0"):
                    ctx.fail("C03:substep-zero-weight", f"sub-step {k} {tag}: path {pn} has zero weight in held ensemble {e}", rep)
            live = trajs[:-1]
            if len(set(live)) != len(live) or "-" in live:
                ctx.fail("C03:substep-paths-not-distinct", f"sub-step {k} {tag}: live paths {live}", rep)
        ctx.count(len(m["events"]), family="substeps")


# ----------------------------------------------------------------------------- model comparison
def blank_line(line):
    """`init n w ts cs tn seed entropy spawned re` (the harness TELLS the model entropy and spawn counter) →
    `blankinit n w ts cs tn seed re` (the model's `blank` = REPEX_state.__init__ computes them; the dumps compare them)"""
    t = line.split()
    return "blankinit " + " ".join(t[1:7]) + " " + t[9]


def micro_lines(sim):
    out = []
    for i, (line, kind) in enumerate(zip(sim.lines, sim.kinds)):
        if kind == "prep":
            out.append("prepm" + line[4:])
        elif kind == "treat":
            out.append("treatm" + line[5:])
        elif i == 0 and line.startswith("init "):
            out.append(blank_line(line))
        else:
            out.append(line)
    return out


# ----------------------------------------------------------------------------- the real load_paths
def load_real(sim, image=None, weights=None):
    """the REAL `REPEX_state.load_paths(paths)` (shooting moves 'sh': the weight vector calc_cv_vector computes from
    `ordermax` is the staircase we want) against the model's `loadPaths` (driver op `loadpaths`)"""
    import numpy as np
    from fractions import Fraction
    st, n_ens = sim.st, sim.n_ens
    if image is None:
        lasts = {0: None}
        for i in range(1, n_ens):
            lasts[i] = sim.rng.randint(i - 1, n_ens - 2) if getattr(sim, "rich_init", False) else i - 1
        pns = list(range(n_ens))
        fracs = {}
    else:
        pns = list(image["active"])
        lasts = {}
        for slot, pn in enumerate(pns):
            w = list(weights[pn])
            lasts[slot] = None if slot == 0 else max([k for k, x in enumerate(w) if x != 0], default=-1)
        fracs = {int(k): [float(x) for x in v] for k, v in image["frac"].items()}
        st.config["current"]["frac"] = {str(k): v for k, v in image["frac"].items()}
    paths = []
    for slot, pn in enumerate(pns):
        p = T.FakePath(pn, (1.0,))
        # interfaces are 0,1,2,…: calc_cv_vector gives 1.0 for every interface <= ordermax
        p.ordermax = (1.0, 1) if slot == 0 else (lasts[slot] + 0.5, 1)
        paths.append(p)
    try:
        st.load_paths(paths)
        real = "ok"
        err = None
    except Exception as e:  # noqa: BLE001
        real, err = err_kind(e), e
    toks = []
    for slot, p in enumerate(paths):
        fr = fracs.get(p.path_number, [0.0] * sim.n)
        toks.append(f"{p.path_number} {lst(p.weights, frac_token)} {lst([Fraction(float(x)) for x in fr], str)}")
    sim.emit(f"loadpaths {len(paths)} " + " ".join(toks), real, "loadpaths")
    if err is not None:
        raise err


# ----------------------------------------------------------------------------- event level: sysStep
def event_script(sim):
    """the same history as ONE EVENT of `scheduler()` per line (driver op `sysev` = `Infretis.Repex.sysStep`, the function
    the theorems quantify over) with the index of the real dump each event's answer is compared with"""
    lines, expect = [], []
    dump_ix = [i for i, k in enumerate(sim.kinds) if k == "dump"]

    def next_dump(i):
        for j in dump_ix:
            if j > i:
                return j
        return None
    n = len(sim.lines)
    i = 0
    pending_start = False
    while i < n:
        line, kind, real = sim.lines[i], sim.kinds[i], sim.real[i]
        if kind in ("dump", "prob", "lz"):
            i += 1
            continue
        if kind == "initiate":
            if str(real).startswith("true"):
                pending_start = True
            else:
                lines.append("sysev initdone")
                expect.append(None)
            i += 1
            continue
        if kind == "prep" and pending_start:
            t = line.split()
            lines.append("sysev start " + " ".join(t[2:7]))
            expect.append(None if str(real).startswith("err") else next_dump(i))
            pending_start = False
            if str(real).startswith("err"):
                break
            i += 1
            continue
        if kind == "loop":
            if not str(real).startswith("true"):
                break
            i += 1
            continue
        if kind == "treat":
            t = line.split()
            k = sim.treat_k.get(i)
            if k is None or str(real).startswith("err"):
                break
            # the next op that is not a dump
            j = i + 1
            while j < n and sim.kinds[j] in ("dump", "prob", "lz"):
                j += 1
            body = " ".join(t[2:])     # status k <lists>
            if j < n and sim.kinds[j] == "prep":
                if str(sim.real[j]).startswith("err"):
                    break
                tp = sim.lines[j].split()
                lines.append(f"sysev step {k} {body} " + " ".join(tp[2:6]))
                expect.append(next_dump(j))
                i = j + 1
                continue
            d = sim.real[next_dump(i)] if next_dump(i) is not None else None
            if d is None:
                break
            if int(d["cstep"]) + sim.workers <= sim.st.tsteps and getattr(sim, "stopped_by_harness", False) \
                    and not any(kd == "treat" for kd in sim.kinds[i + 1:]):
                break            # the harness stopped the process here (restart): not a whole scheduler event
            lines.append(f"sysev step {k} {body} 0 0 0 0")
            expect.append(next_dump(i))
            i += 1
            continue
        if kind == "prep":
            break                # a prep that is not part of an event shape we know
        lines.append(blank_line(line) if (i == 0 and line.startswith("init ")) else line)
        expect.append("same")
        i += 1
    return lines, expect


def compare_events(ctx, sim, label):
    lines, expect = event_script(sim)
    if not lines:
        return 0
    model = ctx.driver(lines)
    dump_no = {ix: k for k, ix in enumerate(i for i, kd in enumerate(sim.kinds) if kd == "dump")}
    nev = 0
    for line, exp, mod in zip(lines, expect, model):
        if exp is None:
            if line.startswith("sysev") and mod.startswith("err") and "initdone" in line:
                ctx.disagree({"history": label, "event": line}, "ok", mod)
                return 1
            continue
        if exp == "same":
            continue
        nev += 1
        real = sim.real[exp]
        case = {"history": label, "event": line, "what": "sysStep"}
        if mod.startswith("err") or mod == "bad-op":
            ctx.disagree(case, "ok", mod)
            return 1
        dm, jobs = mod.split(" | jobs=", 1)
        md = T.parse_dump(dm)
        for k, rv in real.items():
            if k.startswith("_"):
                continue
            mv = md.get(k, "<missing>")
            if k == "rows":
                mv = T.mask_rows(mv, sim.n)
            if not T.field_eq(k, rv, mv):
                ctx.disagree(dict(case, field=k), rv, mv)
                return 1
        held = sim.snaps[dump_no[exp]][2]
        want = [(str(h[0]), [(str(e), str(pn)) for (e, pn) in h[1]]) for h in held]
        got = []
        for js in [x for x in jobs.split(" ;; ") if x]:
            f = dict(part.split("=", 1) for part in js.split(" "))
            got.append((f["pin"], [tuple(pk.split("/")[:2]) for pk in f["picked"].split(";") if pk]))
        if want != got:
            ctx.disagree(dict(case, field="jobs in flight (futures order)"), want, got)
            return 1
    ctx.count(nev, family="events")
    return 0


def split_answers(model_out):
    plain, traces = [], []
    for a in model_out:
        if " || " in a:
            p, t = a.split(" || ", 1)
        elif a.endswith(" ||"):
            p, t = a[:-3], ""
        else:
            p, t = a, None
        plain.append(p)
        traces.append(t)
    return plain, traces


def parse_trace(t):
    out = []
    if not t:
        return out
    for s in t.split(" ## "):
        f = s.split("~")
        out.append((f[0], {"W": f[1], "trajs": f[2], "locks": f[3], "locked": f[4]}, f[5] if len(f) > 5 else ""))
    return out


def compare_traces(ctx, sim, traces, label):
    for opi, m in sorted(sim.rec.by_op.items()):
        if opi >= len(traces) or traces[opi] is None:
            continue          # the call raised (compared as an error kind by the state-for-state tie)
        if str(sim.real[opi]).startswith("err"):
            continue
        mod = parse_trace(traces[opi])
        real = m["events"]
        case = {"history": label, "op_index": opi, "op": sim.lines[opi], "what": "sub-step trace"}
        if [t for t, _ in real] != [t for t, _, _ in mod]:
            ctx.disagree(case, [t for t, _ in real], [t for t, _, _ in mod])
            return 1
        for k, ((tag, d), (_t, dm, mine)) in enumerate(zip(real, mod)):
            for key in ("W", "trajs", "locks", "locked"):
                if not T.field_eq(key, d[key], dm[key]):
                    ctx.disagree(dict(case, substep=k, tag=tag, field=key), d[key], dm[key])
                    return 1
            # the model's ghost `mine` against what the code's own flags say: slots of `mine` are busy
            for pair in [p for p in mine.split(";") if p]:
                e = int(pair.split(":")[0])
                if d["locks"][e] != "1":
                    ctx.disagree(dict(case, substep=k, tag=tag, field="mine"), d["locks"], mine)
                    return 1
    return 0


# ----------------------------------------------------------------------------- create_engines / assign_engines
class _Obj:
    pass


def factory_cases(ctx):
    """direct tie of factory.create_engines (real function, engine constructor replaced by a counter of calls) and
    factory.assign_engines (real function on random occupation tables, incl. the 'nothing free' branches)"""
    import importlib.util  # noqa: F401
    from infretis.classes.engines import factory as F
    rng = ctx.rng
    lines, reals, cases = [], [], []
    # ---- create_engines
    shapes = []
    for n_ens in range(1, 5):
        for w in range(1, 4):
            shapes.append((n_ens, w))
    for _ in range(30 if ctx.quick else 400):
        shapes.append((rng.randint(2, 9), rng.randint(1, 9)))
    for (n_ens, w) in shapes:
        n_names = rng.randint(1, 4)
        ens_engs = []
        for i in range(n_ens):
            k = rng.choice([1, 1, 1, 2, 3])
            ens_engs.append([rng.randrange(n_names) for _ in range(k)])       # repeats inside one ensemble allowed
        cfg = {"runner": {"workers": w}, "simulation": {"ensemble_engines": [[f"engine{k}" for k in ee] for ee in ens_engs]}}
        for k in range(n_names):
            cfg[f"engine{k}"] = {"class": "verif-counter"}
        calls = []
        orig_create, orig_check = F.create_engine, F.check_engine

        def fake_create(settings, eng_key="engine", _calls=calls):
            o = _Obj()
            o.ordinal = len(_calls)
            o.key = eng_key
            _calls.append(o)
            return o
        checks = []

        def spy_check(settings, eng_key, _c=checks, _o=orig_check):
            _c.append(eng_key)
            return _o(settings, eng_key)
        F.create_engine, F.check_engine = fake_create, spy_check
        try:
            engines, occ = F.create_engines(cfg)
            names = list(occ.keys())
            real = ("names=" + ",".join(k.replace("engine", "") for k in names)
                    + " occ=" + ";".join(",".join(str(int(x)) for x in occ[k]) for k in names)
                    + " objs=" + ";".join(",".join(str(o.ordinal) for o in engines[k]) for k in names))
            ok_keys = list(engines.keys()) == names and all(o.key == k for k in names for o in engines[k])
        except Exception as e:  # noqa: BLE001
            real, ok_keys, engines, occ, names = err_kind(e), True, {}, {}, []
        finally:
            F.create_engine, F.check_engine = orig_create, orig_check
        line = f"mkengines {w} {n_ens} " + " ".join(lst(ee) for ee in ens_engs)
        lines.append(line)
        reals.append(real)
        cases.append(("create", cfg, ens_engs, w))
        ctx.count(1, family="create_engines")
        ctx.distinct(("create", str(ens_engs), w))
        # the property side, stated directly: per name min(occurrences, workers) instances, all free, all separate objects,
        # every name of every ensemble is a key
        rep = {"function": "create_engines", "ensemble_engines": cfg["simulation"]["ensemble_engines"], "workers": w}
        if not real.startswith("err"):
            flat = [k for ee in cfg["simulation"]["ensemble_engines"] for k in ee]
            for k in set(flat):
                want = min(flat.count(k), w)
                if k not in occ or len(occ[k]) != want or len(engines.get(k, [])) != want or any(x != -1 for x in occ[k]):
                    ctx.fail("C03:engine-objects-aliased", f"create_engines: engine {k}: occupation {occ.get(k)}, {len(engines.get(k, []))} "
                             f"instances, expected {want} free instances", rep)
            objs = [id(o) for k in engines for o in engines[k]]
            if len(set(objs)) != len(objs) or not ok_keys:
                ctx.fail("C03:engine-objects-aliased", "create_engines put one engine object into two instance slots", rep)
            if len(checks) != len(calls):
                ctx.hit("create_engines_check_calls_differ", 1)
    # ---- assign_engines
    n_assign = 150 if ctx.quick else 3000
    for _ in range(n_assign):
        n_names = rng.randint(1, 4)
        workers = rng.randint(1, 5)
        occ = {}
        for k in range(n_names):
            size = rng.randint(0, 4)
            mode = rng.random()
            row = []
            for _i in range(size):
                if mode < 0.25:
                    row.append(rng.randrange(workers))          # mostly full rows
                else:
                    row.append(rng.choice([-1, -1, rng.randrange(workers)]))
            occ[f"engine{k}"] = row
        pin = rng.randrange(workers)
        names = [k for k in range(n_names) if rng.random() < 0.7] or [0]
        rng.shuffle(names)
        before = copy.deepcopy(occ)
        try:
            out = F.assign_engines(occ, [f"engine{k}" for k in names], pin)
            real = ("occ=" + ";".join(",".join(str(int(x)) for x in occ[f"engine{k}"]) for k in range(n_names))
                    + " out=" + ",".join(f"{k}:{out[f'engine{k}']}" for k in names if f"engine{k}" in out))
            branch = "all-served" if len(out) == len(names) else "some-type-exhausted"
        except Exception as e:  # noqa: BLE001
            real, out, branch = err_kind(e), None, "nothing-free"
        line = f"assign {pin} {lst(names)} {n_names} " + " ".join(lst(before[f"engine{k}"]) for k in range(n_names))
        lines.append(line)
        reals.append(real)
        cases.append(("assign", before, names, pin))
        ctx.count(1, family="assign_engines", assign_branch=branch)
        ctx.distinct(("assign", str(before), str(names), pin))
        rep = {"function": "assign_engines", "engine_occ": before, "eng_names": [f"engine{k}" for k in names], "pin": pin}
        if out is not None:
            # exclusivity, stated directly: a served instance was free (or this worker's own) before, carries the pin now,
            # nobody else's cell changed, and the worker holds nothing but what it was served
            for k in range(n_names):
                key = f"engine{k}"
                for i, (a, b) in enumerate(zip(before[key], occ[key])):
                    if a not in (-1, pin) and b != a:
                        ctx.fail("C03:engine-instance-shared", f"assign_engines took instance {key}[{i}] from worker {a}", rep)
                    if b == pin and not (key in out and out[key] == i):
                        ctx.fail("C03:engine-instance-shared", f"assign_engines leaves worker {pin} on {key}[{i}] without handing it out", rep)
                if key in out and occ[key][out[key]] != pin:
                    ctx.fail("C03:engine-instance-shared", f"assign_engines hands out {key}[{out[key]}] without marking it", rep)
    if ctx._driver_ok and lines:
        model = ctx.driver(lines)
        for line, real, mod, case in zip(lines, reals, model, cases):
            if case[0] == "create":
                mod = mod.split(" count=")[0]
            if real != mod:
                ctx.disagree({"op": line, "function": case[0]}, real, mod)
