"""C04 — fractional weights are conserved and accounted for exactly once.

Tie: as C03 (real REPEX_state vs Lean state machine, state-for-state incl. traj_data fractions and the
data-file rows).  Property predicates are evaluated on what the real code WROTE: infretis_data.txt rows
and restart.toml [current.frac] after every completed step.

Second family ("across restarts"): the real `scheduler()` with the lattice engine of the C08 support
(harness/c08_support/sim.py: synchronous runner, audit-hook tracer, fault injection) is killed with
`os._exit` before / after / half-way through EVERY file effect of `treat_output` (path store, deletion
of old files, data-row append, restart.toml temp write, os.replace) of an accepted step, an accepted
zero swap (two rows) and a rejected step; then the real `setup_config('restart.toml')` (incl.
`clean_data_file`) restarts and the run continues to N.  The C04 law is evaluated on the files on disk
after the restart's clean-up and at the end of the continued run.
"""
from __future__ import annotations

import os
import random
import shutil
import tempfile
from fractions import Fraction

import repex_tie as T

TOL = 1e-9


def fvec(s):
    return [float(x) for x in s.split(",")] if s else []


def parse_frac(s):
    out = {}
    if s:
        for part in s.split(";"):
            k, v = part.split(":", 1)
            out[int(k)] = fvec(v)
    return out


def parse_rows(s):
    out = []
    if s:
        for part in s.split(";"):
            pn, fr, ws = part.split(":")
            out.append((int(pn), fvec(fr), fvec(ws)))
    return out


def predicates(ctx, sim, label, seq=False):
    """The property predicates on what the REAL code holds / wrote, for the whole restart chain of `sim`
    (independent of the model comparison, which is done afterwards on the recorded lines).
    Live weights = [current.frac] entries of the paths listed in [current.active] of restart.toml."""
    n = sim.n
    ncol = n - 1                      # ensemble columns (the data file shows these)
    idle_count = [0] * n
    prev_tot = None
    prev_frac = {}
    carry_rows = []                   # rows written by earlier segments (the data file is continued)
    chain = list(getattr(sim, "previous", [])) + [sim]
    last_cstep = None
    for seg_i, seg in enumerate(chain):
        rows = list(carry_rows)
        prev_held, prev_d = [], None
        for idx, (tag, d, held) in enumerate(seg.snaps):
            rep = {"history": label, "params": getattr(sim, "params", None), "ctxseed": ctx.seed, "segment": seg_i,
                   "snapshot": idx, "after": tag}
            rows = carry_rows + parse_rows(d["rows"])
            rfrac = parse_frac(d["_restart_frac"]) if tag == "treat" else None
            live = [int(t) for t in d["trajs"].split(",")[:-1]]
            mem_frac = parse_frac(d["frac"])
            # rows: at most once, never while live
            pns = [r[0] for r in rows]
            if len(set(pns)) != len(pns):
                ctx.fail("C04:row-written-twice", f"data file lists a path twice: {pns}", rep)
            both = set(pns) & set(live)
            if both:
                ctx.fail("C04:row-written-while-live", f"paths {sorted(both)} are live and already in the data file", rep)
            # every path number handed out so far is live (in a slot, possibly in flight) or was replaced -> has its row
            trajnum = int(d["trajnum"])
            gone = sorted(p for p in range(trajnum) if p not in live and p not in pns)
            if gone and tag != "loaded":
                ctx.fail("C04:replaced-path-has-no-row", f"paths {gone} are neither live nor in the data file "
                         f"(traj_num {trajnum}, live {live}, rows {pns})", rep)
            if tag != "treat":
                prev_held, prev_d = held, d
                continue
            # coverage: a REJECTED move in [0-] on the initial path number 0 that already carries weight
            done = [h for h in prev_held if h[0] not in {x[0] for x in held}]
            if prev_d is not None and int(prev_d["trajnum"]) == trajnum and \
                    any((e == -1 and int(p) == 0) for h in done for (e, p) in h[1]) and \
                    any(abs(x) > 0 for x in parse_frac(prev_d["frac"]).get(0, [])):
                ctx.hit("rejected-move-in-[0-]-on-path-0-with-weight" + ("/after-restart" if seg_i else ""))
            active = [int(a) for a in d["_restart_active"].split(",")] if d["_restart_active"] else []
            if rfrac is None or sorted(active) != sorted(live):
                ctx.fail("C04:restart-active", f"restart.toml active {active} vs live paths {live}", rep)
                prev_held, prev_d = held, d
                continue
            # [current.frac] holds the weights of the simulation's own live paths and of nothing else
            alien = sorted(p for p in rfrac if p not in active)
            if alien:
                ctx.fail("C04:seq:restart-file-lists-weights-of-an-earlier-simulation" if seq else
                         "C04:restart-frac-lists-non-live-path",
                         f"restart.toml [current.frac] has entries for paths {alien} that are not active (active {active}): "
                         + "; ".join(f"{p}: {rfrac[p]}" for p in alien[:3]), rep)
            missing = sorted(p for p in active if p not in rfrac)
            if missing or set(rfrac) != set(mem_frac):
                ctx.fail("C04:restart-frac-keys", f"restart.toml frac keys {sorted(rfrac)} vs traj_data {sorted(mem_frac)}; "
                         f"active without weights: {missing}", rep)
                if missing:
                    prev_held, prev_d = held, d
                    continue
            locks = d["locks"]
            W = [fvec(r) for r in d["W"].split(";")]
            # totals per column from the files: data rows (masked columns count as 0) + weights of the LIVE paths
            tot = [0.0] * n
            for (_pn, fr, _ws) in rows:
                for c, x in enumerate(fr):
                    tot[c] += x
            for pn in active:
                for c, x in enumerate(rfrac[pn]):
                    tot[c] += x
            for c in range(ncol):
                if locks[c] == "0":
                    idle_count[c] += 1
            base = prev_tot if prev_tot is not None else [0.0] * n
            for c in range(n):
                want = 1.0 if (c < ncol and locks[c] == "0") else 0.0
                if abs((tot[c] - base[c]) - want) > TOL:
                    ctx.fail("C04:step-does-not-add-one-per-idle-column",
                             f"column {c}: rows + live weights changed by {tot[c] - base[c]!r}, expected {want} (locks {locks})", rep)
            for c in range(n):
                if abs(tot[c] - (idle_count[c] if c < ncol else 0)) > 1e-7:
                    ctx.fail("C04:conservation", f"column {c}: rows+live = {tot[c]!r}, steps with that ensemble idle = "
                             f"{idle_count[c] if c < ncol else 0}", rep)
            # distribution: only idle live paths, only where weight non-zero
            slot_of = {pn: i for i, pn in enumerate(live)}
            for pn, v in rfrac.items():
                old = prev_frac.get(pn, [0.0] * n)
                delta = [a - b for a, b in zip(v, old)]
                if any(abs(x) > TOL for x in delta):
                    if pn not in slot_of:
                        ctx.fail("C04:weight-added-to-non-live-path", f"path {pn} gained {delta}", rep)
                        continue
                    s = slot_of[pn]
                    if locks[s] == "1":
                        ctx.fail("C04:weight-added-to-busy-path", f"path {pn} in busy ensemble slot {s} gained {delta}", rep)
                    for c, x in enumerate(delta):
                        if x < -TOL:
                            ctx.fail("C04:negative-increment", f"path {pn} column {c}: {x}", rep)
                        if abs(x) > TOL and W[s][c] == 0.0:
                            ctx.fail("C04:weight-added-where-weight-zero", f"path {pn} column {c}: +{x} but W=0", rep)
            prev_tot = tot
            prev_frac = {pn: list(v) for pn, v in rfrac.items()}
            last_cstep = int(d["cstep"])
            ctx.distinct((d["_restart_frac"], d["rows"], seg_i))
            prev_held, prev_d = held, d
        carry_rows = rows
        if seg.error is not None:
            ctx.fail("C04:sampler-raised", f"{type(seg.error).__name__}: {seg.error}",
                     {"history": label, "params": getattr(sim, "params", None), "ctxseed": ctx.seed, "segment": seg_i})
    if sim.workers == 1 and last_cstep is not None:
        if any(abs(idle_count[c] - last_cstep) > 0 for c in range(ncol)):
            ctx.fail("C04:one-worker-total-not-cstep", f"idle counts {idle_count[:ncol]} vs cstep {last_cstep}",
                     {"history": label, "params": getattr(sim, "params", None), "ctxseed": ctx.seed})


# ----------------------------------------------------------------------------------------------
# stops inside treat_output, restart, continue: the law on the files on disk
# ----------------------------------------------------------------------------------------------
CRASH_N = 8          # step target of the crash histories


def disk_read(root):
    """(restart record, data rows) as the files say; None if there is no readable restart.toml"""
    import tomli
    rp = os.path.join(root, "restart.toml")
    if not os.path.isfile(rp):
        return None
    try:
        with open(rp, "rb") as f:
            cfg = tomli.load(f)
        cur = cfg["current"]
        rec = {"cstep": int(cur["cstep"]), "active": [int(a) for a in cur["active"]],
               "traj_num": int(cur["traj_num"]), "size": int(cur["size"]),
               "frac": {int(k): [float(x) for x in v] for k, v in cur.get("frac", {}).items()},
               "steps": int(cfg["simulation"]["steps"]), "workers": int(cfg["runner"]["workers"]),
               "data_file": cfg["output"].get("data_file", "./infretis_data.txt")}
    except Exception:  # noqa: BLE001  (an unreadable restart file is C08's subject)
        return None
    rows, torn = [], 0
    dp = os.path.join(root, rec["data_file"])
    if os.path.isfile(dp):
        with open(dp, "rb") as f:
            raw = f.read().decode("utf8", "replace")
        lines = raw.split("\n")
        if lines and lines[-1] == "":
            lines.pop()
        elif lines:
            torn += 1
            lines.pop()           # unterminated last line: not a row
        for ln in lines:
            if ln.startswith("#") or not ln.strip():
                continue
            toks = ln.split()
            try:
                pn = int(toks[0])
                ncol = (len(toks) - 3) // 2
                if ncol != rec["size"] or len(toks) != 3 + 2 * ncol:
                    raise ValueError
                fr = [0.0 if t == "----" else float(t) for t in toks[3:3 + ncol]]
            except (ValueError, IndexError):
                torn += 1
                continue
            rows.append((pn, fr))
    rec["torn"] = torn
    return rec, rows


def disk_law(root, n_initial):
    """the C04 law on the files: list of (signature, message).  One worker: every ensemble was idle at
    every completed step, so the column totals must equal cstep."""
    got = disk_read(root)
    if got is None:
        return None, []
    rec, rows = got
    out = []
    ncol = rec["size"]
    pns = [r[0] for r in rows]
    dup = sorted({p for p in pns if pns.count(p) > 1})
    if dup:
        out.append(("row-written-twice", f"paths {dup} have more than one data row (rows {pns})"))
    both = sorted(set(pns) & set(rec["active"]))
    if both:
        out.append(("row-written-while-live", f"paths {both} are active in restart.toml and have a data row"))
    # every path number handed out so far is either live or was replaced -> exactly one row
    lost = sorted(p for p in range(rec["traj_num"]) if p not in rec["active"] and p not in pns)
    if lost:
        out.append(("replaced-path-has-no-row", f"paths {lost} are neither active nor in the data file "
                    f"(traj_num {rec['traj_num']}, active {rec['active']}, rows {pns})"))
    missing = sorted(p for p in rec["active"] if p not in rec["frac"])
    if missing:
        out.append(("live-path-without-weights", f"active paths {missing} have no [current.frac] entry"))
    tot = [0.0] * ncol
    for _pn, fr in rows:
        for c in range(ncol):
            tot[c] += fr[c]
    for p in rec["active"]:
        v = rec["frac"].get(p, [])
        for c in range(min(ncol, len(v))):
            tot[c] += v[c]
    if rec["workers"] == 1:
        bad = [c for c in range(ncol) if abs(tot[c] - rec["cstep"]) > 1e-6]
        if bad:
            out.append(("conservation", f"cstep = {rec['cstep']} but data rows + live weights per ensemble = "
                        f"{[round(t, 6) for t in tot]}"))
    else:
        bad = [c for c in range(ncol) if abs(tot[c] - round(tot[c])) > 1e-6 or tot[c] > rec["cstep"] + 1e-6]
        if bad:
            out.append(("conservation", f"cstep = {rec['cstep']}: data rows + live weights per ensemble = "
                        f"{[round(t, 6) for t in tot]} (must be whole numbers <= cstep)"))
    return rec, out


def crash_specs(ctx):
    rng = ctx.rng
    base = [
        {"nintf": 3, "moves": ["sh", "sh", "wf"], "delete_old": True, "delete_old_all": False},
        {"nintf": 4, "moves": ["sh", "sh", "sh", "wf"], "delete_old": True, "delete_old_all": True},
    ]
    if not ctx.quick:
        base += [
            {"nintf": 3, "moves": ["sh", "sh", "sh"], "delete_old": False, "delete_old_all": False},
            {"nintf": 5, "moves": ["sh", "sh", "wf", "wf", "wf"], "delete_old": True, "delete_old_all": False},
            {"nintf": 4, "moves": ["sh", "sh", "wf", "sh"], "delete_old": False, "delete_old_all": False},
            {"nintf": 3, "moves": ["sh", "sh", "wf"], "delete_old": True, "delete_old_all": True},
        ]
    out = []
    for b in base:
        out.append(dict(b, steps=CRASH_N, workers=1, seed=rng.randint(0, 99)))
    return out


def step_table(events):
    """treat_output's effects grouped by step: {cstep: {"kind": REJ|ACC1|ACC2, "events": [...]}}"""
    steps = {}
    for e in events:
        if "treat_output" not in e.get("tags", []) or e.get("cstep") is None:
            continue
        st = steps.setdefault(int(e["cstep"]), {"events": [], "rows": 0})
        st["events"].append(e)
        if e["op"] == "open-a" and str(e["path"]).startswith("infretis_data"):
            st["rows"] += (e.get("text") or "").count("\n")
    for st in steps.values():
        st["kind"] = "REJ" if st["rows"] == 0 else ("ACC1" if st["rows"] == 1 else "ACC2")
        if any(e["op"] in ("remove", "rmdir") for e in st["events"]):
            st["kind"] += "+del"
    return steps


def crash_points(steps, quick):
    """(k, mode, kind, op) for every effect of one step of each kind (thorough: up to three of each)"""
    per_kind = 1 if quick else 3
    seen = {}
    pts = []
    for cs in sorted(steps):
        st = steps[cs]
        if cs < 2:                 # the very first restart.toml may not exist yet: C08's subject
            continue
        if seen.get(st["kind"], 0) >= per_kind:
            continue
        seen[st["kind"]] = seen.get(st["kind"], 0) + 1
        for e in st["events"]:
            modes = ["before", "half"] if e["op"] in ("open-w", "open-a") else ["before", "after"]
            for m in modes:
                pts.append((e["k"], m, st["kind"], e["op"], str(e["path"]), cs))
    last = max((e["k"] for st in steps.values() for e in st["events"]), default=None)
    return pts, seen, last


def crash_cases_check(ctx, csim, spec, work, cases):
    """cases: [(root, info)] of crashed trees.  Restart each with the real setup_config (clean-up only), law;
    then continue to N, law again.  The two passes are fanned out over forked children."""
    def rep_of(info):
        return {"family": "crash", "spec": spec, "k": info["k"], "mode": info["mode"], "ctxseed": ctx.seed}

    def where(info):
        return (f"killed {info['mode']} effect {info['k']} ({info['op']} {info['path']}) of a {info['kind']} step "
                f"(cstep {info['cstep']})")

    todo = []
    for root, info in cases:
        if disk_read(root) is None:
            ctx.count(1, crash="no-restart-file")
        else:
            todo.append((root, info))
    res0 = csim.runjobs([{"root": root, "result": f"{work}/{info['tag']}.setup.json", "kind": "restart",
                          "entry": "restart.toml", "setup_only": True} for root, info in todo])
    cont = []
    for (root, info), (_rc, r0) in zip(todo, res0):
        if r0 is None or r0.get("outcome") != "starts":
            ctx.count(1, crash="restart-does-not-start")     # C08's subject
            continue
        _rec, bad = disk_law(root, spec["nintf"])
        for sig, msg in bad:
            ctx.fail(f"C04:crash:{sig}:after-cleanup",
                     f"{where(info)}, restarted (setup_config + clean_data_file): {msg}", rep_of(info))
        cont.append((root, info))
    res1 = csim.runjobs([{"root": root, "result": f"{work}/{info['tag']}.cont.json", "kind": "restart",
                          "entry": "restart.toml"} for root, info in cont])
    for (root, info), (_rc, r1) in zip(cont, res1):
        if r1 is None or r1.get("phase") != "finished":
            ctx.count(1, crash="continued-run-raises")       # C08 / C05's subject
            continue
        rec, bad = disk_law(root, spec["nintf"])
        if rec is not None and rec["cstep"] != spec["steps"]:
            ctx.count(1, crash="continued-run-short")
        for sig, msg in bad:
            ctx.fail(f"C04:crash:{sig}:continued",
                     f"{where(info)}, restarted and continued to step {rec['cstep']}: {msg}", rep_of(info))
        p = info["path"]
        what = os.path.basename(p).split(".")[0] if p.startswith(("restart", "infretis_data")) else "store"
        ctx.count(1, crash=f"{info['kind']}:{info['mode']}-{info['op']}-{what}")
        ctx.distinct(("crash", spec["nintf"], tuple(spec["moves"]), spec["seed"], info["k"], info["mode"]))


def crash_family(ctx, only=None):
    """only = (spec, k, mode): replay of one case"""
    import c08_support.sim as csim
    work = tempfile.mkdtemp(prefix="c04crash-", dir="/var/tmp")
    try:
        specs = [only[0]] if only else crash_specs(ctx)
        for si, spec in enumerate(specs):
            (rc, res), = csim.runjobs([{"root": f"{work}/ref{si}", "result": f"{work}/ref{si}.json",
                                        "kind": "fresh", "spec": spec}])
            if res is None or res.get("phase") != "finished":
                ctx.fail("C04:sampler-raised", f"uninterrupted lattice run did not finish: rc={rc} "
                         f"{(res or {}).get('error')}", {"family": "crash", "spec": spec, "ctxseed": ctx.seed})
                continue
            rec, bad = disk_law(f"{work}/ref{si}", spec["nintf"])
            for sig, msg in bad:
                ctx.fail(f"C04:crash:{sig}:uninterrupted", f"uninterrupted run to step {spec['steps']}: {msg}",
                         {"family": "crash", "spec": spec, "ctxseed": ctx.seed})
            steps = step_table(res["events"])
            pts, seen, _ = crash_points(steps, ctx.quick)
            if only:
                pts = [p for p in pts if p[0] == only[1] and p[1] == only[2]] or \
                      [(only[1], only[2], "?", "?", "?", -1)]
            for kind, cnt in seen.items():
                ctx.count(0, crash_step_kinds=kind)
            jobs, infos = [], []
            for (k, mode, kind, op, path, cs) in pts:
                tag = f"s{si}k{k}{mode}"
                jobs.append({"root": f"{work}/{tag}", "result": f"{work}/{tag}.json", "kind": "fresh",
                             "spec": spec, "crash": {"k": k, "mode": mode}})
                infos.append({"k": k, "mode": mode, "kind": kind, "op": op, "path": path, "cstep": cs, "tag": tag})
            results = csim.runjobs(jobs)
            cases = []
            for job, info, (rc, r) in zip(jobs, infos, results):
                if rc != csim.CRASH_RC:
                    ctx.count(1, crash="crash-point-not-reached")
                    continue
                cases.append((job["root"], info))
            crash_cases_check(ctx, csim, spec, work, cases)
            for job in jobs:
                shutil.rmtree(job["root"], ignore_errors=True)
    finally:
        shutil.rmtree(work, ignore_errors=True)



# ----------------------------------------------------------------------------------------------
# blocks beyond the exact algorithms: what survives surely (real code only; the model has no counterpart)
# ----------------------------------------------------------------------------------------------
MC_SAMPLES = 150     # sweeps of `random_prob` in this plan (the code's default is 10 000; same function, fewer sweeps)


def mc_history(ctx, n_ens, workers, steps, seed, label):
    """n_ens >= 14, all plus paths valid up to the last ensemble with wire-fencing weights that differ from ensemble to ensemble: the idle
    block is one non-row-constant block of more than 12 rows, so `inf_retis` takes its Monte-Carlo branch
    (`random_prob`).  There P is an estimate (two calls differ), so nothing is compared with the Lean model; judged on
    the real code alone: every P the sampler computes has idle column/row sums 1 and is 0 where W is 0 and on
    busy rows/columns, and the C04 predicates hold on the files it writes."""
    import contextlib
    import copy
    import io
    import warnings
    import numpy as np
    rng = random.Random(label)
    sim = T.Sim(ctx, n_ens, workers, steps, seed=seed, wf=True, eng_types=1, rng=rng)
    R = sim.R
    orig_rp, orig_ir = R.REPEX_state.random_prob, R.REPEX_state.inf_retis
    seen = {"mc": 0, "calls": 0}

    def fast_rp(self, arr, n=10_000):
        # the sweeps draw from the scheduler stream (`self.rgen`, here the scripted generator of repex_tie, which
        # only serves pick()'s requests): give them a seeded numpy generator of their own for the call
        seen["mc"] += 1
        saved = self.rgen
        self.rgen = np.random.Generator(np.random.PCG64(1000 * seed + seen["mc"]))
        try:
            return orig_rp(self, arr, n=MC_SAMPLES)
        finally:
            self.rgen = saved

    def checked_ir(self, input_mat, locks):
        P = orig_ir(self, input_mat, locks)
        seen["calls"] += 1
        idle = [i for i in range(len(locks)) if not locks[i]]
        Pf = np.asarray(P, dtype=float)
        rep = {"history": label, "ctxseed": ctx.seed, "family": "mc", "params": {"mc": [n_ens, workers, steps, seed]}}
        for i in range(len(locks)):
            for c in range(len(locks)):
                if Pf[i, c] != 0.0 and (input_mat[i, c] == 0 or i not in idle or c not in idle):
                    ctx.fail("C04:mc:weight-where-none", f"P[{i},{c}] = {Pf[i, c]!r} with W = {input_mat[i, c]!r}, locks {list(locks)}", rep)
                    return P
        for c in idle:
            if abs(Pf[:, c].sum() - 1.0) > 1e-9 or abs(Pf[c, :].sum() - 1.0) > 1e-9:
                ctx.fail("C04:mc:column-sum", f"column/row {c}: sums {Pf[:, c].sum()!r} / {Pf[c, :].sum()!r}", rep)
                return P
        return P

    snaps, inflight, error = [], [], None

    def snap(tag):
        d = sim.op_dump()
        held = [(md["pin"], [(e, dd["pn_old"]) for e, dd in md["picked"].items()],
                 {e: dict(dd["eng_idx"]) for e, dd in md["picked"].items()}, os.path.basename(md["w_folder"]))
                for md in inflight]
        snaps.append((tag, d, held))

    R.REPEX_state.random_prob, R.REPEX_state.inf_retis = fast_rp, checked_ir
    try:
        with contextlib.redirect_stdout(io.StringIO()), warnings.catch_warnings():
            warnings.simplefilter("ignore")          # the code prints "random #k" and divides by zero weights there
            wts = [1, 2, 3, 5, 17]
            def vec():          # a weight that changes from ensemble to ensemble, as compute_weight gives
                return [rng.choice(wts) for _ in range(n_ens - 1)] + [0]
            paths = [T.FakePath(0, (1.0,))] + [T.FakePath(i, vec()) for i in range(1, n_ens)]
            sim.load_initial(paths)
            snap("loaded")
            base = {"mc_moves": sim.st.mc_moves, "interfaces": sim.st.interfaces, "cap": None}
            while sim.op_initiate():
                inflight.append(sim.op_prep(copy.deepcopy(base)))
                snap("prep")
            while sim.op_loop():
                md = inflight.pop(rng.randrange(len(inflight)))
                status = "ACC" if rng.random() < 0.6 else "REJ"
                ws = []
                for ens_num in md["picked"]:
                    ws.append([1] if ens_num == -1 else vec())
                md = sim.op_treat(md, status, ws)
                snap("treat")
                if sim.st.cstep + sim.st.workers <= sim.st.tsteps:
                    inflight.append(sim.op_prep(md))
                    snap("prep")
    except Exception as e:  # noqa: BLE001
        error = e
    finally:
        R.REPEX_state.random_prob, R.REPEX_state.inf_retis = orig_rp, orig_ir
    sim.snaps, sim.error, sim.previous = snaps, error, []
    sim.params = {"mc": [n_ens, workers, steps, seed]}
    sim.close()
    predicates(ctx, sim, label)
    ctx.count(sum(1 for s_ in snaps if s_[0] == "treat"), history=f"n{n_ens}w{workers}+monte-carlo")
    ctx.count(seen["calls"], mc="P-matrices-checked")
    if seen["mc"]:
        ctx.hit("monte-carlo-branch-of-inf_retis")
    return sim, seen



# ----------------------------------------------------------------------------------------------
# several simulations one after the other in ONE process
# ----------------------------------------------------------------------------------------------
# Statement tied here: the files a simulation writes (data file, restart.toml) depend on its own configuration, seed
# and outcomes — not on what ran before in the same interpreter.  Every simulation of a sequence is judged by the full
# set of C04 predicates on ITS files and compared op by op with its own fresh Lean model instance (the model is a
# function of the simulation's own inputs only).  The sampler objects are set up the way `setup_internal` does it
# (`REPEX_state(config)`, `initiate_ensembles()`, `load_paths(...)`): repex_tie.Sim additionally rebinds class-level
# attributes of REPEX_state on the instance; that is undone here (`unshadow`), except for the path-store stub.
#
# History: until /repo 6d8754f `REPEX_state.traj_data` (and `ensembles`, `engine_occ`, `pstore`) were class-level objects;
# a simulation started after another one listed the earlier one's paths in its `[current.frac]`
# (known_findings: C04:seq:restart-file-lists-weights-of-an-earlier-simulation, fixed).  Nothing is filtered here:
# the statement is enforced in full, incl. byte-equal files for a simulation run after others vs run first.
HARNESS_STUBS = {"pstore"}                    # replaced by the tie on purpose (FakeStore: the path store is C08/C14's)
SET_UP_BY_REAL_CODE = {"ensembles", "engine_occ"}   # bound on the instance by initiate_ensembles / setup_internal


def unshadow(st, cfg):
    """remove instance attributes that the harness bound over class-level attributes of REPEX_state and that neither
    `__init__` nor the real set-up code binds: the object then shares what objects of the real code share"""
    import copy
    cls = type(st)
    probe = object.__new__(cls)
    cls.__init__(probe, copy.deepcopy(cfg), minus=True)
    own = set(vars(probe))
    removed = []
    for name in list(vars(st)):
        if name in own or name in HARNESS_STUBS or name in SET_UP_BY_REAL_CODE:
            continue
        if any(name in vars(k) for k in cls.__mro__):
            delattr(st, name)
            removed.append(name)
    return removed


def real_load_initial(self, paths_by_slot=None, fracs=None):
    """repex_tie.Sim.load_initial with the REAL `REPEX_state.load_paths` doing the work (fresh starts and restarts
    alike), as `setup_internal` does; the model is told what the simulation's own inputs say: the paths, their weights
    and the fractions of ITS restart file (zeros on a fresh start).  calc_cv_vector of a stored path returns the
    path's weight vector (C09/C10's subject)."""
    from fractions import Fraction
    from common import frac_token, lst, err_kind
    st, n_ens = self.st, self.n_ens
    if paths_by_slot is None:
        paths_by_slot = [T.FakePath(0, (1.0,))] + [T.FakePath(i, T.staircase(n_ens, i - 1, i - 1, 1)) for i in range(1, n_ens)]
    R = self.R
    old = R.calc_cv_vector
    R.calc_cv_vector = lambda path, *a, **k: tuple(path.weights)
    try:
        try:
            st.load_paths(list(paths_by_slot))
            real = "ok"
        except Exception as e:  # noqa: BLE001
            real = err_kind(e)
    finally:
        R.calc_cv_vector = old
    for i in list(range(1, n_ens)) + [0]:
        p = paths_by_slot[i]
        fr = [0.0] * self.n if not fracs or p.path_number not in fracs else [float(x) for x in fracs[p.path_number]]
        self.emit(f"load {i - 1} {p.path_number} {lst(p.weights, frac_token)} {lst([Fraction(x) for x in fr], str)}", real, "load")


def class_level_state(cls):
    """(name, object) of the mutable class-level containers of REPEX_state"""
    return [(k, v) for k, v in vars(cls).items() if isinstance(v, (dict, list, set)) and not k.startswith("__")]


def seq_plans(ctx):
    """a plan = list of actions in one 'process': (sim name, n_ens, workers, steps, seed, wf, acc_p, stop_after|None).
    The first action of a name is a fresh start, later ones restart it from the restart file it wrote."""
    rng = ctx.rng
    sd = lambda: rng.randint(0, 9)  # noqa: E731
    plans = [
        # fresh B after a finished A, same size (the initial path numbers 0..n-1 overlap), many rejections in A
        [("A", 3, 1, 8, sd(), False, 0.3, None), ("B", 3, 1, 10, sd(), False, 0.6, None)],
        [("A", 4, 2, 10, sd(), True, 0.4, None), ("B", 4, 1, 12, sd(), True, 0.7, None)],
        # fresh B after an ABANDONED A (stopped in mid-run), different sizes
        [("A", 4, 2, 14, sd(), False, 0.5, 5), ("B", 3, 1, 10, sd(), False, 0.5, None)],
        [("A", 2, 1, 8, sd(), False, 0.3, 4), ("B", 5, 3, 14, sd(), True, 0.6, None)],
        # restart of A, then fresh B, then restart of A again, then a third simulation
        [("A", 3, 1, 14, sd(), False, 0.4, 4), ("A", 3, 1, 14, 0, False, 0.4, 9), ("B", 3, 2, 8, sd(), True, 0.5, None),
         ("A", 3, 1, 14, 0, False, 0.4, None), ("C", 4, 1, 8, sd(), False, 0.5, None)],
    ]
    if not ctx.quick:
        for _ in range(12):
            acts = []
            for name in "ABC"[:rng.randint(2, 3)]:
                n_ens = rng.randint(2, 5)
                acts.append((name, n_ens, rng.randint(1, max(1, n_ens - 1)), rng.randint(6, 16), sd(), rng.random() < 0.5,
                             rng.choice([0.3, 0.5, 0.8]), rng.choice([None, None, 3, 5])))
            # interleave a restart of the first simulation if it was stopped
            if acts[0][7] is not None:
                a = acts[0]
                acts.append((a[0], a[1], a[2], a[3], 0, a[5], a[6], None))
            plans.append(acts)
    return plans


def seq_process(ctx, acts, tag, judge=True):
    """run the actions one after the other in this interpreter, starting from the class-level state of a fresh one;
    returns [(sim, label, name, segment index)]; every Sim keeps the bytes of its two files (`final_files`)"""
    from infretis.classes import repex as R
    cls = R.REPEX_state
    saved = [(k, v, (dict(v) if isinstance(v, dict) else list(v) if isinstance(v, list) else set(v)))
             for k, v in class_level_state(cls)]
    for _k, v, _c in saved:
        v.clear()                                  # a fresh interpreter
    sim_init, sim_load, sim_close = T.Sim.__init__, T.Sim.load_initial, T.Sim.close

    def init(self, *a, **k):
        sim_init(self, *a, **k)
        self.unshadowed = unshadow(self.st, self.cfg)

    def close(self):
        files = {}
        for fn in ("infretis_data.txt", "restart.toml"):
            fp = os.path.join(self.tmp, fn)
            files[fn] = open(fp, "rb").read() if os.path.exists(fp) else None
        self.final_files = files
        sim_close(self)

    T.Sim.__init__, T.Sim.load_initial, T.Sim.close = init, real_load_initial, close
    chains = {}          # name -> (list of finished segments, image, weights)
    out = []
    try:
        for ai, (name, n_ens, workers, steps, seed, wf, acc_p, stop) in enumerate(acts):
            prev, image, weights = chains.get(name, ([], None, None))
            if prev and image is None:
                continue                            # the simulation finished: nothing to restart
            label = (f"seq[{tag}] action {ai} sim {name}: n_ens={n_ens} workers={workers} steps={steps} seed={seed} wf={wf} "
                     f"acc_p={acc_p} stop={stop} segment={len(prev)} ctxseed={ctx.seed}")
            # the outcomes of a simulation are its own input: keyed by its name and segment, not by its place in the plan
            rng = random.Random(f"seq {name} {n_ens} {workers} {steps} {seed} {len(prev)} {ctx.seed}")
            sim = T._run_segment(ctx, n_ens, workers, steps, seed, wf, 1, acc_p, None, rng, stop, image, weights)
            sim.previous = list(prev)
            sim.params = {"seq": [list(a) for a in acts], "tag": tag, "action": ai}
            if judge:
                ctx.count(sum(1 for s_ in sim.snaps if s_[0] == "treat"),
                          history=f"seq:n{n_ens}w{workers}" + ("+restart" if prev else ""))
                if getattr(sim, "unshadowed", []):
                    ctx.hit("seq:class-level-attribute-left-shared:" + ",".join(sim.unshadowed))
                predicates(ctx, sim, label, seq=True)            # the whole chain of this simulation, on ITS files
                ctx.distinct(("seq", tag, ai, ctx.seed))
            out.append((sim, label, name, len(prev)))
            chains[name] = (prev + [sim], sim.image if sim.error is None else None,
                            getattr(sim, "weights_by_pn", None))
    finally:
        T.Sim.__init__, T.Sim.load_initial, T.Sim.close = sim_init, sim_load, sim_close
        for _k, v, c in saved:
            v.clear()
            v.update(c) if not isinstance(v, list) else v.extend(c)
    return out


def seq_independence(ctx, acts, tag, ran):
    """every simulation of the plan once more, ALONE in a fresh class-level state ("run first"): the bytes of its data
    file and of its restart.toml at the end of every segment, and every state dump on the way, must be the same"""
    names = []
    for a in acts:
        if a[0] not in names:
            names.append(a[0])
    for name in names:
        alone = seq_process(ctx, [a for a in acts if a[0] == name], f"{tag}/alone-{name}", judge=False)
        inseq = [x for x in ran if x[2] == name]
        rep = {"params": {"seq": [list(a) for a in acts], "tag": tag}, "ctxseed": ctx.seed, "family": "seq", "sim": name}
        if len(alone) != len(inseq):
            ctx.fail("C04:seq:files-depend-on-what-ran-before", f"simulation {name}: {len(inseq)} segments in the sequence, "
                     f"{len(alone)} alone", rep)
            continue
        for (sa, _la, _n, seg), (sb, lb, _n2, _s2) in zip(alone, inseq):
            ctx.count(1, seq="independence-compared")
            for fn in ("infretis_data.txt", "restart.toml"):
                fa, fb = sa.final_files.get(fn), sb.final_files.get(fn)
                if fa != fb:
                    what = "missing" if fa is None or fb is None else next(
                        (f"line {i + 1}: alone {x[:120]!r} / in the sequence {y[:120]!r}" for i, (x, y) in
                         enumerate(zip(fa.decode(errors='replace').splitlines() + [""] * 9999, fb.decode(errors='replace').splitlines() + [""]))
                         if x != y), "lengths differ")
                    ctx.fail("C04:seq:restart-file-lists-weights-of-an-earlier-simulation" if fn == "restart.toml" else
                             "C04:seq:files-depend-on-what-ran-before",
                             f"{lb}: {fn} differs from the one the same simulation writes when it runs first; {what}", rep)
                    break
            else:
                da = [d for t_, d, _h in sa.snaps]
                db = [d for t_, d, _h in sb.snaps]
                if da != db or repr(sa.error) != repr(sb.error):
                    k = next((i for i, (x, y) in enumerate(zip(da, db)) if x != y), min(len(da), len(db)))
                    fld = next((f for f in (da[k] if k < len(da) else {}) if k < len(db) and da[k].get(f) != db[k].get(f)), "?")
                    ctx.fail("C04:seq:files-depend-on-what-ran-before",
                             f"{lb}: state dump {k} differs in {fld!r} from the run of the same simulation alone", rep)


def seq_compare(ctx, seq_outs):
    """each simulation against its own fresh model instance, nothing filtered"""
    if not seq_outs:
        return
    answers = ctx.driver([l for sm, _ in seq_outs for l in sm.lines])
    pos = 0
    for sm, label in seq_outs:
        T.compare(ctx, sm, answers[pos:pos + len(sm.lines)], label)
        pos += len(sm.lines)


def seq_family(ctx, only=None):
    seq_outs = []
    plans = [only] if only else seq_plans(ctx)
    for pi, acts in enumerate(plans):
        acts = [tuple(a) for a in acts]
        tag = pi if only is None else "replay"
        ran = seq_process(ctx, acts, tag)
        seq_independence(ctx, acts, tag, ran)
        seq_outs += [(sm, label) for sm, label, _n, _s in ran]
    if ctx._driver_ok and only is None:
        seq_compare(ctx, seq_outs)
    return seq_outs


def one(ctx, params, with_model, outs):
    n_ens, workers, steps, seed, wf, et, acc = params[:7]
    restarts = tuple(params[7]) if len(params) > 7 and params[7] else ()
    label = f"n_ens={n_ens} workers={workers} steps={steps} seed={seed} wf={wf} eng_types={et} acc_p={acc} ctxseed={ctx.seed}"
    if restarts:
        label += f" restarts={list(restarts)}"
    sim = T.run_history(ctx, n_ens, workers, steps, seed=seed, wf=wf, eng_types=et, acc_p=acc, rng=random.Random(label),
                        restarts=restarts)
    sim.params = list(params[:7]) + [list(restarts)]
    chain = list(getattr(sim, "previous", [])) + [sim]
    ctx.count(sum(1 for sm in chain for s in sm.snaps if s[0] == "treat"),
              history=f"n{n_ens}w{workers}" + ("+restarts" if restarts else ""))
    predicates(ctx, sim, label)          # judged on the real side alone, whatever the model will say
    if with_model:
        for sm in chain:
            outs.append((sm, label))
    return sim


def run(ctx):
    rng = ctx.rng
    ctx.rule = ("completed steps of scheduler-shaped histories of the real REPEX_state (see C03) incl. zero swaps, "
                "rejections, several workers; after every completed step infretis_data.txt and restart.toml are parsed; "
                "distinct = distinct (restart fractions, data rows) contents; disk family (props/c04_disk.py): every row "
                "written, the restart image, the idle counts and every stop inside every completed step of histories with "
                "real files and real restarts (clean_data_file, load_paths), plus direct families for write_to_pathens and "
                "clean_data_file; distinct = distinct inputs / histories")
    plans = []
    for n_ens in (2, 3, 4, 5):
        for w in range(1, n_ens):
            for rep in range(2 if ctx.quick else 8):
                plans.append((n_ens, w, 15 + 5 * n_ens, rng.randint(0, 9), bool(rep % 2), 1, rng.choice([0.5, 0.9]), True))
    for _ in range(5 if ctx.quick else 50):
        n_ens = rng.randint(5, 8)
        plans.append((n_ens, rng.randint(1, n_ens - 1), rng.randint(40, 100 if ctx.quick else 300), rng.randint(0, 9),
                      rng.random() < 0.5, 1, rng.choice([0.3, 0.7, 0.95]), n_ens <= 5))
    from props import c04_disk
    c04_disk.run_disk(ctx)
    crash_family(ctx)
    # restart chains (killed right after the restart file of a step was written, rebuilt from restart.toml);
    # acc_p 0.7 / 0.5 so that rejected moves in [0-] on the initial path 0 occur before and after restarts
    rplans = []
    for n_ens in (2, 3, 4):
        for w in (1, 2):
            if w >= n_ens:
                continue
            for rep in range(1 if ctx.quick else 4):
                steps = 24 + 4 * n_ens
                rplans.append((n_ens, w, steps, rng.randint(0, 9), bool(rep % 2), 1, rng.choice([0.5, 0.7]),
                               (steps // 4, steps // 2, 3 * steps // 4), True))
    # early restarts with many rejections: the initial [0-] path (number 0) survives the restart and is then
    # rejected while it carries weight
    for n_ens in (2, 3):
        for rep in range(3 if ctx.quick else 10):
            rplans.append((n_ens, 1, 16, rng.randint(0, 99), False, 1, 0.3, (2, 4, 8), True))
    outs = []
    for p in plans:
        one(ctx, p[:7], p[7] and ctx._driver_ok, outs)
    for p in rplans:
        one(ctx, p[:8], p[8] and ctx._driver_ok, outs)
    # screen > 0: print_shooted / print_state (which touches the cached `_last_prob`) run inside treat_output;
    # `Sim` takes the setting but run_history does not pass it on, so it is forced for these plans
    sim_init = T.Sim.__init__

    def screen_init(self, *a, **k):
        k["screen"] = 1
        sim_init(self, *a, **k)

    T.Sim.__init__ = screen_init
    try:
        for (n_ens, w, rs) in ((3, 1, (6, 12)), (4, 2, (8,))) + (() if ctx.quick else ((5, 3, (5, 15)), (2, 1, ()))):
            sim = one(ctx, (n_ens, w, 20, rng.randint(0, 9), bool(w % 2), 1, 0.7, rs), ctx._driver_ok, outs)
            if sim.st.screen != 1:
                ctx.fail("C04:harness:screen-not-set", "the screen plan ran with screen = 0", {"family": "screen"})
            ctx.hit("screen=1")
    finally:
        T.Sim.__init__ = sim_init
    # blocks > 12 that are not row-constant: inf_retis' Monte-Carlo branch (real code only)
    for (n_ens, w, st) in ((15, 1, 6), (16, 3, 8)) + (() if ctx.quick else ((14, 2, 25), (18, 5, 25), (15, 1, 30))):
        mc_history(ctx, n_ens, w, st, rng.randint(0, 9), f"mc n_ens={n_ens} workers={w} steps={st} ctxseed={ctx.seed}")
    # several simulations in one process (class-level state of the sampler restored afterwards)
    seq_family(ctx)
    if outs:
        # every segment starts with `init`, which resets the driver's state: one driver process for all of them
        answers = ctx.driver([l for sm, _ in outs for l in sm.lines])
        pos = 0
        for sm, label in outs:
            T.compare(ctx, sm, answers[pos:pos + len(sm.lines)], label)
            pos += len(sm.lines)
    if outs:
        s = outs[0][0]
        tr = [x for x in s.snaps if x[0] == "treat"]
        if tr:
            ctx.sample({"history": outs[0][1], "restart_frac_after_last_step": tr[-1][1]["_restart_frac"],
                        "data_rows": tr[-1][1]["rows"]})
    ctx.assumptions += [
        "several simulations in one process: two to five fresh starts / restarts one after the other in this interpreter, "
        "sampler objects set up as setup_internal does (class-level attributes of REPEX_state left shared; path store "
        "stubbed); each simulation is judged by the C04 predicates on its own files and compared with its own fresh model "
        "instance, nothing filtered; every simulation is also run alone (first in a fresh class-level state) and the bytes "
        "of its data file and restart.toml at the end of every segment and all state dumps must be the same",
        "model-`prob` = code-`prob` only where C02 ties them: the idle block within C02's staircase family, every block "
        "of at most 12 rows or row-constant.  Larger non-row-constant blocks go to `random_prob`, a Monte-Carlo estimate "
        "drawn from the scheduler stream (two calls on the same W differ by 0.1): there the 'permanent ratio' clause of "
        "recordFrac_adds_one_per_idle_column / step_adds_one_per_idle_column_reachable says nothing about the code; the "
        "tie checks on the real code alone (n_ens 15-18, fewer sweeps, own generator for the sweeps) that every P has idle "
        "row/column sums 1, is 0 where W is 0 and on busy slots, and that the C04 predicates hold on the files written",
        "outcomes outside C02's staircase family (a wire-fencing weight 0 between two non-zero ones, produced by the real "
        "calc_cv_vector for a path that jumps over a whole [lambda_i, cap) band) are not generated: there inf_retis fails "
        "its own assertion while the model goes on (open finding C05:hole-weight-vector:prob-assertion); the theorems "
        "with a matchability hypothesis only (conservation, treatOutput_conservation, recordFrac_adds_one_per_idle_column) "
        "describe the code only together with model-prob = code-prob, i.e. inside the family (the *_reachable versions)",
        "several workers: a restart from a restart file that records jobs in flight is covered at theorem level one "
        "restart deep and on the model's row list (restart_inflight_conservation, midstep_restart_inflight_conservation); "
        "on the file lines and for chains of such restarts (files_law_reachable asks for im.locked = []) it is tie-only "
        "(disk family, workers 2-3, scripted path store)",
        "long-double accumulation compared with tolerance 1e-9 per step / 1e-7 on totals",
        "masked ('----') data-file entries are read as 0 (they are written only for zero fractions)",
        "restarts: stops inside treat_output (before/after/half-way every file effect of an accepted step, an accepted "
        "zero swap and a rejected step), restart with the real setup_config + clean_data_file, continue to N: the law is "
        "evaluated on restart.toml + data file after the clean-up and at the end (one worker, lattice engine of the C08 "
        "support); cases in which the restart itself does not start are C08's subject and only counted",
    ]


def replay(ctx, obj):
    r = obj.get("replay", {})
    if r.get("family") in ("disk", "fmt", "clean", "malformed"):
        from props import c04_disk
        c04_disk.replay_disk(ctx, r)
        for f in ctx.fails:
            print("still fails:", f["signature"], f["what"])
        return 1 if ctx.fails else 0
    if r.get("family") == "crash":
        ctx.seed = r.get("ctxseed", ctx.seed)
        if "k" in r:
            crash_family(ctx, only=(r["spec"], r["k"], r["mode"]))
        else:
            crash_family(ctx, only=(r["spec"], -1, "before"))
        for f in ctx.fails:
            print("still fails:", f["signature"], f["what"])
        return 1 if ctx.fails else 0
    if isinstance(r.get("params"), dict) and "seq" in r["params"]:
        ctx.seed = r.get("ctxseed", ctx.seed)
        seq_family(ctx, only=r["params"]["seq"])
        for f in ctx.fails:
            print("still fails:", f["signature"], f["what"])
        return 1 if ctx.fails else 0
    if isinstance(r.get("params"), dict) and "mc" in r["params"]:
        ctx.seed = r.get("ctxseed", ctx.seed)
        n_ens, w, st, seed = r["params"]["mc"]
        mc_history(ctx, n_ens, w, st, seed, r.get("history") or f"mc n_ens={n_ens} workers={w} steps={st} ctxseed={ctx.seed}")
        for f in ctx.fails:
            print("still fails:", f["signature"], f["what"])
        return 1 if ctx.fails else 0
    if not r.get("params"):
        print("no history parameters in this replay file:", r)
        return 1
    ctx.seed = r.get("ctxseed", ctx.seed)
    one(ctx, tuple(r["params"]), False, [])
    for f in ctx.fails:
        print("still fails:", f["signature"], f["what"])
    return 1 if ctx.fails else 0
