"""C04 — fractional weights are conserved and accounted for exactly once.

Tie: as C03 (real REPEX_state vs Lean state machine, state-for-state incl. traj_data fractions and the
data-file rows).  Property predicates are evaluated on what the real code WROTE: infretis_data.txt rows
and restart.toml [current.frac] after every completed step.
"""
from __future__ import annotations

import random
from fractions import Fraction

import repex_tie as T

TOL = 1e-9


def fvec(s):
    return [float(x) for x in s.split(",")] if s else []


def parse_frac(s):
    out = {}
    if s:
        for part in s.split(";"):
            k, v = part.split(":", 1)
            out[int(k)] = fvec(v)
    return out


def parse_rows(s):
    out = []
    if s:
        for part in s.split(";"):
            pn, fr, ws = part.split(":")
            out.append((int(pn), fvec(fr), fvec(ws)))
    return out


def predicates(ctx, sim, label):
    n = sim.n
    ncol = n - 1                      # ensemble columns (the data file shows these)
    idle_count = [0] * n
    prev_tot = None
    prev_frac = {}
    for idx, (tag, d, held) in enumerate(sim.snaps):
        rep = {"history": label, "params": getattr(sim, "params", None), "ctxseed": ctx.seed, "snapshot": idx, "after": tag}
        rows = parse_rows(d["rows"])
        rfrac = parse_frac(d["_restart_frac"]) if tag == "treat" else None
        live = [int(t) for t in d["trajs"].split(",")[:-1]]
        mem_frac = parse_frac(d["frac"])
        # rows: at most once, never while live
        pns = [r[0] for r in rows]
        if len(set(pns)) != len(pns):
            ctx.fail("C04:row-written-twice", f"data file lists a path twice: {pns}", rep)
        both = set(pns) & set(live)
        if both:
            ctx.fail("C04:row-written-while-live", f"paths {sorted(both)} are live and already in the data file", rep)
        if tag != "treat":
            continue
        if rfrac is None or set(rfrac) != set(mem_frac):
            ctx.fail("C04:restart-frac-keys", f"restart.toml frac keys {sorted(rfrac or {})} vs live+in-flight {sorted(mem_frac)}", rep)
            continue
        locks = d["locks"]
        W = [fvec(r) for r in d["W"].split(";")]
        # totals per column from the files: data rows (masked columns count as 0) + restart fractions
        tot = [0.0] * n
        for (_pn, fr, _ws) in rows:
            for c, x in enumerate(fr):
                tot[c] += x
        for pn, v in rfrac.items():
            for c, x in enumerate(v):
                tot[c] += x
        for c in range(ncol):
            if locks[c] == "0":
                idle_count[c] += 1
        if prev_tot is not None or True:
            base = prev_tot if prev_tot is not None else [0.0] * n
            for c in range(n):
                want = 1.0 if (c < ncol and locks[c] == "0") else 0.0
                if abs((tot[c] - base[c]) - want) > TOL:
                    ctx.fail("C04:step-does-not-add-one-per-idle-column",
                             f"column {c}: total changed by {tot[c] - base[c]!r}, expected {want} (locks {locks})", rep)
        for c in range(n):
            if abs(tot[c] - (idle_count[c] if c < ncol else 0)) > 1e-7:
                ctx.fail("C04:conservation", f"column {c}: rows+live = {tot[c]!r}, steps with that ensemble idle = {idle_count[c] if c < ncol else 0}", rep)
        # distribution: only idle live paths, only where weight non-zero
        slot_of = {pn: i for i, pn in enumerate(live)}
        for pn, v in rfrac.items():
            old = prev_frac.get(pn, [0.0] * n)
            delta = [a - b for a, b in zip(v, old)]
            if any(abs(x) > TOL for x in delta):
                if pn not in slot_of:
                    ctx.fail("C04:weight-added-to-non-live-path", f"path {pn} gained {delta}", rep)
                    continue
                s = slot_of[pn]
                if locks[s] == "1":
                    ctx.fail("C04:weight-added-to-busy-path", f"path {pn} in busy ensemble slot {s} gained {delta}", rep)
                for c, x in enumerate(delta):
                    if x < -TOL:
                        ctx.fail("C04:negative-increment", f"path {pn} column {c}: {x}", rep)
                    if abs(x) > TOL and W[s][c] == 0.0:
                        ctx.fail("C04:weight-added-where-weight-zero", f"path {pn} column {c}: +{x} but W=0", rep)
        prev_tot = tot
        prev_frac = {pn: list(v) for pn, v in rfrac.items()}
        ctx.distinct((d["_restart_frac"], d["rows"]))
    if sim.workers == 1 and sim.snaps:
        last = [x for x in sim.snaps if x[0] == "treat"]
        if last:
            cstep = int(last[-1][1]["cstep"])
            if any(abs(idle_count[c] - cstep) > 0 for c in range(ncol)):
                ctx.fail("C04:one-worker-total-not-cstep", f"idle counts {idle_count[:ncol]} vs cstep {cstep}",
                         {"history": label})
    if sim.error is not None:
        ctx.fail("C04:sampler-raised", f"{type(sim.error).__name__}: {sim.error}", {"history": label})


def one(ctx, params, with_model, outs):
    n_ens, workers, steps, seed, wf, et, acc = params[:7]
    label = f"n_ens={n_ens} workers={workers} steps={steps} seed={seed} wf={wf} eng_types={et} acc_p={acc} ctxseed={ctx.seed}"
    sim = T.run_history(ctx, n_ens, workers, steps, seed=seed, wf=wf, eng_types=et, acc_p=acc, rng=random.Random(label))
    sim.params = list(params)
    ctx.count(sum(1 for s in sim.snaps if s[0] == "treat"), history=f"n{n_ens}w{workers}")
    predicates(ctx, sim, label)
    if with_model:
        outs.append((sim, label))
    return sim


def run(ctx):
    rng = ctx.rng
    ctx.rule = ("completed steps of scheduler-shaped histories of the real REPEX_state (see C03) incl. zero swaps, "
                "rejections, several workers; after every completed step infretis_data.txt and restart.toml are parsed; "
                "distinct = distinct (restart fractions, data rows) contents")
    plans = []
    for n_ens in (2, 3, 4, 5):
        for w in range(1, n_ens):
            for rep in range(2 if ctx.quick else 8):
                plans.append((n_ens, w, 15 + 5 * n_ens, rng.randint(0, 9), bool(rep % 2), 1, rng.choice([0.5, 0.9]), True))
    for _ in range(5 if ctx.quick else 50):
        n_ens = rng.randint(5, 8)
        plans.append((n_ens, rng.randint(1, n_ens - 1), rng.randint(40, 100 if ctx.quick else 300), rng.randint(0, 9),
                      rng.random() < 0.5, 1, rng.choice([0.3, 0.7, 0.95]), n_ens <= 5))
    outs = []
    for p in plans:
        one(ctx, p[:7], p[7] and ctx._driver_ok, outs)
    for sim, label in outs:
        T.compare(ctx, sim, ctx.driver(sim.lines), label)
    if outs:
        s = outs[0][0]
        tr = [x for x in s.snaps if x[0] == "treat"]
        if tr:
            ctx.sample({"history": outs[0][1], "restart_frac_after_last_step": tr[-1][1]["_restart_frac"],
                        "data_rows": tr[-1][1]["rows"]})
    ctx.assumptions += [
        "long-double accumulation compared with tolerance 1e-9 per step / 1e-7 on totals",
        "masked ('----') data-file entries are read as 0 (they are written only for zero fractions)",
        "restarts: the restore of fractions is covered by theorem restore_frac and by C06's end-to-end runs",
    ]


def replay(ctx, obj):
    r = obj.get("replay", {})
    if not r.get("params"):
        print("no history parameters in this replay file:", r)
        return 1
    ctx.seed = r.get("ctxseed", ctx.seed)
    one(ctx, tuple(r["params"]), False, [])
    for f in ctx.fails:
        print("still fails:", f["signature"], f["what"])
    return 1 if ctx.fails else 0
