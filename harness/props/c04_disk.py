"""C04, disk family: what the sampler WRITES about the fractional weights and what a restart reads back.

Real side (in-process, scripted outcomes as in repex_tie): the real REPEX_state with the real `write_header`,
`write_to_pathens` (inside `treat_output`), `write_toml`, `clean_data_file` and — at restarts — the real
`REPEX_state.__init__` + `load_paths` on the restart file the code wrote.  After EVERY completed step
  * the data file is tokenised line by line and compared with the lines of the Lean disk (`fmtRows`: masking, weight
    columns), the restart file's [current] table with the Lean image (`persistD`: active, cstep, traj_num, the frac
    section in the order written), the per-column count of idle recordings with the model's (`idleInc`/`addCnt`);
  * every stop inside the step's two weight-relevant effects is reconstructed from the bytes before/after the step
    (old restart file + j whole new rows [+ a torn piece of the next row]; new restart file + all rows), the real
    `clean_data_file` is run on it and compared with the model (`stopDisk`, `restartClean`); the C04 law is evaluated on
    the cleaned files (rows once, never while live, rows + live weights of the restart file = idle recordings counted
    up to the restart file's step);
  * at chosen steps the run really is stopped at one of these points and restarted from the cleaned files (real
    `load_paths`; Lean `restore` of the model's own image), and continues to N.
Direct families: `write_to_pathens` on synthetic table entries vs `fmtCols`; `clean_data_file` on synthetic files vs
`cleanLines`.
"""
from __future__ import annotations

import copy
import importlib.util  # noqa: F401
import os
import random
import shutil
import tempfile
import types
from fractions import Fraction

import numpy as np

import repex_tie as T
from common import err_kind, frac_token, lst

TOL = 1e-9
NEG = 1e-9          # a masked column and a number of at most this size are taken as equal (see assumptions)


# ------------------------------------------------------------------------------------------ canonical forms
def canon_key(tok):
    """the path number a first token stands for, when it is the str() of one"""
    if tok.isdigit() and tok == str(int(tok)):
        return int(tok)
    return None


def real_lines(text):
    """lines of a data file as the model sees them: ('#', term) | ('row', key|None, term, fcells, wcells)"""
    out = []
    for ln in text.splitlines(keepends=True):
        term = ln.endswith("\n")
        if ln.startswith("#"):
            out.append(("#", term))
            continue
        toks = ln.split()
        key = canon_key(toks[0]) if toks else None
        cols = toks[3:] if term else []
        k = len(cols) // 2
        out.append(("row", key, term, cols[:k], cols[k:]))
    return out


def cell_eq(real_tok, model_tok):
    if model_tok == "-":
        if real_tok == "----":
            return True
        try:
            return abs(float(real_tok)) <= NEG
        except ValueError:
            return False
    q = float(Fraction(model_tok))
    if real_tok == "----":
        return abs(q) <= NEG
    try:
        return abs(float(real_tok) - q) <= TOL
    except ValueError:
        return False


def lines_eq(real, model_str):
    """real: output of real_lines; model_str: the driver's `datafile` answer.  Returns None or a message."""
    mtoks = model_str.split(" ") if model_str else []
    if len(mtoks) != len(real):
        return f"{len(real)} lines on disk, {len(mtoks)} in the model"
    for i, (r, m) in enumerate(zip(real, mtoks)):
        if r[0] == "#":
            if m != ("#" if r[1] else "#u"):
                return f"line {i}: comment line vs {m!r}"
            continue
        _, key, term, fc, wc = r
        ks = "x" if key is None else str(key)
        if not term:
            if m != "u" + ks:
                return f"line {i}: unterminated line with first token {ks} vs {m!r}"
            continue
        parts = m.split(":")
        if len(parts) != 3 or parts[0] != ks:
            return f"line {i}: row of {ks} vs {m!r}"
        mf = parts[1].split(",") if parts[1] else []
        mw = parts[2].split(",") if parts[2] else []
        if len(mf) != len(fc) or len(mw) != len(wc):
            return f"line {i}: {len(fc)}+{len(wc)} columns vs {len(mf)}+{len(mw)}"
        for c, (a, b) in enumerate(zip(fc, mf)):
            if not cell_eq(a, b):
                return f"line {i} (path {ks}) fraction column {c}: {a!r} vs {b!r}"
        for c, (a, b) in enumerate(zip(wc, mw)):
            if not cell_eq(a, b):
                return f"line {i} (path {ks}) weight column {c}: {a!r} vs {b!r}"
    return None


def read_restart(path):
    import tomli
    with open(path, "rb") as fh:
        return tomli.load(fh)


def image_eq(cur, model_str):
    """cur: [current] of the real restart file; model_str: the driver's `image` answer"""
    if model_str == "noimage":
        return "restart.toml exists, the model has no image"
    md = dict(p.split("=", 1) for p in model_str.split(" | "))
    act = ",".join(str(a) for a in cur.get("active", []))
    if act != md.get("active"):
        return f"active {act} vs {md.get('active')}"
    if str(cur.get("cstep")) != md.get("cstep"):
        return f"cstep {cur.get('cstep')} vs {md.get('cstep')}"
    if str(cur.get("traj_num")) != md.get("trajnum"):
        return f"traj_num {cur.get('traj_num')} vs {md.get('trajnum')}"
    rf = list(cur.get("frac", {}).items())
    mf = [x.split(":") for x in md.get("frac", "").split(";")] if md.get("frac") else []
    if [k for k, _ in rf] != [k for k, _ in mf]:
        return f"frac section keys (in file order) {[k for k, _ in rf]} vs {[k for k, _ in mf]}"
    for (k, rv), (_, mv) in zip(rf, mf):
        mvs = mv.split(",") if mv else []
        if len(mvs) != len(rv) or any(abs(float(a) - float(Fraction(b))) > TOL for a, b in zip(rv, mvs)):
            return f"frac of path {k}: {rv} vs {mv}"
    return None


def file_law(rows, cur, ncol):
    """the C04 law on (rows of the data file, [current] of the restart file): (problems, totals)"""
    out = []
    active = [int(a) for a in cur.get("active", [])]
    frac = {int(k): [float(x) for x in v] for k, v in cur.get("frac", {}).items()}
    pns = [r[1] for r in rows]
    dup = sorted({p for p in pns if p is not None and pns.count(p) > 1})
    if dup:
        out.append(("row-written-twice", f"paths {dup} have more than one data row (rows {pns})"))
    both = sorted(set(p for p in pns if p is not None) & set(active))
    if both:
        out.append(("row-written-while-live", f"paths {both} are active in restart.toml and have a data row"))
    lost = sorted(p for p in range(int(cur.get("traj_num", 0))) if p not in active and p not in pns)
    if lost:
        out.append(("replaced-path-has-no-row", f"paths {lost} are neither active nor in the data file"))
    miss = sorted(p for p in active if p not in frac)
    if miss:
        out.append(("live-path-without-weights", f"active paths {miss} have no [current.frac] entry"))
    tot = [0.0] * ncol
    for r in rows:
        fc = r[3]
        if len(fc) != ncol:
            out.append(("row-shape", f"row of path {r[1]} shows {len(fc)} fraction columns, {ncol} ensembles"))
            continue
        for c, t in enumerate(fc):
            if t != "----":
                try:
                    tot[c] += float(t)
                except ValueError:
                    out.append(("row-shape", f"row of path {r[1]}: column {c} is {t!r}"))
    for p in active:
        v = frac.get(p, [])
        for c in range(min(ncol, len(v))):
            tot[c] += v[c]
    return out, tot


# ------------------------------------------------------------------------------------------ direct: write_to_pathens
def fmt_family(ctx, lines, todo):
    from infretis.classes.repex import write_to_pathens
    rng = ctx.rng
    vals = [0.0, 0.0, 0.5, 1.0, 2.25, 3.0, 0.125]
    cases = []
    # exhaustive small: size 2..4, weights of every length 0..size, fractions over {0, 1/2}
    for size in (2, 3, 4):
        for wl in range(0, size + 1):
            for fl in sorted({0, 1, size - 1, size}):
                for bits in range(1 << min(fl, 4)):
                    fr = [0.5 if (bits >> i) & 1 else 0.0 for i in range(fl)]
                    cases.append((size, fr, [float(i + 1) for i in range(wl)]))
    for _ in range(150 if ctx.quick else 1500):
        size = rng.randint(2, 8)
        kind = rng.random()
        wl = 1 if kind < 0.3 else (size - 1 if kind < 0.8 else rng.randint(0, size + 1))
        fl = size if rng.random() < 0.85 else rng.randint(0, size + 1)
        cases.append((size, [rng.choice(vals) for _ in range(fl)], [rng.choice(vals[2:]) for _ in range(wl)]))
    work = tempfile.mkdtemp(prefix="c04fmt-", dir="/var/tmp")
    path = os.path.join(work, "data.txt")
    st = types.SimpleNamespace(traj_data={}, n=0, data_file=path)     # ONE long-lived state object, one file
    off = 0
    try:
        for (size, fr, ws) in cases:
            st.n = size
            pn = rng.randint(0, 999)
            st.traj_data = {pn: {"length": 7, "max_op": (1.5, 3), "weights": tuple(ws),
                                 "frac": np.array(fr, dtype="longdouble")}, 1000: {"frac": None}}
            try:
                write_to_pathens(st, [pn])
                with open(path) as fh:
                    fh.seek(off)
                    new = fh.read()
                off += len(new)
                rl = real_lines(new)
                real = rl
                if pn in st.traj_data or 1000 not in st.traj_data:
                    ctx.fail("C04:fmt:pop", f"write_to_pathens([{pn}]) left traj_data keys {sorted(st.traj_data)}",
                             {"family": "fmt", "size": size, "frac": fr, "weights": ws})
            except Exception as e:  # noqa: BLE001
                real = err_kind(e)
                if os.path.exists(path):
                    off = os.path.getsize(path)
            lines.append(f"fmt {size} {lst(fr, frac_token)} {lst(ws, frac_token)}")
            todo.append(("fmt", (size, fr, ws, pn), real))
            ctx.count(1, fmt="minus" if len(ws) == 1 else "plus")
            ctx.distinct(("fmt", size, tuple(fr), tuple(ws)))
            # the row as the property reads it: one line, terminated, not a comment, first token the path number
            if not isinstance(real, str):
                if len(real) != 1 or real[0][0] != "row" or not real[0][2] or real[0][1] != pn:
                    ctx.fail("C04:fmt:line-shape", f"row of path {pn} written as {new!r}",
                             {"family": "fmt", "size": size, "frac": fr, "weights": ws})
    finally:
        shutil.rmtree(work, ignore_errors=True)


def fmt_compare(ctx, payload, real, model):
    size, fr, ws, pn = payload
    case = {"family": "fmt", "size": size, "frac": fr, "weights": ws}
    if isinstance(real, str):
        if real != model:
            ctx.disagree(case, real, model)
        return
    if model.startswith("err") or "|" not in model:
        ctx.disagree(case, repr(real), model)
        return
    mf, mw = model.split("|")
    msg = lines_eq(real, f"{pn}:{mf}:{mw}")
    if msg:
        ctx.disagree(case, repr(real), model, msg)
    # predicate (independent of the model): every shown fraction is the table's; a masked column is a zero fraction;
    # a weight is shown exactly where the fraction is
    _, _, _, fc, wc = real[0]
    shown = [fr[0]] + [None] * (size - 2) if len(ws) == 1 else [None] + list(fr[1:-1])[:max(0, len(ws) - 1)]
    wsh = [ws[0]] + [None] * (size - 2) if len(ws) == 1 else [None] + list(ws[:-1])[:max(0, len(fr) - 2)]
    ok = len(fc) == len(shown) == len(wc)
    if ok:
        for c, (t, v, tw, w) in enumerate(zip(fc, shown, wc, wsh)):
            want = "----" if (v is None or v == 0.0) else v
            ok = ok and ((t == "----") if want == "----" else (t != "----" and float(t) == want))
            wantw = "----" if want == "----" else w
            ok = ok and ((tw == "----") if wantw == "----" else (tw != "----" and float(tw) == wantw))
    if not ok:
        ctx.fail("C04:fmt:columns", f"size {size}, frac {fr}, weights {ws}: written {fc} | {wc}", case)


# ------------------------------------------------------------------------------------------ direct: clean_data_file
LINE_KINDS = ["#", "r", "r", "r", "x", "b", "z", "s"]


def clean_family(ctx, lines, todo):
    from infretis.setup import clean_data_file
    rng = ctx.rng
    work = tempfile.mkdtemp(prefix="c04clean-", dir="/var/tmp")
    path = os.path.join(work, "infretis_data.txt")
    try:
        for it in range(120 if ctx.quick else 1500):
            nl = rng.randint(0, 9)
            active = sorted(rng.sample(range(0, 12), rng.randint(0, 5)))
            text, toks = [], []
            for i in range(nl):
                k = rng.choice(LINE_KINDS)
                if k == "#":
                    text.append(f"# ===== {i}\n"); toks.append("#")
                elif k == "r":
                    pn = rng.randint(0, 12)
                    text.append(f"\t{pn:3.0f}\t{i:5.0f}\t 1.00000\t----\t0.5\t----\t1.0\t\n"); toks.append(f"r{pn}")
                elif k == "x":
                    text.append(f"junk {rng.randint(0, 12)} {i}\n"); toks.append("x")
                elif k == "b":
                    text.append("\n"); toks.append("x")
                elif k == "z":        # a first token that is a number but not the str() of a path number
                    text.append(f"0{rng.randint(0, 9)} {i}\n"); toks.append("x")
                else:                 # a comment sign after leading blanks is no comment line
                    text.append(f"  # {i}\n"); toks.append("x")
            # the last line may be unterminated
            if text and rng.random() < 0.5:
                text[-1] = text[-1][:rng.randint(0, max(0, len(text[-1]) - 1))]
                if text[-1] == "":
                    text.pop(); toks.pop()
                else:
                    ln = text[-1]
                    sp = ln.split()
                    if ln.startswith("#"):
                        toks[-1] = "#u"
                    elif sp and canon_key(sp[0]) is not None:
                        toks[-1] = f"u{canon_key(sp[0])}"
                    else:
                        toks[-1] = "ux"
            raw = "".join(text)
            with open(path, "w") as fh:
                fh.write(raw)
            ino = os.stat(path).st_ino
            cfg = {"output": {"data_file": path}, "current": {"active": list(active)}}
            cfg0 = copy.deepcopy(cfg)
            try:
                clean_data_file(cfg)
                with open(path) as fh:
                    after = fh.read()
                # which lines survived (lines are distinct by their index token, except blank lines: match greedily)
                kept, pos = [], 0
                al = after.splitlines(keepends=True)
                for i, ln in enumerate(text):
                    if pos < len(al) and al[pos] == ln:
                        kept.append(i); pos += 1
                if pos != len(al):
                    kept = None
                rew = os.stat(path).st_ino != ino
                real = ("ok", kept, rew)
                left = sorted(f for f in os.listdir(work) if f != "infretis_data.txt")
                if left:
                    ctx.fail("C04:clean:leftover", f"clean_data_file left {left} behind", {"family": "clean", "text": raw, "active": active})
                if cfg != cfg0:
                    ctx.fail("C04:clean:config-modified", "clean_data_file changed its config argument",
                             {"family": "clean", "text": raw, "active": active})
            except Exception as e:  # noqa: BLE001
                real = (err_kind(e), None, None)
            lines.append(f"clean {lst(active)} {lst(toks)}")
            todo.append(("clean", (raw, active, toks), real))
            ctx.count(1, clean="torn-last" if toks and toks[-1].startswith(("u", "#u")) else "whole")
            ctx.distinct(("clean", raw, tuple(active)))
            # predicate: comment lines and complete rows of non-active paths survive in order; rows of active paths and an
            # unterminated non-comment last line do not
            if real[0] == "ok":
                want = [i for i, t in enumerate(toks)
                        if t.startswith("#") or (not t.startswith("u") and not (t.startswith("r") and int(t[1:]) in active))]
                if real[1] != want:
                    ctx.fail("C04:clean:rule", f"active {active}, lines {toks}: kept {real[1]}, expected {want}",
                             {"family": "clean", "text": raw, "active": active})
            else:
                ctx.fail("C04:clean:raised", f"clean_data_file raised {real[0]}", {"family": "clean", "text": raw, "active": active})
        # no data file / no data_file key: nothing happens
        for cfg in ({"output": {"data_file": os.path.join(work, "absent.txt")}, "current": {"active": [1]}},
                    {"output": {}, "current": {"active": [1]}}):
            try:
                clean_data_file(cfg)
                if os.path.exists(os.path.join(work, "absent.txt")):
                    ctx.fail("C04:clean:created-file", "clean_data_file created a data file", {"family": "clean", "text": None, "active": [1]})
            except Exception as e:  # noqa: BLE001
                ctx.fail("C04:clean:raised", f"no data file: {type(e).__name__}: {e}", {"family": "clean", "text": None, "active": [1]})
    finally:
        shutil.rmtree(work, ignore_errors=True)


def clean_compare(ctx, payload, real, model):
    raw, active, toks = payload
    case = {"family": "clean", "text": raw, "active": active}
    if real[0] != "ok":
        ctx.disagree(case, real[0], model)
        return
    want = "kept=" + ",".join(str(i) for i in (real[1] or [])) + " rewrite=" + ("1" if real[2] else "0")
    if real[1] is None or want != model:
        ctx.disagree(case, want if real[1] is not None else "lines reordered/changed", model)


# ------------------------------------------------------------------------------------------ histories with a disk
class DiskHistory:
    """one scheduler-shaped history of the real REPEX_state with real files, stops and restarts"""

    def __init__(self, ctx, params, label):
        self.ctx = ctx
        self.n_ens, self.workers, self.steps, self.seed, self.wf, self.acc_p, self.stops = params
        self.n = self.n_ens + 1
        self.label = label
        self.rng = random.Random(label)
        self.sims = []                 # closed Sims, in order (lines/real/kinds filled)
        self.idle = [0] * self.n       # real count of idle recordings per column
        self.carry = 0                 # data rows already in the file when the current segment started
        self.failed = False

    def rep(self, **kw):
        d = {"family": "disk", "params": [self.n_ens, self.workers, self.steps, self.seed, self.wf, self.acc_p, list(self.stops)],
             "ctxseed": self.ctx.seed}
        d.update(kw)
        return d

    # ---------------------------------------------------------------- one segment
    def run(self):
        from infretis.setup import write_header
        image, weights, data_text, cnt, rest_bytes = None, None, None, None, None
        stops = list(self.stops)
        while True:
            sim = T.Sim(self.ctx, self.n_ens, self.workers, self.steps, seed=self.seed, wf=self.wf, eng_types=1, rng=self.rng,
                        cstep=0 if image is None else image["cstep"], image=image)
            sim.snaps = []
            sim.error = None
            self.sims.append(sim)
            nxt = None
            try:
                if image is None:
                    write_header(sim.cfg)              # the real header (fresh start)
                    self.carry = 0
                    sim.load_initial()
                else:
                    with open(os.path.join(sim.tmp, "infretis_data.txt"), "w") as fh:
                        fh.write(data_text)
                    with open(os.path.join(sim.tmp, "restart.toml"), "wb") as fh:
                        fh.write(rest_bytes)
                    self.carry = sum(1 for r in real_lines(data_text) if r[0] == "row")
                    self.idle = list(cnt)
                    self.real_load_paths(sim, image, weights)
                self.dump(sim, "loaded")
                self.check_files(sim, "loaded")
                nxt = self.segment(sim, stops)
            except Exception as e:  # noqa: BLE001
                sim.error = e
                self.ctx.fail("C04:disk:sampler-raised", f"{type(e).__name__}: {e}", self.rep(segment=len(self.sims) - 1))
            sim.close()
            if nxt is None:
                break
            image, weights, data_text, cnt, rest_bytes = nxt

    def real_load_paths(self, sim, image, weights):
        """REPEX_state.load_paths (the real one) on the paths listed in the restart file, with the weights the stored
        paths have (calc_cv_vector of a stored path is C09/C10's subject: it returns the path's weight vector)"""
        R = sim.R
        old = R.calc_cv_vector
        R.calc_cv_vector = lambda path, *a, **k: tuple(path.weights)
        try:
            paths = [T.FakePath(int(pn), weights[int(pn)]) for pn in image["active"]]
            try:
                sim.st.load_paths(paths)
                real = "ok"
            except Exception as e:  # noqa: BLE001
                real = err_kind(e)
            sim.emit("restoreload", real, "c04:restoreload")
            if real != "ok":
                raise RuntimeError(f"load_paths on the restart file raised {real}")
        finally:
            R.calc_cv_vector = old
        # predicate: every active path got the vector the restart file holds for it
        fr = {int(k): [float(x) for x in v] for k, v in image.get("frac", {}).items()}
        for pn in image["active"]:
            got = [float(x) for x in sim.st.traj_data[int(pn)]["frac"]]
            want = fr.get(int(pn), [0.0] * self.n)
            if len(got) != len(want) or any(abs(a - b) > 1e-12 for a, b in zip(got, want)):
                self.ctx.fail("C04:disk:restart-loses-weights", f"path {pn}: restart.toml holds {want}, load_paths restored {got}",
                              self.rep(segment=len(self.sims) - 1))

    def dump(self, sim, tag):
        d = sim.op_dump()
        # the data file goes on across restarts; the model's row list starts afresh with every segment
        rows = d["rows"].split(";") if d["rows"] else []
        d["rows"] = ";".join(rows[self.carry:])
        sim.snaps.append((tag, d, []))
        return d

    def files(self, sim):
        dp = os.path.join(sim.tmp, "infretis_data.txt")
        rp = os.path.join(sim.tmp, "restart.toml")
        data = open(dp).read() if os.path.exists(dp) else ""
        rest = open(rp, "rb").read() if os.path.exists(rp) else None
        return data, rest

    def check_files(self, sim, tag):
        """model vs code: lines of the data file, restart image, idle counts"""
        data, rest = self.files(sim)
        sim.emit("datafile", real_lines(data), "c04:datafile")
        import tomli
        sim.emit("image", None if rest is None else tomli.loads(rest.decode())["current"], "c04:image")
        sim.emit("idle", ",".join(str(x) for x in self.idle), "c04:idle")

    def segment(self, sim, stops):
        ctx, rng = self.ctx, self.rng
        inflight = []
        base = {"mc_moves": sim.st.mc_moves, "interfaces": sim.st.interfaces, "cap": None}
        while sim.op_initiate():
            md = sim.op_prep(copy.deepcopy(base))
            inflight.append(md)
        while True:
            more = sim.op_loop()
            if not more:
                self.check_files(sim, "end")       # loop() writes the restart file of the finished run
                return None
            k = rng.randrange(len(inflight))
            md = inflight.pop(k)
            status = "ACC" if rng.random() < self.acc_p else "REJ"
            ws = sim.random_new_weights(md, rng)
            data0, rest0 = self.files(sim)
            w0 = {pn: v["weights"] for pn, v in sim.st.traj_data.items()}
            idle0 = list(self.idle)
            md = sim.op_treat(md, status, ws)
            for c in range(self.n):
                if not sim.st._locks[c]:
                    self.idle[c] += 1
            self.dump(sim, "treat")
            self.check_files(sim, "treat")
            data2, rest2 = self.files(sim)
            w2 = dict(w0)
            w2.update({pn: v["weights"] for pn, v in sim.st.traj_data.items()})
            ctx.count(1, disk=f"n{self.n_ens}w{self.workers}:{status}{len(md['picked'])}")
            variants = self.stop_variants(sim, data0, rest0, data2, rest2, idle0)
            if stops and sim.st.cstep >= stops[0]:
                stops.pop(0)
                usable = [v for v in variants if v["cur"] is not None]
                if usable:
                    v = rng.choice(usable)
                    j, torn, ren = v["stop"]
                    sim.emit(f"restartat {j} {torn} {ren}", f"ok cstep={v['cur']['cstep']}", "c04:restartat")
                    ctx.hit(f"disk-restart:{'after-rename' if ren else ('torn' if torn != 'n' else 'whole-rows')}")
                    img = dict(v["cur"])
                    img["restarted_from"] = img["cstep"]
                    return img, {int(p): w for p, w in w2.items()}, v["cleaned"], v["cnt"], v["rest"]
            if sim.st.cstep + sim.st.workers <= sim.st.tsteps:
                md = sim.op_prep(md)
                inflight.append(md)

    # ---------------------------------------------------------------- stops inside one treat_output
    def stop_variants(self, sim, data0, rest0, data2, rest2, idle0):
        """every stop between the step's weight-relevant effects, rebuilt from the bytes before/after the step"""
        import tomli
        from infretis.setup import clean_data_file
        ctx, rng = self.ctx, self.rng
        if not data2.startswith(data0):
            ctx.fail("C04:disk:data-file-rewritten", "treat_output changed earlier bytes of the data file",
                     self.rep(cstep=int(sim.st.cstep)))
            return []
        new = data2[len(data0):].splitlines(keepends=True)
        pts = []
        for j in range(len(new) + 1):
            pts.append((j, "n", 0, data0 + "".join(new[:j])))
            if j < len(new) and len(new[j]) > 1:
                cut = rng.randint(1, len(new[j]) - 1)
                piece = new[j][:cut]
                sp = piece.split()
                torn = "-" if not sp or canon_key(sp[0]) is None else str(canon_key(sp[0]))
                if sp and canon_key(sp[0]) is None:
                    continue        # a first token that is no number cannot come from a row
                pts.append((j, torn, 0, data0 + "".join(new[:j]) + piece))
        pts.append((len(new), "n", 1, data2))
        out = []
        work = os.path.join(sim.tmp, "stop")
        for (j, torn, ren, text) in pts:
            rest = rest2 if ren else rest0
            line = f"crash {j} {torn} {ren}"
            if rest is None:
                sim.emit(line, "noimage", "c04:crash")
                out.append({"stop": (j, torn, ren), "cur": None})
                continue
            shutil.rmtree(work, ignore_errors=True)
            os.makedirs(work)
            dp = os.path.join(work, "infretis_data.txt")
            with open(dp, "w") as fh:
                fh.write(text)
            cfg = tomli.loads(rest.decode())
            cfg["output"]["data_file"] = dp
            ino = os.stat(dp).st_ino
            try:
                clean_data_file(cfg)
            except Exception as e:  # noqa: BLE001
                ctx.fail("C04:disk:clean-raised", f"clean_data_file raised {type(e).__name__}: {e}",
                         self.rep(cstep=int(sim.st.cstep), stop=[j, torn, ren]))
                sim.emit(line, err_kind(e), "c04:crash")
                continue
            rew = os.stat(dp).st_ino != ino
            cleaned = open(dp).read()
            rl = real_lines(cleaned)
            rows = [r for r in rl if r[0] == "row"]
            cur = cfg["current"]
            cnt = list(self.idle) if ren else list(idle0)
            bad, tot = file_law(rows, cur, self.n_ens)
            where = (f"stop inside step {int(sim.st.cstep)} after {j} of {len(new)} new rows"
                     + (", torn next row" if torn != "n" else "") + (", restart.toml replaced" if ren else ", old restart.toml"))
            if any(r[2] is False for r in rl if r[0] == "row"):
                bad.append(("torn-row-kept", "an unterminated row survived clean_data_file"))
            for c in range(self.n_ens):
                if abs(tot[c] - cnt[c]) > 1e-7:
                    bad.append(("conservation", f"ensemble column {c}: data rows + live weights of restart.toml = {tot[c]!r}, "
                                f"steps with that ensemble idle up to the restart file's step {cur['cstep']}: {cnt[c]}"))
                    break
            if self.workers == 1 and any(cnt[c] != int(cur["cstep"]) for c in range(self.n_ens)):
                bad.append(("one-worker-count", f"one worker: idle counts {cnt[:self.n_ens]} vs restart file cstep {cur['cstep']}"))
            for sig, msg in bad:
                ctx.fail(f"C04:disk:{sig}:after-stop", f"{where}; after clean_data_file: {msg}",
                         self.rep(cstep=int(sim.st.cstep), stop=[j, torn, ren]))
            real = {"keys": [r[1] for r in rows], "rewrite": rew, "cstep": int(cur["cstep"]),
                    "active": ",".join(str(a) for a in cur["active"]), "tot": tot, "cnt": cnt}
            sim.emit(line, real, "c04:crash")
            ctx.count(1, stop=("after-rename" if ren else ("torn" if torn != "n" else "whole-rows")))
            out.append({"stop": (j, torn, ren), "cur": cur, "cleaned": cleaned, "cnt": cnt, "rest": rest})
        shutil.rmtree(work, ignore_errors=True)
        return out



# ------------------------------------------------------------------------------------------ malformed restart images
class MalformedHistory:
    """A run is stopped after a completed step, ONE vector of `[current.frac]` in its restart file is replaced by a
    vector that does not have n entries (a hand-edited file; `check_config` only compares [current].size), the real
    `REPEX_state.__init__` + `load_paths` rebuild the sampler from it (they accept any length) and the run goes on for
    one completed step.  The code's `frac += P[idx, :]` raises ValueError as soon as the path is idle and live at a
    recording — after crediting the paths before it, before anything is written; the model runs `treatOutputChecked`
    (Model/DataFileNp.lean).  Compared: the error kind, the state the sampler object is left in (partial credit), the
    files.  Predicates on the real side: a raise leaves both files untouched; a malformed vector is never silently
    credited."""

    def __init__(self, ctx, params, label):
        self.ctx = ctx
        self.n_ens, self.workers, self.seed, self.wf, self.presteps, self.badlen, self.which = params
        self.n = self.n_ens + 1
        self.label = label
        self.rng = random.Random(label)
        self.sims = []

    def rep(self, **kw):
        d = {"family": "malformed", "params": [self.n_ens, self.workers, self.seed, self.wf, self.presteps, self.badlen,
                                               self.which], "ctxseed": self.ctx.seed}
        d.update(kw)
        return d

    def dump(self, sim, carry=None):
        d = sim.op_dump()
        # the data file goes on across the restart; the model's row list starts afresh
        rows = d["rows"].split(";") if d["rows"] else []
        d["rows"] = ";".join(rows[(carry or 0):])
        if carry is not None:
            # after the restart a row may carry the malformed vector: repex_tie's row mask assumes n entries; the rows
            # are compared token by token through the `datafile` op (fmtCols) instead
            d["_rows"] = d.pop("rows")
        return d

    def files(self, sim):
        dp = os.path.join(sim.tmp, "infretis_data.txt")
        rp = os.path.join(sim.tmp, "restart.toml")
        return (open(dp).read() if os.path.exists(dp) else ""), (open(rp, "rb").read() if os.path.exists(rp) else None)

    def run(self):
        import tomli
        from infretis.setup import write_header
        ctx, rng = self.ctx, self.rng
        steps = self.presteps + 4 + self.workers
        sim = T.Sim(ctx, self.n_ens, self.workers, steps, seed=self.seed, wf=self.wf, eng_types=1, rng=rng)
        sim.snaps, sim.error = [], None
        self.sims.append(sim)
        nxt = None
        try:
            write_header(sim.cfg)
            sim.load_initial()
            base = {"mc_moves": sim.st.mc_moves, "interfaces": sim.st.interfaces, "cap": None}
            inflight = []
            while sim.op_initiate():
                inflight.append(sim.op_prep(copy.deepcopy(base)))
            data0 = ""
            for _ in range(self.presteps):
                if not sim.op_loop():
                    break
                md = inflight.pop(rng.randrange(len(inflight)))
                status = "ACC" if rng.random() < 0.7 else "REJ"
                data0, _ = self.files(sim)
                md = sim.op_treat(md, status, sim.random_new_weights(md, rng))
                self.dump(sim)
                if sim.st.cstep + sim.st.workers <= sim.st.tsteps:
                    inflight.append(sim.op_prep(md))
            data2, rest2 = self.files(sim)
            if rest2 is None:
                sim.close()
                return
            nnew = len(data2[len(data0):].splitlines())
            cur = tomli.loads(rest2.decode())["current"]
            sim.emit(f"restartat {nnew} n 1", f"ok cstep={cur['cstep']}", "c04:restartat")
            weights = {int(pn): v["weights"] for pn, v in sim.st.traj_data.items()}
            # the malformed vector
            active = [int(a) for a in cur["active"]]
            pn = active[self.which % len(active)]
            old = [float(x) for x in cur.get("frac", {}).get(str(pn), ["0.0"] * self.n)]
            bad = (old + [0.25, 0.5, 0.125])[:self.badlen]
            sim.emit(f"setimgfrac {pn} {lst(bad, frac_token)}", "ok", "c04:setimgfrac")
            img = dict(cur)
            img["frac"] = dict(cur.get("frac", {}))
            img["frac"][str(pn)] = [repr(x) for x in bad]
            img["restarted_from"] = img["cstep"]
            nxt = (img, weights, data2, pn, bad, rest2)
        except Exception as e:  # noqa: BLE001
            sim.error = e
            ctx.fail("C04:malformed:sampler-raised", f"before the restart: {type(e).__name__}: {e}", self.rep())
        sim.close()
        if nxt is None:
            return
        img, weights, data_text, pn, bad, rest_bytes = nxt
        sim = T.Sim(ctx, self.n_ens, self.workers, steps, seed=self.seed, wf=self.wf, eng_types=1, rng=rng,
                    cstep=img["cstep"], image=img)
        sim.snaps, sim.error = [], None
        self.sims.append(sim)
        try:
            with open(os.path.join(sim.tmp, "infretis_data.txt"), "w") as fh:
                fh.write(data_text)
            with open(os.path.join(sim.tmp, "restart.toml"), "wb") as fh:
                fh.write(rest_bytes)
            R = sim.R
            oldcv = R.calc_cv_vector
            R.calc_cv_vector = lambda path, *a, **k: tuple(path.weights)
            try:
                paths = [T.FakePath(int(q), weights[int(q)]) for q in img["active"]]
                try:
                    sim.st.load_paths(paths)
                    real = "ok"
                except Exception as e:  # noqa: BLE001
                    real = err_kind(e)
                sim.emit("restoreload", real, "c04:restoreload")
            finally:
                R.calc_cv_vector = oldcv
            if real != "ok":
                ctx.count(1, malformed="load-refuses")
                sim.close()
                return
            got = [float(x) for x in sim.st.traj_data[pn]["frac"]]
            if got != bad:
                ctx.fail("C04:malformed:load-changes-vector", f"path {pn}: file holds {bad}, load_paths restored {got}", self.rep())
            carry = sum(1 for r in real_lines(data_text) if r[0] == "row")
            self.dump(sim, carry)
            base = {"mc_moves": sim.st.mc_moves, "interfaces": sim.st.interfaces, "cap": None}
            inflight = []
            while sim.op_initiate():
                inflight.append(sim.op_prep(copy.deepcopy(base)))
            for _ in range(2):
                if not sim.op_loop():
                    break
                md = inflight.pop(rng.randrange(len(inflight)))
                status = "ACC" if rng.random() < 0.5 else "REJ"
                ws = sim.random_new_weights(md, rng)
                d0, r0 = self.files(sim)
                raised = None
                try:
                    md = sim.op_treat(md, status, ws)
                except Exception as e:  # noqa: BLE001
                    raised = e
                d2, r2 = self.files(sim)
                if raised is not None and err_kind(raised) == "err:index" and len(bad) == 0 and status == "ACC" \
                        and pn in [int(q) for q in md["pnum_old"]]:
                    # the malformed path is REPLACED by this step: not credited (it is no longer live), and
                    # write_to_pathens' `frac[0]` on its empty vector is an IndexError (`fmtCols`: .error .index);
                    # the model reports the error kind of a raise after "record weights", not the object's state
                    ctx.count(1, malformed=f"len0-of-{self.n}:replaced:err:index")
                    break
                self.dump(sim, carry)
                sim.emit("datafile", real_lines(d2), "c04:datafile")
                if raised is not None:
                    kind = err_kind(raised)
                    ctx.count(1, malformed=f"len{len(bad)}-of-{self.n}:{kind}")
                    if kind != "err:value":
                        ctx.fail("C04:malformed:other-error", f"path {pn} with a {len(bad)}-entry vector: {type(raised).__name__}: {raised}",
                                 self.rep())
                    if d2 != d0 or r2 != r0:
                        ctx.fail("C04:malformed:written-before-raise",
                                 "treat_output raised in 'record weights' but the data file / restart.toml changed", self.rep())
                    break
                # no raise: the malformed path was replaced by this step, or it was busy at the recording
                replaced = status == "ACC" and pn in [int(q) for q in md["pnum_old"]]
                busy = pn in sim.st.locked_paths()
                gone = pn not in sim.st.traj_data
                ctx.count(1, malformed=f"len{len(bad)}-of-{self.n}:" + ("replaced" if replaced else ("busy" if busy else "credited")))
                if not (replaced or busy or gone) and len(bad) != self.n:
                    ctx.fail("C04:malformed:silently-credited",
                             f"path {pn} carries a {len(bad)}-entry vector, was idle and live at the recording and no error was raised",
                             self.rep())
                if replaced or gone:
                    break
                if sim.st.cstep + sim.st.workers <= sim.st.tsteps:
                    inflight.append(sim.op_prep(md))
        except Exception as e:  # noqa: BLE001
            sim.error = e
            ctx.fail("C04:malformed:sampler-raised", f"after the restart: {type(e).__name__}: {e}", self.rep())
        sim.close()


def malformed_plans(ctx):
    rng = ctx.rng
    plans = []
    for n_ens in (2, 3, 4):
        n = n_ens + 1
        for badlen in sorted({0, 1, n - 1, n + 1, n}):
            for w in (1, 2):
                if w >= n_ens and not (n_ens == 2 and w == 1):
                    continue
                if ctx.quick and w == 2 and badlen not in (n - 1, n + 1):
                    continue
                plans.append((n_ens, w, rng.randint(0, 9), bool(badlen % 2), rng.randint(1, 4), badlen, rng.randint(0, 9)))
    if not ctx.quick:
        for _ in range(40):
            n_ens = rng.randint(2, 6)
            plans.append((n_ens, rng.randint(1, max(1, n_ens - 1)), rng.randint(0, 9), rng.random() < 0.5, rng.randint(1, 6),
                          rng.choice([0, 1, n_ens - 1, n_ens, n_ens + 2, n_ens + 3]), rng.randint(0, 9)))
    return plans


def one_malformed(ctx, params):
    label = (f"malformed n_ens={params[0]} workers={params[1]} seed={params[2]} wf={params[3]} presteps={params[4]} "
             f"badlen={params[5]} which={params[6]} ctxseed={ctx.seed}")
    h = MalformedHistory(ctx, params, label)
    h.run()
    ctx.distinct(("malformed", label))
    return h


def crash_eq(real, model):
    if isinstance(real, str):
        return None if real == model else f"{real} vs {model}"
    if model in ("noimage", "bad-op") or model.startswith("err"):
        return f"restart possible on disk, model says {model}"
    md = dict(p.split("=", 1) for p in model.split(" | "))
    keys = ",".join("x" if k is None else str(k) for k in real["keys"])
    if keys != md.get("keys"):
        return f"rows kept by clean_data_file: {keys} vs {md.get('keys')}"
    if ("1" if real["rewrite"] else "0") != md.get("rewrite"):
        return f"file rewritten: {real['rewrite']} vs {md.get('rewrite')}"
    if str(real["cstep"]) != md.get("cstep") or real["active"] != md.get("active"):
        return f"restart file cstep/active {real['cstep']}/{real['active']} vs {md.get('cstep')}/{md.get('active')}"
    mt = md.get("tot", "").split(",") if md.get("tot") else []
    if len(mt) != len(real["tot"]) or any(abs(a - float(Fraction(b))) > 1e-7 for a, b in zip(real["tot"], mt)):
        return f"rows + live weights {real['tot']} vs {md.get('tot')}"
    if ",".join(str(x) for x in real["cnt"]) != md.get("cnt"):
        return f"idle counts {real['cnt']} vs {md.get('cnt')}"
    return None


def compare_history(ctx, h, answers):
    """answers: the driver's answers for the concatenated lines of h.sims"""
    pos = 0
    for si, sim in enumerate(h.sims):
        ans = answers[pos:pos + len(sim.lines)]
        pos += len(sim.lines)
        own = [i for i, k in enumerate(sim.kinds) if k.startswith("c04:")]
        shared = [i for i, k in enumerate(sim.kinds) if not k.startswith("c04:")]
        # a restarted segment: the model state is the `restore` of the model's image (op restoreload), the per-slot
        # `load` path of the shared protocol is not used
        newidx = {i: j for j, i in enumerate(shared)}
        shim = types.SimpleNamespace(lines=[sim.lines[i] for i in shared], real=[sim.real[i] for i in shared],
                                     kinds=[sim.kinds[i] for i in shared], n=sim.n,
                                     draws_by_op={newidx[i]: v for i, v in getattr(sim, "draws_by_op", {}).items()
                                                  if i in newidx})
        bad = T.compare(ctx, shim, [ans[i] for i in shared], f"{h.label} segment={si}")
        if bad:
            return
        for i in own:
            kind, real, mod = sim.kinds[i], sim.real[i], ans[i]
            msg = None
            if kind == "c04:datafile":
                msg = lines_eq(real, mod)
            elif kind == "c04:image":
                msg = (None if mod == "noimage" else "no restart.toml, the model has an image") if real is None else image_eq(real, mod)
            elif kind in ("c04:idle", "c04:restoreload", "c04:restartat", "c04:setimgfrac"):
                msg = None if real == mod else f"{real} vs {mod}"
            elif kind == "c04:crash":
                msg = crash_eq(real, mod)
            if msg:
                ctx.disagree({"history": h.label, "segment": si, "op_index": i, "op": sim.lines[i],
                              "after": sim.lines[i - 1] if i else ""}, str(real)[:400], mod[:400], msg)
                return


def disk_plans(ctx):
    rng = ctx.rng
    plans = []
    for n_ens in (2, 3, 4):
        for w in (1, 2, 3):
            if w >= n_ens and not (n_ens == 2 and w == 1):
                continue
            for rep in range(1 if ctx.quick else 4):
                steps = 14 + 2 * n_ens
                stops = tuple(sorted(rng.sample(range(1, steps), 3)))
                plans.append((n_ens, w, steps, rng.randint(0, 9), bool((rep + n_ens) % 2), rng.choice([0.5, 0.8]), stops))
    for _ in range(2 if ctx.quick else 20):
        n_ens = rng.randint(4, 6)
        steps = rng.randint(20, 30)
        plans.append((n_ens, rng.randint(1, n_ens - 1), steps, rng.randint(0, 9), rng.random() < 0.5, rng.choice([0.4, 0.9]),
                      tuple(sorted(rng.sample(range(1, steps), 2)))))
    return plans


def one_history(ctx, params):
    label = (f"disk n_ens={params[0]} workers={params[1]} steps={params[2]} seed={params[3]} wf={params[4]} "
             f"acc_p={params[5]} stops={list(params[6])} ctxseed={ctx.seed}")
    h = DiskHistory(ctx, params, label)
    h.run()
    ctx.distinct(("disk", label))
    return h


def run_disk(ctx):
    lines, todo = [], []
    fmt_family(ctx, lines, todo)
    clean_family(ctx, lines, todo)
    hs = [one_history(ctx, p) for p in disk_plans(ctx)]
    hs += [one_malformed(ctx, p) for p in malformed_plans(ctx)]
    if not ctx._driver_ok:
        return
    hl = [l for h in hs for sim in h.sims for l in sim.lines]
    answers = ctx.driver(lines + hl)
    for (kind, payload, real), mod in zip(todo, answers[:len(lines)]):
        (fmt_compare if kind == "fmt" else clean_compare)(ctx, payload, real, mod)
    pos = len(lines)
    for h in hs:
        nl = sum(len(sim.lines) for sim in h.sims)
        compare_history(ctx, h, answers[pos:pos + nl])
        pos += nl
    for h in hs[:1]:
        last = [sim.real[i] for sim in h.sims for i, k in enumerate(sim.kinds) if k == "c04:crash" and isinstance(sim.real[i], dict)]
        if last:
            ctx.sample({"disk_history": h.label, "restarts": len(h.sims) - 1,
                        "last_stop_after_cleanup": {k: (v if k != "tot" else [round(x, 6) for x in v]) for k, v in last[-1].items()}})
    ctx.assumptions += [
        "malformed restart images: one [current.frac] vector of a wrong length (0, 1, n-1, n+1 entries; n as a control); the "
        "model side runs treatOutputChecked (numpy's shape check; = treatOutput on well-formed tables by theorem "
        "treat_checked_eq_reachable); non-numeric entries and wrong-length `active` lists are not generated",
        "disk family: a masked ('----') column and a number of absolute value <= 1e-9 are taken as equal when the written "
        "row is compared with the model's row (long-double accumulation vs exact rationals); numbers are compared with 1e-9",
        "disk family: stops inside treat_output are rebuilt from the bytes of the two files before/after the step (old "
        "restart.toml + a prefix of the new rows; new restart.toml + all rows); the real clean_data_file and, at the chosen "
        "restarts, the real REPEX_state.__init__ + load_paths run on them (calc_cv_vector of the stored paths returns their "
        "weight vector); the path store and the MD move are scripted as in repex_tie",
        "object history: one long-lived state object / one data file for all write_to_pathens cases; one data file path "
        "rewritten with different content for all clean_data_file cases (tie-only: the model is functional)",
    ]


def replay_disk(ctx, r):
    if r.get("family") == "disk":
        ctx.seed = r.get("ctxseed", ctx.seed)
        p = r["params"]
        one_history(ctx, (p[0], p[1], p[2], p[3], p[4], p[5], tuple(p[6])))
    elif r.get("family") == "malformed":
        ctx.seed = r.get("ctxseed", ctx.seed)
        one_malformed(ctx, tuple(r["params"]))
    elif r.get("family") == "fmt":
        lines, todo = [], []
        from infretis.classes.repex import write_to_pathens
        work = tempfile.mkdtemp(prefix="c04fmt-", dir="/var/tmp")
        try:
            st = types.SimpleNamespace(traj_data={7: {"length": 7, "max_op": (1.5, 3), "weights": tuple(r["weights"]),
                                                      "frac": np.array(r["frac"], dtype="longdouble")}},
                                       n=r["size"], data_file=os.path.join(work, "d.txt"))
            try:
                write_to_pathens(st, [7])
                real = real_lines(open(st.data_file).read())
            except Exception as e:  # noqa: BLE001
                real = err_kind(e)
            if not isinstance(real, str):
                fmt_compare(ctx, (r["size"], r["frac"], r["weights"], 7), real, "-|-")
                ctx.disagreements.clear()
        finally:
            shutil.rmtree(work, ignore_errors=True)
    elif r.get("family") == "clean":
        from infretis.setup import clean_data_file
        work = tempfile.mkdtemp(prefix="c04clean-", dir="/var/tmp")
        try:
            if r.get("text") is not None:
                path = os.path.join(work, "infretis_data.txt")
                open(path, "w").write(r["text"])
                cfg = {"output": {"data_file": path}, "current": {"active": list(r["active"])}}
                try:
                    clean_data_file(cfg)
                    kept = real_lines(open(path).read())
                    src = real_lines(r["text"])
                    want = [x for x in src if x[0] == "#" or (x[2] and not (x[1] is not None and x[1] in r["active"]))]
                    if kept != want or [f for f in os.listdir(work) if f != "infretis_data.txt"]:
                        ctx.fail("C04:clean:rule", f"kept {kept}, expected {want}", r)
                except Exception as e:  # noqa: BLE001
                    ctx.fail("C04:clean:raised", f"{type(e).__name__}: {e}", r)
        finally:
            shutil.rmtree(work, ignore_errors=True)
