"""C05 — the sampler never stalls: a job can always be drawn, sorting terminates.

Tie: real REPEX_state vs Lean state machine (incl. the number of sort_trajstate iterations is implied by the
resulting slot order).  Property predicates on the real code: every probability vector handed to `choice` is
finite, non-negative and sums to one; after every completed step each idle live path has non-zero weight in
the ensemble of its slot; treat_output returns (a watchdog turns a hang into a replay); live paths distinct;
path numbers fresh; the restart file written at that moment loads through a new REPEX_state.
"""
from __future__ import annotations

import copy
import math
import os
import random
import signal

import numpy as np

import repex_tie as T
from props import c05_cv as CV


class Stall(Exception):
    pass


def _on_vtalrm(signum, frame):
    raise Stall("treat_output/prep did not return within 20 s of CPU time")


_OrigSim = T.Sim


class C05Sim(_OrigSim):
    """repex_tie.Sim plus the C05-only instrumentation on the REAL object (never on the model side):
    * `sort_trajstate` is bounded by a swap counter (n*n + 4 swaps, the model's fuel): a non-terminating
      loop becomes a `Stall` naming the step, independent of CPU time;
    * after every completed step (`treat_output`) the restart.toml just written is loaded into a FRESH
      REPEX_state (while the long-lived one stays alive): load_paths' assertions must hold and the fresh
      object's rows must equal the long-lived object's rows slot by slot;
    * `output.screen` can be non-zero (class attribute `screen`)."""

    screen = 0
    load_every = 1

    def __init__(self, *a, **k):
        k.setdefault("screen", type(self).screen)
        super().__init__(*a, **k)
        self.loadfails = []
        self.treat_no = 0
        self._swaps = 0
        self._in_sort = False
        self._w_before = None
        self.sort_by_op = {}      # index of the treat line -> (weight matrix before sort_trajstate, swaps it made)
        st, sim = self.st, self
        orig_swap, orig_sort = st.swap, st.sort_trajstate

        def counted_swap(a, b):
            if sim._in_sort:
                sim._swaps += 1
                if sim._swaps > sim.n * sim.n + 4:
                    raise Stall(f"sort_trajstate made more than n*n+4 = {sim.n * sim.n + 4} swaps in completed "
                                f"step number {sim.treat_no + 1} of this life (cstep={st.cstep})")
            return orig_swap(a, b)

        def bounded_sort():
            sim._in_sort, sim._swaps = True, 0
            sim._w_before = [[float(x) for x in r] for r in st.state]
            try:
                return orig_sort()
            finally:
                sim._in_sort = False

        st.swap = counted_swap
        st.sort_trajstate = bounded_sort

    def op_treat(self, md, status, new_weights):
        md = super().op_treat(md, status, new_weights)
        self.sort_by_op[len(self.lines) - 1] = (self._w_before, self._swaps)
        self.treat_no += 1
        if self.load_every and self.treat_no % self.load_every == 0:
            self.check_restart_file()
        return md

    def check_restart_file(self):
        """load the restart.toml of this moment into a fresh REPEX_state; judge it; leave no trace"""
        R, st = self.R, self.st
        try:
            image = T.read_image(self.tmp)
        except Exception as e:  # noqa: BLE001
            self.loadfails.append((self.treat_no, f"restart.toml unreadable: {type(e).__name__}: {e}"))
            return
        log_len = len(T.ScriptedGen.log)
        try:
            cfg2 = copy.deepcopy({k: v for k, v in self.cfg.items() if k != "current"})
            cfg2["current"] = copy.deepcopy(dict(image))
            cfg2["current"].setdefault("size", self.n_ens)
            st2 = R.REPEX_state(cfg2, minus=True)
            st2.pstore = T.FakeStore()
            st2.traj_data = {}
            st2.initiate_ensembles()
            active = [int(a) for a in image["active"]]
            if len(active) != self.n_ens or len(set(active)) != len(active):
                self.loadfails.append((self.treat_no, f"restart file lists active paths {active}"))
                return
            order = list(range(1, self.n_ens)) + [0]
            for i in order:
                pn = active[i]
                if pn not in st.traj_data:
                    self.loadfails.append((self.treat_no, f"active path {pn} of the restart file is not a live path"))
                    return
                w = st.traj_data[pn]["weights"]
                st2.add_traj(ens=i - 1, traj=T.FakePath(pn, w), valid=w, count=False)
            # the fresh object against the long-lived one, slot by slot
            for i in range(self.n_ens):
                if [float(x) for x in st2.state[i]] != [float(x) for x in st.state[i]]:
                    self.loadfails.append((self.treat_no, f"slot {i}: restored row {list(map(float, st2.state[i]))} "
                                                          f"differs from the running state's row {list(map(float, st.state[i]))}"))
                    return
            if int(image["traj_num"]) != int(st.config["current"]["traj_num"]):
                self.loadfails.append((self.treat_no, f"restart file has traj_num {image['traj_num']}, the running "
                                                      f"state {st.config['current']['traj_num']}"))
            if any(int(p) >= int(image["traj_num"]) for p in active):
                self.loadfails.append((self.treat_no, f"restart file: active {active} not below traj_num {image['traj_num']}"))
        except Exception as e:  # noqa: BLE001
            if isinstance(e, Stall):
                raise
            self.loadfails.append((self.treat_no, f"load_paths on the restart file raised {type(e).__name__}: {e}"))
        finally:
            del T.ScriptedGen.log[log_len:]


class NonUniformSim(C05Sim):
    """(audit repair) outcome generator class the shared runner never produces: staircase rows whose non-zero entries
    DIFFER (3,5,2,0,..), as wire fencing gives them (frame counts per band, doubled for L->R paths); repex_tie's
    `random_new_weights` only ever produces (w,w,w,0,..)."""

    def random_new_weights(self, md, rng):
        ws = []
        for ens_num in md["picked"]:
            if ens_num == -1:
                ws.append([1])
            else:
                last = rng.randrange(ens_num, self.n_ens - 1) if self.n_ens - 1 > ens_num else ens_num
                last = min(last, self.n_ens - 2)
                ws.append([rng.choice([1, 2, 3, 5, 17]) if i <= last else 0 for i in range(self.n_ens - 1)] + [0])
        return ws


def cv_config(n_ens, seed):
    """deterministic (the same in every life of a chain of restarts) interfaces / wire-fencing flags / cap"""
    r = random.Random(f"cvcfg {n_ens} {seed}")
    intfs = [0]
    for _ in range(n_ens - 1):
        intfs.append(intfs[-1] + r.choice([2, 3]))
    mv = [r.random() < 0.6 for _ in range(n_ens - 1)]
    wf_top = max([lam for lam, m in zip(intfs[:-1], mv) if m], default=intfs[0])
    caps = [c for c in range(wf_top + 2, intfs[-1] + 1)]
    cap = None if (r.random() < 0.5 or not caps) else r.choice(caps)
    return intfs, mv, cap


def cv_walk(rng, intfs, mv, cap, ens):
    """an ORDER SEQUENCE of an accepted path of plus ensemble `ens`: starts below lambda_0, MD steps of +1/+2 up and
    -1/-2 down (never over a whole wire-fencing band: every band [lambda_k, cap) is at least 2 wide), crosses its own
    interface, ends below lambda_0 or above the last interface"""
    lo, hi = intfs[0], intfs[-1]
    for _try in range(200):
        x = lo - rng.choice([1, 2])
        ops = [x]
        target = rng.randint(intfs[ens], hi + 1)
        while x < target and len(ops) < 80:
            x += rng.choice([1, 1, 2])
            ops.append(x)
            if x > hi:
                break
        while lo <= x <= hi and len(ops) < 160:
            x += rng.choice([-2, -1, -1, 1]) if x < hi else rng.choice([-1, 1])
            ops.append(x)
        if max(ops) >= intfs[ens] and (ops[-1] < lo or ops[-1] > hi) and CV.py_no_jump_cfg(intfs, mv, cap, ops) \
                and all(lo <= y <= hi for y in ops[1:-1]):
            return ops
    raise RuntimeError("no legal order sequence generated")


class CvSim(C05Sim):
    """(audit repair) histories whose weight vectors COME FROM ORDER SEQUENCES: every accepted path is an order sequence
    without a jump over a wire-fencing band; the REAL calc_cv_vector computes its weights (wire-fencing flags, cap),
    which go through the real treat_output; the model gets the same sequence (`cvfam`: Lean `cvVector` must give the
    same vector, staircase, `noJumpCfg` true) and then the vector (`treat`).  Ties `histOk_of_cv_history_wf` end to end."""

    def __init__(self, *a, **k):
        super().__init__(*a, **k)
        self.intfs, self.mv, self.cap = cv_config(self.n_ens, self.cfg["simulation"]["seed"])
        self.cfg["simulation"]["interfaces"] = [float(x) for x in self.intfs]
        self.cfg["simulation"]["shooting_moves"] = CV.moves_of(self.mv)
        if self.cap is not None:
            self.cfg["simulation"]["tis_set"]["interface_cap"] = float(self.cap)
        self.cv_bad = []

    def _vector(self, ops, ens, rng_label=""):
        from infretis.core.tis import calc_cv_vector
        if ens < 0:
            w = calc_cv_vector(CV.real_path(ops), self.st.interfaces, self.st.mc_moves, False, cap=self.st.cap, minus=True)
            self.emit(f"cvminus {int(self.intfs[0])} {CV.lst([int(o) for o in ops])}", "ws=" + ",".join(str(int(x)) for x in w), "cvminus")
            return [float(x) for x in w]
        w = [float(x) for x in calc_cv_vector(CV.real_path(ops), self.st.interfaces, self.st.mc_moves, False, cap=self.st.cap)]
        stair = CV.py_stair(w)
        self.emit(f"cvfam {CV.cfg_tokens(self.intfs, self.mv, self.cap)} {CV.lst([int(o) for o in ops])}",
                  f"ws={','.join(str(int(x)) for x in w)} stair={1 if stair else 0} nojump=1", "cvfam")
        if not stair or w[ens] == 0:
            self.cv_bad.append((ens, ops, w))
        return w

    def load_initial(self, paths_by_slot=None, fracs=None):
        if paths_by_slot is None:
            r = random.Random(f"cvinit {self.n_ens} {self.cfg['simulation']['seed']}")
            paths_by_slot = [T.FakePath(0, self._vector([1, -1, -2, 1], -1))] + [
                T.FakePath(i, self._vector(cv_walk(r, self.intfs, self.mv, self.cap, i - 1), i - 1)) for i in range(1, self.n_ens)]
        return super().load_initial(paths_by_slot, fracs)

    def random_new_weights(self, md, rng):
        ws = []
        for ens_num in md["picked"]:
            if ens_num == -1:
                ws.append(self._vector([rng.choice([1, 2]), -1, rng.choice([-1, -3]), 1], -1))
            else:
                ws.append(self._vector(cv_walk(rng, self.intfs, self.mv, self.cap, ens_num), ens_num))
        return ws


SIM_CLASSES = {"nonuniform": NonUniformSim, "cv": CvSim}


class _UseSim:
    """run repex_tie's history runners with C05Sim (restored afterwards: run(ctx) may be called again)"""

    def __init__(self, screen=0, load_every=1, cls=None):
        self.screen, self.load_every, self.cls = screen, load_every, cls or C05Sim

    def __enter__(self):
        C05Sim.screen, C05Sim.load_every = self.screen, self.load_every
        T.Sim = self.cls

    def __exit__(self, *exc):
        T.Sim = _OrigSim
        C05Sim.screen, C05Sim.load_every = 0, 1
        return False


def live_of(d):
    return d["trajs"].split(",")[:-1]


def predicates(ctx, chain, label):
    ever = set()
    max_seen = -1
    for seg, sim in enumerate(chain):
        rep0 = {"history": label, "params": getattr(chain[-1], "params", None), "ctxseed": ctx.seed, "segment": seg}
        n = sim.n
        # 1. every draw request is a proper distribution
        for op_i, draws in getattr(sim, "draws_by_op", {}).items():
            for kind, p in draws:
                if p is None:
                    continue
                p = np.asarray(p, dtype=float)
                if not np.all(np.isfinite(p)) or np.any(p < -1e-12) or abs(float(p.sum()) - 1.0) > 1e-9:
                    ctx.fail("C05:pick-distribution-not-normalisable", f"choice got p with sum {float(p.sum())!r}",
                             dict(rep0, op_index=op_i, p=[float(x) for x in p]))
        for (k, what) in getattr(sim, "loadfails", []):
            ctx.fail("C05:restart-file-does-not-load", f"after completed step {k} of life {seg}: {what}",
                     dict(rep0, step_in_life=k))
        prev_live = None
        for idx, (tag, d, held) in enumerate(sim.snaps):
            rep = dict(rep0, snapshot=idx, after=tag, trajs=d["trajs"], locks=d["locks"], W=d["W"])
            if d.get("_prob_stale", "0") != "0":
                # tie-only (the model is functional): the long-lived object's cached P against a fresh computation
                ctx.fail("C05:cached-prob-differs-from-fresh", f"_last_prob vs inf_retis(state, locks): {d['_prob_stale']}", rep)
            if tag == "treat" and d.get("_restart_active") not in (None, "") and d["_restart_active"] != ",".join(live_of(d)):
                ctx.fail("C05:restart-file-active-differs-from-state",
                         f"restart.toml active={d['_restart_active']} but live paths {live_of(d)}", rep)
            live = d["trajs"].split(",")[:-1]
            if len(set(live)) != len(live) or "-" in live:
                ctx.fail("C05:live-paths-not-distinct", f"live paths {live}", rep)
            W = [r.split(",") for r in d["W"].split(";")]
            if tag in ("treat", "loaded"):
                for i in range(n - 1):
                    if d["locks"][i] == "0" and W[i][i] in ("0", "0.0"):
                        ctx.fail("C05:idle-path-with-zero-weight-in-its-slot",
                                 f"slot {i} holds path {live[i]} with zero weight there after the step", rep)
            if tag == "treat" and d.get("_restart_active"):
                # the restart file written at that moment: its slot order must be the (sorted) live order, and
                # every path must have non-zero weight in the ensemble of the slot it is recorded in
                ract = d["_restart_active"].split(",")
                row_of = {pn: W[i] for i, pn in enumerate(live)}
                for i, pn in enumerate(ract):
                    r = row_of.get(pn)
                    if r is None:
                        ctx.fail("C05:restart-file-lists-unknown-path", f"restart.toml active {ract} vs live {live}", rep)
                        break
                    if r[i] in ("0", "0.0"):
                        ctx.fail("C05:restart-file-does-not-load",
                                 f"restart.toml written after the step records path {pn} in slot {i} where its weight is zero "
                                 f"(active {ract}, live order in memory {live}): load_paths would assert", rep)
                        break
            try:
                tn = int(d["trajnum"])
            except (TypeError, ValueError):
                ctx.fail("C05:path-number-not-below-counter", f"traj_num is {d['trajnum']!r}", rep)
                tn = 10 ** 18
            # empty slots ("-") were reported above as live-paths-not-distinct; judge the numbers that are there
            nums = [int(x) for x in live if x.isdigit()]
            # (audit repair) the old form of this predicate could never fire: it looked only at numbers NOT in `ever`
            # and then asked for `x in ever`.  Now: a number that ENTERS the live set between two snapshots of one life
            # must never have been live before (in this or an earlier life) and must lie above every number seen so far.
            if prev_live is not None:
                prev_nums = {int(x) for x in prev_live if x.isdigit()}
                for x in nums:
                    if x not in prev_nums and (x in ever or x <= max_seen):
                        ctx.fail("C05:path-number-reused",
                                 f"path number {x} enters the live set although it was handed out before "
                                 f"(largest number seen so far {max_seen})", rep)
            for xi in nums:
                if xi >= tn:
                    ctx.fail("C05:path-number-not-below-counter", f"live path {xi} but traj_num {tn}", rep)
                ever.add(xi)
                max_seen = max(max_seen, xi)
            prev_live = live
        if isinstance(sim.error, Stall):
            ctx.fail("C05:stall", str(sim.error), rep0)
        elif sim.error is not None:
            ctx.fail("C05:sampler-raised", f"{type(sim.error).__name__}: {sim.error}", rep0)


def restart_loads(ctx, sim, label, every=3):
    """the restart file written after a step loads: rebuild from the recorded image of sampled steps"""
    # run_history with restarts does exactly this; here we only need the load answers of later segments
    for seg, sm in enumerate(sim.previous + [sim]):
        if seg == 0:
            continue
        for line, real, kind in zip(sm.lines, sm.real, sm.kinds):
            if kind == "load" and real != "ok":
                ctx.fail("C05:restart-file-does-not-load", f"{line} -> {real}",
                         {"history": label, "params": getattr(sim, "params", None), "ctxseed": ctx.seed, "segment": seg})


def one(ctx, params, with_model, outs):
    n_ens, workers, steps, seed, wf, restarts, acc = params[:7]
    rich = bool(params[8]) if len(params) > 8 else False
    screen = int(params[9]) if len(params) > 9 and params[9] is not None else 0
    first0 = bool(params[10]) if len(params) > 10 else False
    wclass = params[11] if len(params) > 11 else None
    label = (f"n_ens={n_ens} workers={workers} steps={steps} seed={seed} wf={wf} restarts={list(restarts)} "
             f"acc_p={acc} rich={rich} ctxseed={ctx.seed}" + (f" screen={screen}" if screen else "")
             + (" first-completes-[0-]" if first0 else "") + (f" weights={wclass}" if wclass else ""))
    rep0 = {"history": label, "params": list(params), "ctxseed": ctx.seed}
    cwd0 = os.getcwd()
    old = signal.signal(signal.SIGVTALRM, _on_vtalrm)
    signal.setitimer(signal.ITIMER_VIRTUAL, 20.0 + 0.02 * steps * n_ens)
    sim = None
    # (c) the first job to complete is the one holding [0-]/path 0 when asked for
    chooser = None
    if first0:
        def chooser(inflight, _r=random.Random(label + "c")):
            for i, md in enumerate(inflight):
                if -1 in md["picked"]:
                    return i
            return _r.randrange(len(inflight))
    try:
        with _UseSim(screen=screen, load_every=1 if (ctx.quick and steps <= 60) or not ctx.quick else 3,
                     cls=SIM_CLASSES.get(wclass)):
            sim = T.run_history(ctx, n_ens, workers, steps, seed=seed, wf=wf, restarts=tuple(restarts), acc_p=acc,
                                rng=random.Random(label), rich_init=rich, chooser=chooser)
    except Stall as e:
        # the alarm fired outside the history's own try block (set-up / tear-down): still a reported input
        ctx.fail("C05:stall", f"{e} (outside a step: while building or closing the sampler)", rep0)
    except Exception as e:  # noqa: BLE001
        ctx.fail("C05:sampler-raised", f"building the sampler raised {type(e).__name__}: {e}", rep0)
    finally:
        signal.setitimer(signal.ITIMER_VIRTUAL, 0)
        signal.signal(signal.SIGVTALRM, old)
        T.Sim = _OrigSim
        try:
            os.chdir(cwd0)
        except OSError:
            pass
    if sim is None:
        return []
    sim.params = list(params)
    chain = sim.previous + [sim]
    for sm in chain:
        sm.params = list(params)
    try:
        predicates(ctx, chain, label)
        restart_loads(ctx, sim, label)
        for sm in chain:
            for (ens, ops, w) in getattr(sm, "cv_bad", []):
                # theorem cv_vector_family_of_no_jump on the real vector of a path of the history
                ctx.fail("C05:cv-vector:no-jump-path-outside-family",
                         f"accepted path {ops} of ensemble {ens} (no jump over a wire-fencing band, crosses its interface): "
                         f"calc_cv_vector gave {w}", dict(rep0, ops=ops, ens=ens))
    except Exception as e:  # noqa: BLE001  (never on the unchanged tree: a state the predicates cannot even read)
        ctx.fail("C05:state-not-judgeable", f"the recorded sampler state could not be judged: {type(e).__name__}: {e}", rep0)
    for sm in chain:
        ctx.count(len(sm.snaps), workers=("1" if workers == 1 else ">1"), restarts=len(restarts),
                  screen=str(screen))
        for (tag, d, held) in sm.snaps:
            ctx.distinct((d["W"], d["trajs"], d["locks"]))
        if with_model:
            outs.append((sm, label))
    return chain


# ----------------------------------------------------------------------------- crafted sort states (d)
SORT_LOG = []     # (label, W before sort_trajstate, real swaps, n, model iterations | None) — judged by CV.judge_sort_log
SORTST_LOG = []   # (label, `sortst` driver line, real answer, replay params, in_family) — judged by CV.judge_sortst


def sortst_line(st, n_ens):
    """the crafted state of the real object as a `sortst` request of the C05 driver (Lean `sortTrajstate` itself)"""
    W = [[float(x) for x in r] for r in st.state]
    trajs = [(-1 if t == "" else int(t.path_number)) for t in st._trajs]
    return (f"sortst {int(st.toinitiate)} {CV.mat_tokens(W)} {CV.lst(trajs)} {CV.lst([1 if l else 0 for l in st._locks])}")


def sortst_answer(st, swaps):
    W = ";".join(",".join(CV.frac_token(float(x)) for x in r) for r in st.state)
    trajs = ",".join("-" if t == "" else str(t.path_number) for t in st._trajs)
    return f"W={W} trajs={trajs} iters={swaps}"


def sort_case(ctx, n_ens, rng, idx):
    """A crafted in-family, matchable state with MANY idle slots whose diagonal weight is zero (histories only
    ever produce one or two): every plus slot gets a staircase row valid in its own ensemble, some slots are
    locked (jobs in flight), then the rows of the idle plus slots are permuted at random.  The real
    `sort_trajstate` must end within n*n+4 swaps with a non-zero diagonal on every slot, must not touch locks,
    locked slots, or the pairing path <-> row, and must only permute.  (Lean: `sort_terminates_state`,
    `sorted_diagonal_nonzero`.)"""
    label = f"sort-case n_ens={n_ens} idx={idx} ctxseed={ctx.seed}"
    rep0 = {"history": label, "params": ["sort", n_ens, idx], "ctxseed": ctx.seed}
    cwd0 = os.getcwd()
    old = signal.signal(signal.SIGVTALRM, _on_vtalrm)
    signal.setitimer(signal.ITIMER_VIRTUAL, 20.0)
    sim = None
    try:
        with _UseSim(screen=0, load_every=0):
            sim = T.Sim(ctx, n_ens, max(1, n_ens - 1), 50, seed=0, rng=random.Random(label))
        st = sim.st
        sim.load_initial()
        r = random.Random(label + "s")
        plus = list(range(1, n_ens))
        n_lock = r.randint(0, max(0, n_ens - 2))
        locked = sorted(r.sample(plus + [0], n_lock)) if n_lock else []
        lasts = {e: r.randint(e - 1, n_ens - 2) for e in plus}
        rows = {e: T.staircase(n_ens, e - 1, lasts[e], r.choice([1, 2, 3])) for e in plus}
        idle_plus = [e for e in plus if e not in locked]
        perm = idle_plus[:]
        kind = idx % 3
        if kind == 0:
            r.shuffle(perm)
        elif kind == 1:
            perm = perm[::-1]                      # reversed: as many zero diagonals as the family allows
        else:
            perm = perm[1:] + perm[:1]             # cyclic shift
        paths = {}
        for e in plus:
            paths[e] = T.FakePath(100 + e, rows[e])
        for dst, src in zip(idle_plus, perm):
            st._trajs[dst] = paths[src]
            st.state[dst, :] = [0] + list(rows[src])
        for e in locked:
            if e != 0:
                st._trajs[e] = paths[e]
                st.state[e, :] = [0] + list(rows[e])
        for e in range(n_ens):
            st._locks[e] = 1 if e in locked else 0
        st.locked = [([e - 1], [st._trajs[e].path_number], k) for k, e in enumerate(locked)]
        st.toinitiate = -1
        st._last_prob = None
        before = [(st._trajs[i].path_number, [float(x) for x in st.state[i]]) for i in range(n_ens)]
        locks_before = [int(x) for x in st._locks]
        n_bad = sum(1 for i in range(n_ens) if not locks_before[i] and st.state[i][i] == 0)
        err = None
        line = sortst_line(st, n_ens)
        try:
            st.sort_trajstate()
        except Exception as e:  # noqa: BLE001
            err = e
        after = [(st._trajs[i].path_number, [float(x) for x in st.state[i]]) for i in range(n_ens)]
        rep = dict(rep0, before=before, after=after, locks=locks_before)
        SORTST_LOG.append((label, line, "err:stall" if isinstance(err, Stall) else (CV.err_kind(err) if err is not None
                           else sortst_answer(st, int(getattr(sim, "_swaps", 0)))), ["sort", n_ens, idx], True))
        if isinstance(err, Stall):
            ctx.fail("C05:stall", f"crafted state with {n_bad} zero diagonals: {err}", rep)
        elif err is not None:
            ctx.fail("C05:sampler-raised", f"sort_trajstate on a matchable in-family state: {type(err).__name__}: {err}", rep)
        else:
            if [int(x) for x in st._locks] != locks_before:
                ctx.fail("C05:sort-changed-locks", "locks differ after sort_trajstate", rep)
            for i in range(n_ens):
                if after[i][1][i] == 0:
                    ctx.fail("C05:idle-path-with-zero-weight-in-its-slot",
                             f"slot {i} has zero weight of path {after[i][0]} after sort_trajstate", rep)
                    break
            for i in range(n_ens):
                if locks_before[i] and after[i] != before[i]:
                    ctx.fail("C05:sort-moved-a-locked-slot", f"locked slot {i}: {before[i]} -> {after[i]}", rep)
                    break
            if sorted(map(repr, after)) != sorted(map(repr, before)):
                ctx.fail("C05:sort-not-a-permutation", "the (path, row) pairs after sorting are not those before", rep)
        if err is None:
            SORT_LOG.append((label, [r for (_pn, r) in before], int(getattr(sim, "_swaps", 0)), n_ens + 1, None,
                             ["sort", n_ens, idx]))
        ctx.count(1, branch="crafted-sort", bad=str(min(n_bad, 4)) + ("+" if n_bad > 4 else ""))
        ctx.distinct(("sort", repr(before), tuple(locks_before)))
    except Stall as e:
        ctx.fail("C05:stall", f"{e} (crafted sort state)", rep0)
    except Exception as e:  # noqa: BLE001
        ctx.fail("C05:sampler-raised", f"crafted sort state: {type(e).__name__}: {e}", rep0)
    finally:
        signal.setitimer(signal.ITIMER_VIRTUAL, 0)
        signal.signal(signal.SIGVTALRM, old)
        T.Sim = _OrigSim
        if sim is not None:
            try:
                sim.close()
            except Exception:  # noqa: BLE001
                pass
        try:
            os.chdir(cwd0)
        except OSError:
            pass


def sort_off_case(ctx, n_ens, idx):
    """Crafted states OUTSIDE the family, where the `while` loop of sort_trajstate itself fails — judged only for
    model/code agreement (Lean `sortTrajstate` through the driver op `sortst`): which error, or the stall.
      kind 0  a hole row (1,..,0,1,0) twice and the rows of the open finding: the loop swaps two slots forever
      kind 1  a full plus row in slot 0 and the minus row in a plus slot: `list(row[1:-1]).index(0)` -> ValueError
      kind 2  two rows that are both zero in the column asked for: `avail.index(1)` -> ValueError
      kind 3  as kind 2 but the only row with a non-zero entry there is LOCKED (its path is in locked_paths())"""
    kind = idx % 4
    label = f"sort-off-case n_ens={n_ens} kind={kind} ctxseed={ctx.seed}"
    rep0 = {"history": label, "params": ["sortoff", n_ens, idx], "ctxseed": ctx.seed}
    cwd0 = os.getcwd()
    old = signal.signal(signal.SIGVTALRM, _on_vtalrm)
    signal.setitimer(signal.ITIMER_VIRTUAL, 20.0)
    sim = None
    try:
        with _UseSim(screen=0, load_every=0):
            sim = T.Sim(ctx, n_ens, max(1, n_ens - 1), 50, seed=0, rng=random.Random(label))
        st = sim.st
        sim.load_initial()
        m = n_ens - 1                         # number of plus columns

        def row(nonzero):
            return [0] + [1 if c in nonzero else 0 for c in range(m)] + [0]

        rows = {e: row(range(0, e)) for e in range(1, n_ens)}       # slot e: staircase valid exactly up to e
        locked = []
        if kind == 0 and n_ens >= 5:
            # the shape of the open finding (Lean `exHole`): two hole rows (1,..,1,0,1) below, then (1,..,1,1,0) and
            # (1,..,1,0,0) in the two top slots: the loop swaps the two top slots forever
            c3 = n_ens - 2
            hole = row([c for c in range(m) if c != c3 - 1])
            rows[n_ens - 4], rows[n_ens - 3] = hole, hole
            rows[c3], rows[n_ens - 1] = row(range(0, c3)), row(range(0, c3 - 1))
        elif kind == 0:
            hole = row([c for c in range(m) if c != m - 2])
            rows[n_ens - 2], rows[n_ens - 1] = hole, row(range(0, m - 1))
        elif kind == 1:
            st.state[0, :] = row(range(0, m))
            rows[1] = [1] + [0] * n_ens
        elif kind == 2:
            rows[n_ens - 1] = row(range(0, m - 1))
        else:
            rows[n_ens - 1], rows[n_ens - 2] = row(range(0, m - 1)), row(range(0, m))
            locked = [n_ens - 2]
        for e in range(1, n_ens):
            st._trajs[e] = T.FakePath(100 + e, rows[e][1:])
            st.state[e, :] = rows[e]
        for e in range(n_ens):
            st._locks[e] = 1 if e in locked else 0
        st.toinitiate = -1
        st._last_prob = None
        line = sortst_line(st, n_ens)
        err = None
        try:
            st.sort_trajstate()
        except Exception as e:  # noqa: BLE001
            err = e
        in_prob = False
        if err is not None and not isinstance(err, Stall):
            import traceback
            in_prob = any(fr.name == "inf_retis" for fr in traceback.extract_tb(err.__traceback__))
        real = ("err:stall" if isinstance(err, Stall) else sortst_answer(st, int(getattr(sim, "_swaps", 0)))
                if (err is None or in_prob) else CV.err_kind(err))
        SORTST_LOG.append((label, line, real, ["sortoff", n_ens, idx], False))
        ctx.count(1, branch="crafted-sort-off-family", kind=str(kind), real=real.split(" ")[0][:12])
    except Stall as e:
        ctx.fail("C05:stall", f"{e} (crafted off-family sort state, outside the loop)", rep0)
    except Exception as e:  # noqa: BLE001
        ctx.fail("C05:sampler-raised", f"crafted off-family sort state could not be built: {type(e).__name__}: {e}", rep0)
    finally:
        signal.setitimer(signal.ITIMER_VIRTUAL, 0)
        signal.signal(signal.SIGVTALRM, old)
        T.Sim = _OrigSim
        if sim is not None:
            try:
                sim.close()
            except Exception:  # noqa: BLE001
                pass
        try:
            os.chdir(cwd0)
        except OSError:
            pass


def malformed_outcomes(ctx, outs):
    """(audit repair) the malformed stream of the history tie: an accepted move whose new weight vector is a FAMILY vector
    but zero in its own ensemble (Lean `family_outcome_own_zero_counterexample`: add_traj's assertion), too short
    (IndexError at `valid[ens]`) or too long (numpy refuses the row).  Real treat_output and the model must fail alike;
    nothing here is a property failure."""
    for n_ens in (3, 4, 5):
        for kind in ("own-zero", "short", "long"):
            label = f"malformed-outcome n_ens={n_ens} kind={kind} ctxseed={ctx.seed}"
            cwd0 = os.getcwd()
            sim = None
            try:
                with _UseSim(screen=0, load_every=0):
                    sim = T.Sim(ctx, n_ens, 1, 10, seed=0, rng=random.Random(label))
                sim.load_initial()
                sim.op_initiate()
                md = sim.op_prep({"mc_moves": sim.st.mc_moves, "interfaces": sim.st.interfaces, "cap": None})
                sim.op_initiate()
                sim.op_loop()
                ws = []
                for ens_num in md["picked"]:
                    if ens_num == -1:
                        ws.append({"own-zero": [0], "short": [], "long": [1, 0]}[kind])
                    else:
                        full = T.staircase(n_ens, ens_num, ens_num - 1, 1)      # staircase that stops below its own ensemble
                        ws.append({"own-zero": full, "short": full[:ens_num], "long": T.staircase(n_ens, ens_num, ens_num, 1) + [0]}[kind])
                try:
                    sim.op_treat(md, "ACC", ws)
                    real = "ok"
                except Exception as e:  # noqa: BLE001
                    real = CV.err_kind(e)
                if real == "ok":
                    ctx.fail("C05:malformed-outcome-accepted", f"treat_output accepted the weight vectors {ws} ({kind})",
                             {"history": label, "params": None, "ctxseed": ctx.seed, "weights": ws})
                ctx.count(1, branch="malformed-outcome", kind=kind, real=real)
                if ctx._driver_ok:
                    outs.append((sim, label))
            except Exception as e:  # noqa: BLE001
                ctx.fail("C05:sampler-raised", f"malformed-outcome case could not be run: {type(e).__name__}: {e}",
                         {"history": label, "params": None, "ctxseed": ctx.seed})
            finally:
                T.Sim = _OrigSim
                if sim is not None:
                    try:
                        sim.close()
                    except Exception:  # noqa: BLE001
                        pass
                try:
                    os.chdir(cwd0)
                except OSError:
                    pass


# ----------------------------------------------------------------------------- restart at cstep 0 (c)
def cstep0_restart(ctx, n_ens, workers, steps, screen, with_model, outs):
    """a restart file with cstep 0 / restarted_from 0 (falsy but valid), nothing locked, the initial paths 0..n-1"""
    label = f"cstep0-restart n_ens={n_ens} workers={workers} steps={steps} screen={screen} ctxseed={ctx.seed}"
    rep0 = {"history": label, "params": ["cstep0", n_ens, workers, steps, screen], "ctxseed": ctx.seed}
    weights = {0: (1.0,)}
    for i in range(1, n_ens):
        weights[i] = tuple(float(x) for x in T.staircase(n_ens, i - 1, i - 1, 1))
    # the image: what write_toml() stores right after the initial load_paths, before any step
    cwd00 = os.getcwd()
    image = None
    try:
        s0 = _OrigSim(ctx, n_ens, workers, steps, seed=0, rng=random.Random(label + "0"))
        try:
            s0.load_initial()
            s0.st.write_toml()
            image = T.read_image(s0.tmp)
        finally:
            s0.close()
    except Exception as e:  # noqa: BLE001
        ctx.fail("C05:sampler-raised", f"writing the restart file before the first step: {type(e).__name__}: {e}", rep0)
    finally:
        try:
            os.chdir(cwd00)
        except OSError:
            pass
    if image is None:
        return
    if int(image.get("cstep", -1)) != 0:
        ctx.fail("C05:restart-file-wrong-cstep", f"restart file written before the first step has cstep {image.get('cstep')}", rep0)
        return
    cwd0 = os.getcwd()
    old = signal.signal(signal.SIGVTALRM, _on_vtalrm)
    signal.setitimer(signal.ITIMER_VIRTUAL, 20.0 + 0.02 * steps * n_ens)
    sim = None
    try:
        with _UseSim(screen=screen, load_every=1):
            sim = T._run_segment(ctx, n_ens, workers, steps, 0, False, 1, 0.9, None, random.Random(label), None,
                                 image, weights, False)
    except Stall as e:
        ctx.fail("C05:stall", f"{e} (restart at cstep 0)", rep0)
    except Exception as e:  # noqa: BLE001
        ctx.fail("C05:sampler-raised", f"restart at cstep 0: {type(e).__name__}: {e}", rep0)
    finally:
        signal.setitimer(signal.ITIMER_VIRTUAL, 0)
        signal.signal(signal.SIGVTALRM, old)
        T.Sim = _OrigSim
        try:
            os.chdir(cwd0)
        except OSError:
            pass
    if sim is None:
        return
    sim.previous = []
    sim.params = rep0["params"]
    predicates(ctx, [sim], label)
    for line, real, kind in zip(sim.lines, sim.real, sim.kinds):
        if kind == "load" and real != "ok":
            ctx.fail("C05:restart-file-does-not-load", f"{line} -> {real}", rep0)
    if len([1 for (tag, d, h) in sim.snaps if tag == "treat"]) != steps and sim.error is None:
        ctx.fail("C05:restart-at-cstep-0-wrong-number-of-steps",
                 f"{len([1 for (tag, d, h) in sim.snaps if tag == 'treat'])} steps completed, {steps} requested", rep0)
    ctx.count(len(sim.snaps), branch="cstep0-restart", screen=str(screen))
    if with_model:
        outs.append((sim, label))


# ----------------------------------------------------------------------------- hole weight vectors (known finding)
def _real_path(ops):
    from infretis.classes.path import Path
    from infretis.classes.system import System
    p = Path(maxlen=10_000)
    for o in ops:
        sy = System()
        sy.order = [float(o)]
        p.phasepoints.append(sy)
    return p


def _legal(ops, ens, intfs):
    """the acceptance conditions of a shooting path of ensemble `ens` (-1 = [0-]): every frame but the two ends lies
    strictly on the ensemble's side of lambda_0 and below the last interface, both ends are outside, it starts at
    lambda_0's other side, and (plus ensembles) it crosses its own interface"""
    lo, hi = intfs[0], intfs[-1]
    if len(ops) < 3:
        return False
    if ens == -1:
        return ops[0] >= lo and ops[-1] >= lo and all(x < lo for x in ops[1:-1])
    inner_ok = all(lo < x < hi for x in ops[1:-1])
    return ops[0] <= lo and (ops[-1] <= lo or ops[-1] >= hi) and inner_ok and max(ops) >= intfs[ens]


def hole_witness(ctx, spec, report=True):
    """A configuration + explicit ORDER SEQUENCES (each a legal path of the ensemble it is used in); the weight vectors
    are computed by the REAL calc_cv_vector and fed through the real add_traj / treat_output with scripted picks.
    Returns "stall" (sort_trajstate exceeds n*n+4 swaps: it would never return), "assert" (inf_retis' row-sum
    assertion), "none", or "bad-spec:<why>"."""
    from infretis.core.tis import calc_cv_vector
    intfs = [float(x) for x in spec["interfaces"]]
    moves, cap, workers = list(spec["moves"]), spec.get("cap"), int(spec.get("workers", 1))
    n_ens = len(intfs)
    label = f"hole-witness {spec.get('name', '')} interfaces={intfs} moves={moves} cap={cap} workers={workers}"
    rep0 = {"history": label, "params": ["hole", spec], "ctxseed": ctx.seed}

    def vec(ops, ens):
        return tuple(float(x) for x in calc_cv_vector(_real_path(ops), intfs, moves, False, cap=cap, minus=(ens < 0)))

    init = {int(k): [float(x) for x in v] for k, v in spec["initial"].items()}
    for ens in range(-1, n_ens - 1):
        if ens not in init or not _legal(init[ens], ens, intfs):
            return f"bad-spec:initial path of ensemble {ens}"
    for stp in spec["steps"]:
        if not _legal([float(x) for x in stp["ops"]], int(stp["ens"]), intfs):
            return f"bad-spec:step path {stp['ops']} is not a legal path of ensemble {stp['ens']}"
    script = [dict(stp) for stp in spec["steps"]] + [dict(x) for x in spec.get("then_pick", [])]
    pos = {"i": 0}

    class W(C05Sim):
        def _choose(self, kind, payload):
            cur = script[min(pos["i"], len(script) - 1)]
            if kind == "random":
                out = 0.25 if cur.get("coin") else 0.75
            else:
                a, p = payload
                if a == self.n ** 2:
                    t, e = cur["pick"]
                    out = t * self.n + e
                else:
                    out = int(cur.get("partner", 0))
                if p is None or not (p[out] > 1e-12):
                    raise RuntimeError(f"scripted outcome {out} has probability {None if p is None else p[out]}")
            self.decisions.append((kind, payload, out))
            return out

    cwd0 = os.getcwd()
    old = signal.signal(signal.SIGVTALRM, _on_vtalrm)
    signal.setitimer(signal.ITIMER_VIRTUAL, 20.0)
    sim, outcome, where = None, "none", ""
    try:
        C05Sim.screen, C05Sim.load_every = 0, 0
        sim = W(ctx, n_ens, workers, 50, seed=0, rng=random.Random(0))
        sim.cfg["simulation"]["interfaces"] = intfs
        sim.cfg["simulation"]["shooting_moves"] = moves
        if cap is not None:
            sim.cfg["simulation"]["tis_set"]["interface_cap"] = cap
        sim.load_initial([T.FakePath(i, vec(init[i - 1], i - 1)) for i in range(n_ens)])
        if any(r != "ok" for r, k in zip(sim.real, sim.kinds) if k == "load"):
            return "bad-spec:an initial path is not valid in its own ensemble"
        base = {"mc_moves": moves, "interfaces": intfs, "cap": cap}
        inflight = []
        try:
            while sim.op_initiate():
                inflight.append(sim.op_prep(copy.deepcopy(base)))
                pos["i"] += 0
            for stp in spec["steps"]:
                if not sim.op_loop():
                    break
                md = inflight.pop(0)
                ens = int(stp["ens"])
                if list(md["picked"].keys()) != [ens]:
                    return f"bad-spec:the job holds {list(md['picked'].keys())}, the script expects [{ens}]"
                where = f"treat_output of the path {stp['ops']} accepted in ensemble {ens}"
                w = vec([float(x) for x in stp["ops"]], ens)
                md = sim.op_treat(md, "ACC", [list(w)])
                pos["i"] += 1
                where = f"the pick after the path {stp['ops']} was accepted in ensemble {ens}"
                if pos["i"] < len(script):
                    inflight.append(sim.op_prep(md))
        except Stall as e:
            outcome, where = "stall", where + ": " + str(e)
        except AssertionError:
            import traceback
            tb = traceback.extract_tb(__import__("sys").exc_info()[2])
            outcome = "assert" if any(fr.name == "inf_retis" for fr in tb) else "other-assert"
        except Exception as e:  # noqa: BLE001
            outcome, where = f"raised:{type(e).__name__}", where + f": {e}"
        if sim is not None and report:
            st = sim.st
            state = {"W": [[float(x) for x in r] for r in st.state], "locks": [int(x) for x in st._locks],
                     "trajs": ["-" if t == "" else t.path_number for t in st._trajs]}
            vecs = [{"ens": int(stp["ens"]), "ops": stp["ops"], "weights": vec([float(x) for x in stp["ops"]], int(stp["ens"]))}
                    for stp in spec["steps"]]
            if outcome == "stall":
                ctx.fail("C05:hole-weight-vector:sort-stalls",
                         f"{label}: {where}; weight vectors from calc_cv_vector: {vecs}", dict(rep0, state=state))
            elif outcome == "assert":
                ctx.fail("C05:hole-weight-vector:prob-assertion",
                         f"{label}: inf_retis' assertion `allclose(sum(out, axis=1), 1)` fails in {where}; "
                         f"weight vectors from calc_cv_vector: {vecs}", dict(rep0, state=state))
            elif outcome != "none":
                ctx.fail("C05:sampler-raised", f"{label}: {outcome} in {where}", dict(rep0, state=state))
        ctx.count(1, branch="hole-witness", outcome=outcome.split(":")[0])
        return outcome
    except Stall as e:
        if report:
            ctx.fail("C05:stall", f"{e} ({label}, outside a step)", rep0)
        return "stall-outside"
    finally:
        signal.setitimer(signal.ITIMER_VIRTUAL, 0)
        signal.signal(signal.SIGVTALRM, old)
        C05Sim.screen, C05Sim.load_every = 0, 1
        if sim is not None:
            try:
                sim.close()
            except Exception:  # noqa: BLE001
                pass
        try:
            os.chdir(cwd0)
        except OSError:
            pass


def run(ctx):
    rng = ctx.rng
    ctx.rule = ("snapshots of scheduler-shaped histories of the real REPEX_state (2..8 ensembles, workers 1..ensembles-1, "
                "sh and wf-like weights, high and low acceptance, with restarts at random steps so that restart files are "
                "reloaded); distinct = distinct (W, slot order, locks)")
    plans = []
    for n_ens in (2, 3, 4, 5):
        for w in range(1, n_ens):
            for rep in range(2 if ctx.quick else 6):
                steps = 14 + 4 * n_ens
                rs = () if rep % 2 == 0 else (rng.randint(2, steps - 4),)
                plans.append((n_ens, w, steps, rng.randint(0, 5), bool(rep % 2), rs, rng.choice([0.5, 0.9]), True))
    # short runs: fewer steps than workers (fresh and after a restart) — the initiation closes early
    for n_ens in (4, 5, 6):
        for w in range(2, n_ens):
            for steps in (1, 2, w - 1):
                for rep in range(3):
                    plans.append((n_ens, w, steps, rng.randint(0, 5), False, (), 0.9, n_ens <= 5, True))
            plans.append((n_ens, w, 9, rng.randint(0, 5), False, (9 - rng.randint(1, w - 1),), 0.9, n_ens <= 5, True))
    for _ in range(5 if ctx.quick else 50):
        n_ens = rng.randint(5, 8)
        steps = rng.randint(40, 100 if ctx.quick else 300)
        rs = tuple(sorted(rng.sample(range(3, steps - 3), rng.randint(0, 2))))
        plans.append((n_ens, rng.randint(1, n_ens - 1), steps, rng.randint(0, 5), rng.random() < 0.5, rs,
                      rng.choice([0.3, 0.7, 0.95]), n_ens <= 5))
    # (e) chains of restarts where a THIRD life follows a second stop while re-issued jobs are still running:
    # consecutive stop points (k, k+1[, k+2]) with >= 2 workers, with and without screen output
    for n_ens in (3, 4, 5):
        for w in range(2, n_ens):
            for rep in range(2 if ctx.quick else 5):
                steps = 12 + 2 * n_ens
                k = rng.randint(1, 6)
                rs = (k, k + 1) if rep % 2 == 0 else (k, k + 1, k + 2)
                plans.append((n_ens, w, steps, rng.randint(0, 3), False, rs, rng.choice([0.5, 0.9]), True, True,
                              (0, 1, 3)[(rep + w) % 3]))
    # (e) output.screen != 0 (print_* read `prob` and fill the cache before the next pick / re-issue)
    for n_ens in (3, 4, 5):
        for w in range(1, n_ens):
            for screen in (1, 3):
                steps = 10 + 2 * n_ens
                rs = (rng.randint(2, steps - 4),)
                plans.append((n_ens, w, steps, 0, bool(w % 2), rs, 0.9, True, True, screen))
    # (d) steps == workers, steps == workers +- 1 at a fresh start; a restart leaving exactly workers, workers-1,
    # 1 and 0 steps
    for n_ens in (3, 4, 5):
        for w in range(2, n_ens):
            for steps in (w - 1, w, w + 1):
                plans.append((n_ens, w, steps, 0, False, (), 0.9, True, True, 0))
            for left in (w, w - 1, 1, 0):      # 0: the restarted life has nothing left (initiate() answers False at once)
                steps = 8
                plans.append((n_ens, w, steps, 0, False, (steps - left,), 0.9, True, True, 0))
    # (c) path number 0 / ensemble index 0 / seed 0: the first job to complete is the one that holds [0-] and
    # path 0, accepted: the first new path number replaces path 0
    for n_ens in (2, 3, 4):
        for w in range(1, n_ens):
            plans.append((n_ens, w, 8, 0, False, (), 1.0, True, True, 0, True))
            plans.append((n_ens, w, 8, 0, False, (2,), 1.0, True, True, 1, True))
    # (audit repair) outcome classes the shared generator never leaves: non-uniform staircase rows; weight vectors
    # computed by the real calc_cv_vector from order sequences (wire fencing, caps), with restarts
    for n_ens in (3, 4, 5, 6):
        for w in sorted({1, n_ens - 1, max(1, n_ens // 2)}):
            steps = 16 + 2 * n_ens
            for wclass in ("nonuniform", "cv"):
                for rep in range(1 if ctx.quick else 4):
                    rs = (rng.randint(3, steps - 4),) if (rep + w) % 2 else ()
                    plans.append((n_ens, w, steps, rng.randint(0, 9), wclass == "nonuniform", rs, rng.choice([0.6, 0.9]),
                                  True, True, 0, False, wclass))
    outs = []
    del SORT_LOG[:]
    del SORTST_LOG[:]
    chains = []
    for p in plans:
        extra = (p[9] if len(p) > 9 else 0, p[10] if len(p) > 10 else False) + ((p[11],) if len(p) > 11 else ())
        with_model = p[7] and ctx._driver_ok
        ch = one(ctx, tuple(p[:7]) + (None, p[8] if len(p) > 8 else False) + extra, with_model, outs)
        if not with_model:
            chains += [(sm, "history " + str(list(p[:7]))) for sm in ch]
    # (c) restart files with cstep 0
    for n_ens in (2, 3, 4):
        for w in range(1, n_ens):
            for steps in ((w, 6) if ctx.quick else (1, w - 1, w, 6, 11)):
                if steps >= 1:
                    cstep0_restart(ctx, n_ens, w, steps, (0, 1)[(n_ens + w) % 2], ctx._driver_ok, outs)
    malformed_outcomes(ctx, outs)
    # (d) crafted matchable states with many zero diagonals
    for n_ens in range(3, 9):
        for idx in range(6 if ctx.quick else 40):
            sort_case(ctx, n_ens, rng, idx)
    # (audit repair) states where the loop of sort_trajstate itself fails or never ends: model/code agreement
    for n_ens in range(3, 8):
        for idx in range(4):
            sort_off_case(ctx, n_ens, idx)
    CV.judge_sortst(ctx, SORTST_LOG)
    for sm, label in outs:
        try:
            mo = ctx.driver(sm.lines)
            T.compare(ctx, sm, mo, label)
            # the number of while-iterations of sort_trajstate: model answer of every treat line vs the real swap count
            for i, (wb, swaps) in getattr(sm, "sort_by_op", {}).items():
                m = mo[i].split("sortiters=")
                SORT_LOG.append((label + f" op {i}", wb, swaps, sm.n, int(m[1]) if len(m) == 2 and m[1].isdigit() else None,
                                 getattr(sm, "params", None)))
        except Exception as e:  # noqa: BLE001
            ctx.disagree({"history": label}, "real run recorded", f"comparison raised {type(e).__name__}: {e}")
    for sm, label in chains:
        for i, (wb, swaps) in getattr(sm, "sort_by_op", {}).items():
            SORT_LOG.append((label + f" op {i}", wb, swaps, sm.n, None, getattr(sm, "params", None)))
    CV.judge_sort_log(ctx, [e for e in SORT_LOG if e[1] is not None])
    # calc_cv_vector and load_paths on order sequences (wire fencing included)
    CV.run_cv(ctx)
    CV.run_cvminus(ctx)
    CV.run_load(ctx, C05Sim)
    with_snaps = [(sm, lb) for sm, lb in outs if getattr(sm, "snaps", None)]
    if with_snaps:
        sm, lb = with_snaps[-1]
        ctx.sample({"history": lb, "snapshot": {k: sm.snaps[-1][1][k] for k in ("W", "trajs", "locks", "trajnum")}})
    ctx.assumptions += [
        "histories are quantified over outcomes whose weight vectors are in the staircase family (C02's family)",
        "a hang is detected (a) by a swap counter inside the real sort_trajstate (more than n*n+4 swaps = the model's fuel) "
        "and (b) by a 20 s CPU-time watchdog around a whole history; both report the history (and the step) as failing input",
        "the long-lived REPEX_state is compared after every completed step with a FRESH REPEX_state loaded from the "
        "restart.toml written at that moment (both alive at once), and its cached P with a fresh inf_retis: tie-only "
        "checks, the Lean model is functional and has no object state",
        "weight vectors with holes (possible with wire fencing, see Infretis.C05.wf_weight_vector_can_have_a_hole) are NOT "
        "fed as outcomes: the unchanged inf_retis rejects most such states with its own row-sum assertion (C02's family) "
        "and sort_trajstate can loop on them; they are outside the family the property names",
        "restart-file loading is exercised by really rebuilding REPEX_state from the written restart.toml at the restart points",
        "order sequences fed to calc_cv_vector / load_paths are integer-valued (exact in floats); the condition `noJumpCfg` "
        "(Infretis.C05.cv_vector_family_of_no_jump) is restated in Python and compared with the Lean definition on every case; "
        "paths that violate it (holes possible) are run and counted but only judged for model/code agreement",
        "load_paths: the model (`loadPathsCv`) does not evaluate P at the end of add_traj (`self.prob` is a pure function "
        "there); in-family the real evaluation never raised in any run (tie), with a hole vector among the initial paths it "
        "can fail inf_retis' row-sum assertion: reported under the open finding C05:hole-weight-vector:prob-assertion",
        "every real sort_trajstate call of every history is held against the proved bound: swaps <= sortMeasure(W before) <= n*n "
        "(measure computed by the Lean definition through the driver), and against the model's iteration count",
    ]


def replay(ctx, obj):
    r = obj.get("replay", {})
    if r.get("what") == "calc_cv_vector-minus":
        CV.run_cvminus(ctx, [(r["interfaces"], r["lambda_minus_one"], r["ops"])])
        for f in ctx.fails:
            print("still fails:", f["signature"], f["what"])
        return 1 if ctx.fails else 0
    if not r.get("params") and r.get("what") not in ("calc_cv_vector", "load_paths"):
        print("no history parameters in this replay file:", r)
        return 1
    ctx.seed = r.get("ctxseed", ctx.seed)
    ps = r.get("params") or []
    if ps and ps[0] == "hole":
        out = hole_witness(ctx, ps[1], report=False)
        print("hole witness outcome:", out, "(expected", ps[1].get("expect"), ")")
        return 1 if out == ps[1].get("expect") else 0
    if r.get("what") == "calc_cv_vector":
        CV.run_cv(ctx, [(r["interfaces"], r["wf"], r["cap"], r["ops"], "replay")])
    elif r.get("what") == "load_paths":
        CV.run_load(ctx, C05Sim, [(0, r["interfaces"], r["wf"], r["cap"], r["paths"])])
    elif ps and ps[0] == "sort":
        del SORT_LOG[:]
        del SORTST_LOG[:]
        sort_case(ctx, int(ps[1]), ctx.rng, int(ps[2]))
        CV.judge_sort_log(ctx, [e for e in SORT_LOG if e[1] is not None])
        CV.judge_sortst(ctx, SORTST_LOG, as_fail=True)
    elif ps and ps[0] == "sortoff":
        del SORTST_LOG[:]
        sort_off_case(ctx, int(ps[1]), int(ps[2]))
        CV.judge_sortst(ctx, SORTST_LOG, as_fail=True)
    elif ps and ps[0] == "cstep0":
        cstep0_restart(ctx, int(ps[1]), int(ps[2]), int(ps[3]), int(ps[4]), False, [])
    else:
        ch = one(ctx, tuple(ps), False, [])
        CV.judge_sort_log(ctx, [("replay", wb, sw, sm.n, None, list(ps)) for sm in ch
                                for (wb, sw) in getattr(sm, "sort_by_op", {}).values() if wb is not None])
    for f in ctx.fails:
        print("still fails:", f["signature"], f["what"])
    return 1 if ctx.fails else 0
