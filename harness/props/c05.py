"""C05 — the sampler never stalls: a job can always be drawn, sorting terminates.

Tie: real REPEX_state vs Lean state machine (incl. the number of sort_trajstate iterations is implied by the
resulting slot order).  Property predicates on the real code: every probability vector handed to `choice` is
finite, non-negative and sums to one; after every completed step each idle live path has non-zero weight in
the ensemble of its slot; treat_output returns (a watchdog turns a hang into a replay); live paths distinct;
path numbers fresh; the restart file written at that moment loads through a new REPEX_state.
"""
from __future__ import annotations

import math
import random
import signal

import numpy as np

import repex_tie as T


class Stall(Exception):
    pass


def _on_vtalrm(signum, frame):
    raise Stall("treat_output/prep did not return within 20 s of CPU time")


def predicates(ctx, chain, label):
    ever = set()
    max_seen = -1
    for seg, sim in enumerate(chain):
        rep0 = {"history": label, "params": getattr(chain[-1], "params", None), "ctxseed": ctx.seed, "segment": seg}
        n = sim.n
        # 1. every draw request is a proper distribution
        for op_i, draws in getattr(sim, "draws_by_op", {}).items():
            for kind, p in draws:
                if p is None:
                    continue
                p = np.asarray(p, dtype=float)
                if not np.all(np.isfinite(p)) or np.any(p < -1e-12) or abs(float(p.sum()) - 1.0) > 1e-9:
                    ctx.fail("C05:pick-distribution-not-normalisable", f"choice got p with sum {float(p.sum())!r}",
                             dict(rep0, op_index=op_i, p=[float(x) for x in p]))
        prev_live = None
        for idx, (tag, d, held) in enumerate(sim.snaps):
            rep = dict(rep0, snapshot=idx, after=tag, trajs=d["trajs"], locks=d["locks"], W=d["W"])
            live = d["trajs"].split(",")[:-1]
            if len(set(live)) != len(live) or "-" in live:
                ctx.fail("C05:live-paths-not-distinct", f"live paths {live}", rep)
            W = [r.split(",") for r in d["W"].split(";")]
            if tag in ("treat", "loaded"):
                for i in range(n - 1):
                    if d["locks"][i] == "0" and W[i][i] in ("0", "0.0"):
                        ctx.fail("C05:idle-path-with-zero-weight-in-its-slot",
                                 f"slot {i} holds path {live[i]} with zero weight there after the step", rep)
            if tag == "treat" and d.get("_restart_active"):
                # the restart file written at that moment: its slot order must be the (sorted) live order, and
                # every path must have non-zero weight in the ensemble of the slot it is recorded in
                ract = d["_restart_active"].split(",")
                row_of = {pn: W[i] for i, pn in enumerate(live)}
                for i, pn in enumerate(ract):
                    r = row_of.get(pn)
                    if r is None:
                        ctx.fail("C05:restart-file-lists-unknown-path", f"restart.toml active {ract} vs live {live}", rep)
                        break
                    if r[i] in ("0", "0.0"):
                        ctx.fail("C05:restart-file-does-not-load",
                                 f"restart.toml written after the step records path {pn} in slot {i} where its weight is zero "
                                 f"(active {ract}, live order in memory {live}): load_paths would assert", rep)
                        break
            tn = int(d["trajnum"])
            newc = [int(x) for x in live if int(x) not in ever]
            for x in newc:
                if seg == 0 and tag == "loaded":
                    continue
                if x <= max_seen and x in ever:
                    ctx.fail("C05:path-number-reused", f"path number {x} handed out twice", rep)
            for x in live:
                xi = int(x)
                if xi >= tn:
                    ctx.fail("C05:path-number-not-below-counter", f"live path {xi} but traj_num {tn}", rep)
                ever.add(xi)
                max_seen = max(max_seen, xi)
            prev_live = live
        if isinstance(sim.error, Stall):
            ctx.fail("C05:stall", str(sim.error), rep0)
        elif sim.error is not None:
            ctx.fail("C05:sampler-raised", f"{type(sim.error).__name__}: {sim.error}", rep0)


def restart_loads(ctx, sim, label, every=3):
    """the restart file written after a step loads: rebuild from the recorded image of sampled steps"""
    # run_history with restarts does exactly this; here we only need the load answers of later segments
    for seg, sm in enumerate(sim.previous + [sim]):
        if seg == 0:
            continue
        for line, real, kind in zip(sm.lines, sm.real, sm.kinds):
            if kind == "load" and real != "ok":
                ctx.fail("C05:restart-file-does-not-load", f"{line} -> {real}",
                         {"history": label, "params": getattr(sim, "params", None), "ctxseed": ctx.seed, "segment": seg})


def one(ctx, params, with_model, outs):
    n_ens, workers, steps, seed, wf, restarts, acc = params[:7]
    rich = bool(params[8]) if len(params) > 8 else False
    label = (f"n_ens={n_ens} workers={workers} steps={steps} seed={seed} wf={wf} restarts={list(restarts)} "
             f"acc_p={acc} rich={rich} ctxseed={ctx.seed}")
    old = signal.signal(signal.SIGVTALRM, _on_vtalrm)
    signal.setitimer(signal.ITIMER_VIRTUAL, 20.0 + 0.02 * steps * n_ens)
    try:
        sim = T.run_history(ctx, n_ens, workers, steps, seed=seed, wf=wf, restarts=tuple(restarts), acc_p=acc,
                            rng=random.Random(label), rich_init=rich)
    finally:
        signal.setitimer(signal.ITIMER_VIRTUAL, 0)
        signal.signal(signal.SIGVTALRM, old)
    sim.params = list(params)
    chain = sim.previous + [sim]
    predicates(ctx, chain, label)
    restart_loads(ctx, sim, label)
    for sm in chain:
        ctx.count(len(sm.snaps), workers=("1" if workers == 1 else ">1"), restarts=len(restarts))
        for (tag, d, held) in sm.snaps:
            ctx.distinct((d["W"], d["trajs"], d["locks"]))
        if with_model:
            outs.append((sm, label))
    return chain


def run(ctx):
    rng = ctx.rng
    ctx.rule = ("snapshots of scheduler-shaped histories of the real REPEX_state (2..8 ensembles, workers 1..ensembles-1, "
                "sh and wf-like weights, high and low acceptance, with restarts at random steps so that restart files are "
                "reloaded); distinct = distinct (W, slot order, locks)")
    plans = []
    for n_ens in (2, 3, 4, 5):
        for w in range(1, n_ens):
            for rep in range(2 if ctx.quick else 6):
                steps = 14 + 4 * n_ens
                rs = () if rep % 2 == 0 else (rng.randint(2, steps - 4),)
                plans.append((n_ens, w, steps, rng.randint(0, 5), bool(rep % 2), rs, rng.choice([0.5, 0.9]), True))
    # short runs: fewer steps than workers (fresh and after a restart) — the initiation closes early
    for n_ens in (4, 5, 6):
        for w in range(2, n_ens):
            for steps in (1, 2, w - 1):
                for rep in range(3):
                    plans.append((n_ens, w, steps, rng.randint(0, 5), False, (), 0.9, n_ens <= 5, True))
            plans.append((n_ens, w, 9, rng.randint(0, 5), False, (9 - rng.randint(1, w - 1),), 0.9, n_ens <= 5, True))
    for _ in range(5 if ctx.quick else 50):
        n_ens = rng.randint(5, 8)
        steps = rng.randint(40, 100 if ctx.quick else 300)
        rs = tuple(sorted(rng.sample(range(3, steps - 3), rng.randint(0, 2))))
        plans.append((n_ens, rng.randint(1, n_ens - 1), steps, rng.randint(0, 5), rng.random() < 0.5, rs,
                      rng.choice([0.3, 0.7, 0.95]), n_ens <= 5))
    outs = []
    for p in plans:
        one(ctx, tuple(p[:7]) + (None, p[8] if len(p) > 8 else False), p[7] and ctx._driver_ok, outs)
    for sm, label in outs:
        T.compare(ctx, sm, ctx.driver(sm.lines), label)
    if outs:
        sm = outs[-1][0]
        ctx.sample({"history": outs[-1][1], "snapshot": {k: sm.snaps[-1][1][k] for k in ("W", "trajs", "locks", "trajnum")}})
    ctx.assumptions += [
        "histories are quantified over outcomes whose weight vectors are in the staircase family (C02's family)",
        "a hang is detected by a 20 s CPU-time watchdog around a whole history",
        "restart-file loading is exercised by really rebuilding REPEX_state from the written restart.toml at the restart points",
    ]


def replay(ctx, obj):
    r = obj.get("replay", {})
    if not r.get("params"):
        print("no history parameters in this replay file:", r)
        return 1
    ctx.seed = r.get("ctxseed", ctx.seed)
    one(ctx, tuple(r["params"]), False, [])
    for f in ctx.fails:
        print("still fails:", f["signature"], f["what"])
    return 1 if ctx.fails else 0
