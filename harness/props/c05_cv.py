"""C05 extension tie: calc_cv_vector / load_paths on ORDER SEQUENCES and the iteration bound of sort_trajstate.

Model side: lean/Infretis/Model/RepexCv.lean through the C05 driver (ops `cvfam`, `cvload`, `mumat`).
Real side:  infretis.core.tis.calc_cv_vector on real Path objects, REPEX_state.load_paths on real Path objects,
            REPEX_state.sort_trajstate (swap counter installed by c05.C05Sim).
Theorems the predicates restate (Infretis.C05.*): cv_vector_family_of_no_jump, cv_vector_hole_needs_jump,
load_paths_cv_loads_iff, sort_iterations_bounded.
"""
from __future__ import annotations

import itertools
import os
import random

import numpy as np

import repex_tie as T
from common import err_kind, frac_token, lst


# ----------------------------------------------------------------------------- python restatement of the conditions
def cap_of(intfs, cap):
    return cap if cap is not None else intfs[-1]


def py_no_jump_up(l, r, ops):
    return not any(a < l and b >= r for a, b in zip(ops, ops[1:]))


def py_legal_ends(i0, c, ops):
    return bool(ops) and ops[0] < i0 and (ops[-1] < i0 or ops[-1] >= c)


def py_no_jump_cfg(intfs, mv, cap, ops):
    c = cap_of(intfs, cap)
    if not py_legal_ends(intfs[0], c, ops):
        return False
    return all((not m) or py_no_jump_up(lam, c, ops) for lam, m in zip(intfs[:-1], mv))


def py_stair(ws):
    seen_zero = False
    for w in ws:
        if w == 0:
            seen_zero = True
        elif seen_zero:
            return False
    return True


def cfg_ok(intfs, mv, cap):
    """strictly increasing interfaces, enough move flags, wire-fencing interfaces at or below the cap (CapOk)"""
    c = cap_of(intfs, cap)
    return (all(a < b for a, b in zip(intfs, intfs[1:])) and len(mv) >= len(intfs) - 1
            and all(lam <= c for lam, m in zip(intfs[:-1], mv) if m))


def real_path(ops, pn=None):
    from infretis.classes.path import Path
    from infretis.classes.system import System
    p = Path(maxlen=10_000)
    for o in ops:
        sy = System()
        sy.order = [float(o)]
        sy.config = (f"f{pn}.xyz", 0)
        p.phasepoints.append(sy)
    p.path_number = pn
    return p


def moves_of(mv):
    return ["sh"] + ["wf" if m else "sh" for m in mv]


def cfg_tokens(intfs, mv, cap):
    return f"{lst([int(x) for x in intfs])} {lst([1 if m else 0 for m in mv])} {'-' if cap is None else int(cap)}"


# ----------------------------------------------------------------------------- (1) calc_cv_vector
def cv_cases(ctx):
    rng = ctx.rng
    cases = []
    # exhaustive small scope: interfaces 0<2<4, every wf-flag pattern, every order sequence over {-1,1,3,5}
    maxlen = 4 if ctx.quick else 5
    for mv in itertools.product([False, True], repeat=2):
        for L in range(0, maxlen + 1):
            for ops in itertools.product([-1, 1, 3, 5], repeat=L):
                cases.append(([0, 2, 4], list(mv), None, list(ops), "exhaustive"))
    # (audit repair) the scope above never puts a frame ON an interface and never uses a cap: interfaces 0<2<4, every
    # wf-flag pattern, caps none/3/4, every order sequence over -1..5 (all the <, <= boundaries of the scan, of
    # get_start_point / get_end_point and of `intf_i <= path_max`)
    tl = 3 if ctx.quick else 4
    for mv in itertools.product([False, True], repeat=2):
        for cap in (None, 3, 4):
            for L in range(1, tl + 1):
                for ops in itertools.product([-1, 0, 1, 2, 3, 4, 5], repeat=L):
                    cases.append(([0, 2, 4], list(mv), cap, list(ops), "exhaustive-ties"))
    # random: 2..6 interfaces, spacings 1..3, caps, walks with small and large steps
    for _ in range(400 if ctx.quick else 6000):
        k = rng.randint(2, 6)
        intfs = [0]
        for _i in range(k - 1):
            intfs.append(intfs[-1] + rng.choice([1, 2, 3]))
        mv = [rng.random() < 0.5 for _i in range(k - 1)]
        r = rng.random()
        cap = None if r < 0.5 else (rng.choice(intfs[1:]) if r < 0.85 else rng.randint(intfs[0] - 1, intfs[-1] + 2))
        big = rng.random() < 0.4
        x = intfs[0] - rng.randint(1, 2)
        ops = [x]
        for _s in range(rng.randint(1, 14)):
            step = rng.choice([-3, -2, -1, 1, 2, 3, 4, 5] if big else [-1, 1, 1, 2])
            x = x + step
            ops.append(x)
            if x < intfs[0] or x >= intfs[-1]:
                if rng.random() < 0.8:
                    break
        cases.append((intfs, mv, cap, ops, "random-big" if big else "random-small"))
    # malformed: too few move flags (IndexError), cap below lambda_0 with a wf ensemble (AssertionError), empty path
    cases.append(([0, 2, 4, 6], [False], None, [-1, 1, 3, -1], "malformed"))
    cases.append(([0, 2, 4, 6], [True, True, True], -3, [-1, 1, 3, -1], "malformed"))
    cases.append(([0, 2, 4, 6], [False, True, False], None, [], "malformed"))
    cases.append(([0, 2, 4, 6], [False, True, False], 4, [-1, 1, 7, -1], "corpus-hole"))
    cases.append(([0, 2, 4, 6, 8], [False, False, True, False], None, [-2, 3, 10], "corpus-hole"))
    return cases


def run_cv(ctx, cases=None):
    from infretis.core.tis import calc_cv_vector
    cases = cv_cases(ctx) if cases is None else cases
    lines, reals = [], []
    for intfs, mv, cap, ops, kind in cases:
        try:
            ws = calc_cv_vector(real_path(ops), [float(x) for x in intfs], moves_of(mv), False,
                                cap=None if cap is None else float(cap), minus=False)
            real = [float(x) for x in ws]
        except Exception as e:  # noqa: BLE001
            real = err_kind(e)
        reals.append(real)
        lines.append(f"cvfam {cfg_tokens(intfs, mv, cap)} {lst([int(o) for o in ops])}")
    outs = ctx.driver(lines) if ctx._driver_ok else [None] * len(lines)
    for (intfs, mv, cap, ops, kind), real, out, line in zip(cases, reals, outs, lines):
        case = {"what": "calc_cv_vector", "interfaces": intfs, "wf": mv, "cap": cap, "ops": ops}
        nj = py_no_jump_cfg(intfs, mv, cap, ops) if ops and intfs else False
        ok_cfg = cfg_ok(intfs, mv, cap)
        if isinstance(real, str):
            branch = real
            if out is not None and out.split(" ")[0] != real:
                ctx.disagree(case, real, out)
        else:
            stair = py_stair(real)
            branch = "stair" if stair else "hole"
            if out is not None:
                want = f"ws={','.join(str(int(x)) for x in real)} stair={1 if stair else 0} nojump={1 if nj else 0}"
                if any(x != int(x) for x in real) or out != want:
                    ctx.disagree(case, want, out)
            # the property predicate (theorem cv_vector_family_of_no_jump), on the REAL vector
            if ok_cfg and nj:
                mx = max(ops)
                if not stair:
                    ctx.fail("C05:cv-vector:no-jump-path-outside-family",
                             f"calc_cv_vector gave {real} (a hole) for a path without a jump over a wire-fencing band", case)
                elif any((w != 0) != (lam <= mx) for w, lam in zip(real[:-1], intfs[:-1])) or real[-1] != 0:
                    ctx.fail("C05:cv-vector:entry-not-nonzero-up-to-the-maximum",
                             f"calc_cv_vector gave {real}, path maximum {mx}, interfaces {intfs}", case)
            # the boundary (theorem cv_vector_hole_needs_jump): a hole only with a violated condition — same statement,
            # counted separately so that the evidence shows how often the hole side is exercised
            if not stair:
                branch = "hole-with-jump" if not nj else "hole-without-jump"
        ctx.count(1, branch="cvfam:" + branch, gen=kind)
        ctx.distinct(("cv", tuple(intfs), tuple(mv), cap, tuple(ops)))


def run_cvminus(ctx, cases=None):
    """(audit repair) the `minus=True` branch of calc_cv_vector (Lean `WF.cvMinus`, listed as modelled): `(1.0,)` iff the bound
    <= max(order), bound = lambda_minus_one if it `is not False` (0.0 counts as given) else interfaces[0]"""
    from infretis.core.tis import calc_cv_vector
    rng = ctx.rng
    given = cases
    cases = [([0, 2], False, []), ([1, 3], 0.0, [0, -1, 0]), ([1, 3], 0.0, [-1, -2]), ([1, 3], False, [0, -1, 0]),
             ([1, 3], False, [1, 0, 1]), ([0, 2], -2.0, [-2, -3]), ([0, 2], -2.0, [-3, -4])]
    for _ in range(60 if ctx.quick else 600):
        i0 = rng.randint(-2, 2)
        lm1 = False if rng.random() < 0.5 else float(i0 - rng.randint(1, 3))
        ops = [rng.randint(i0 - 4, i0 + 1) for _k in range(rng.randint(1, 6))]
        cases.append(([i0, i0 + 2], lm1, ops))
    if given is not None:
        cases = given
    lines, reals = [], []
    for intfs, lm1, ops in cases:
        try:
            real = "ws=" + ",".join(str(int(x)) for x in calc_cv_vector(real_path(ops), [float(x) for x in intfs], ["sh", "sh"],
                                                                        lm1, cap=None, minus=True))
        except Exception as e:  # noqa: BLE001
            real = err_kind(e)
        bound = int(lm1) if lm1 is not False else intfs[0]
        reals.append(real)
        lines.append(f"cvminus {bound} {lst([int(o) for o in ops])}")
    outs = ctx.driver(lines) if ctx._driver_ok else [None] * len(lines)
    for (intfs, lm1, ops), real, out in zip(cases, reals, outs):
        case = {"what": "calc_cv_vector-minus", "interfaces": intfs, "lambda_minus_one": lm1, "ops": ops}
        if out is not None and out != real:
            ctx.disagree(case, real, out)
        # the property side: a [0-] path that reaches its bound is valid in [0-] (add_traj's assertion holds)
        if ops and not real.startswith("err"):
            bound = lm1 if lm1 is not False else intfs[0]
            if (real == "ws=1") != (max(ops) >= bound):
                ctx.fail("C05:cv-vector:minus-weight-wrong", f"calc_cv_vector(minus=True) gave {real}, max {max(ops)}, bound {bound}", case)
        ctx.count(1, branch="cvminus:" + real, lm1="given" if lm1 is not False else "absent")


# ----------------------------------------------------------------------------- (2) load_paths on real Path objects
def gen_path_for(rng, intfs, cap, ens, mode):
    """an order sequence for plus ensemble `ens`; mode: valid | short (does not reach its interface) | jumpy"""
    lo, hi = intfs[0], intfs[-1]
    target = intfs[ens] if mode != "short" else None
    x = lo - 1
    ops = [x]
    reach = rng.choice([v for v in intfs[ens:]]) if mode != "short" else (intfs[ens] - 1)
    step_up = (lambda: rng.choice([1, 1, 2])) if mode != "jumpy" else (lambda: rng.choice([1, 3, 4, 6]))
    guard = 0
    while x < reach and guard < 60:
        x = min(x + step_up(), max(reach, x + 1)) if mode != "jumpy" else x + step_up()
        ops.append(x)
        guard += 1
        if x >= hi:
            return ops
    if mode == "short" and x < lo:
        ops.append(lo - 1)
        return ops
    while x >= lo and guard < 200:
        x -= rng.choice([1, 2]) if mode != "jumpy" else rng.choice([1, 3, 5])
        ops.append(x)
        guard += 1
    return ops


def load_cases(ctx):
    rng = ctx.rng
    cases = []
    for idx in range(40 if ctx.quick else 400):
        n_ens = rng.randint(2, 5)
        intfs = [0]
        for _i in range(n_ens - 1):
            intfs.append(intfs[-1] + rng.choice([1, 2, 3]))
        mv = [rng.random() < 0.5 for _i in range(n_ens - 1)]
        cap = None if rng.random() < 0.6 else rng.choice(intfs[1:])
        mode_all = rng.choice(["valid", "valid", "valid", "mixed"])
        paths_ops = [[1, -1, 1]]            # the [0-] path: load_paths gives it (1.0,) whatever it looks like
        for ens in range(n_ens - 1):
            mode = "valid" if mode_all == "valid" else rng.choice(["valid", "valid", "short", "jumpy"])
            paths_ops.append(gen_path_for(rng, intfs, cap, ens, mode))
        if rng.random() < 0.05:
            paths_ops = paths_ops[:-1]      # one path too few: IndexError
        cases.append((idx, intfs, mv, cap, paths_ops))
    return cases


def run_load(ctx, C05Sim, cases=None):
    from infretis.core.tis import calc_cv_vector
    sims = []
    for idx, intfs, mv, cap, paths_ops in (load_cases(ctx) if cases is None else cases):
        n_ens = len(intfs)
        label = f"cvload idx={idx} interfaces={intfs} wf={mv} cap={cap} ctxseed={ctx.seed}"
        case = {"what": "load_paths", "interfaces": intfs, "wf": mv, "cap": cap, "paths": paths_ops, "ctxseed": ctx.seed}
        cwd0 = os.getcwd()
        sim = None
        try:
            C05Sim.screen, C05Sim.load_every = 0, 0
            sim = C05Sim(ctx, n_ens, 1, 10, seed=0, rng=random.Random(label))
            sim.cfg["simulation"]["interfaces"] = [float(x) for x in intfs]
            sim.cfg["simulation"]["shooting_moves"] = moves_of(mv)
            if cap is not None:
                sim.cfg["simulation"]["tis_set"]["interface_cap"] = float(cap)
            paths = [real_path(ops, pn) for pn, ops in enumerate(paths_ops)]
            vecs = []
            for ens in range(n_ens - 1):
                try:
                    vecs.append([float(x) for x in calc_cv_vector(real_path(paths_ops[ens + 1]), [float(x) for x in intfs],
                                                                  moves_of(mv), False, cap=None if cap is None else float(cap))])
                except Exception as e:  # noqa: BLE001
                    vecs.append(err_kind(e))
            in_inf_retis = False
            try:
                sim.st.load_paths(paths)
                real = "ok"
            except Exception as e:  # noqa: BLE001
                real = err_kind(e)
                import traceback
                in_inf_retis = any(fr.name == "inf_retis" for fr in traceback.extract_tb(e.__traceback__))
            holes = any((not isinstance(v, str)) and not py_stair(v) for v in vecs)
            # add_traj ends with `self.prob`: with a HOLE vector among the rows loaded so far inf_retis can fail its own
            # row-sum assertion (open finding C05:hole-weight-vector:prob-assertion, here at load time).  The model's
            # add_traj does not evaluate P (a pure function there), so such a case is reported under the known signature
            # and excluded from the model comparison and from the loads-iff predicate (which is claimed in-family).
            known_hole = holes and real == "err:assert" and in_inf_retis
            toks = " ".join(f"{pn} {lst([int(o) for o in ops])} {lst([0] * (n_ens + 1))}" for pn, ops in enumerate(paths_ops))
            sim.emit(f"cvload {cfg_tokens(intfs, mv, cap)} {len(paths_ops)} {toks}", real, "load")
            if real == "ok":
                sim.op_dump()
            # ---- property predicates on the real object (theorem load_paths_cv_loads_iff and matchability of the result)
            complete = len(paths_ops) == n_ens
            if known_hole:
                ctx.fail("C05:hole-weight-vector:prob-assertion",
                         f"load_paths: inf_retis' row-sum assertion inside add_traj's `self.prob` with hole vectors {vecs}", case)
                branch = "hole-prob-assertion(known finding)"
            elif complete and all(not isinstance(v, str) for v in vecs):
                valid = all(v[i] != 0 for i, v in enumerate(vecs))
                if valid and real != "ok":
                    ctx.fail("C05:load-paths:valid-initial-paths-rejected",
                             f"every initial path has non-zero weight in its own ensemble ({vecs}) but load_paths gave {real}", case)
                if not valid and real == "ok":
                    ctx.fail("C05:load-paths:invalid-initial-path-accepted",
                             f"an initial path has zero weight in its own ensemble ({vecs}) but load_paths returned", case)
                if real == "ok":
                    st = sim.st
                    if [int(x) for x in st._locks] != [0] * n_ens + [1]:
                        ctx.fail("C05:load-paths:slots-not-idle", f"locks after load_paths {list(st._locks)}", case)
                    if any(st.state[i][i] == 0 for i in range(n_ens)):
                        ctx.fail("C05:idle-path-with-zero-weight-in-its-slot", "zero diagonal after load_paths", case)
                    if [getattr(t, "path_number", None) for t in st._trajs[:-1]] != list(range(n_ens)):
                        ctx.fail("C05:load-paths:wrong-slot-order", f"slot order {[getattr(t, 'path_number', None) for t in st._trajs[:-1]]}", case)
                    if all(py_stair(v) for v in vecs):
                        try:
                            P = np.asarray(st.prob, dtype=float)
                            if not np.all(np.isfinite(P)) or np.any(P < -1e-12) or not np.allclose(P[:-1].sum(axis=1), 1.0, atol=1e-9):
                                ctx.fail("C05:initial-state-not-matchable", f"P after load_paths {P.tolist()}", case)
                        except Exception as e:  # noqa: BLE001
                            ctx.fail("C05:initial-state-not-matchable", f"prob after load_paths raised {type(e).__name__}: {e}", case)
                        branch = "loaded-family"
                    else:
                        branch = "loaded-hole"
                else:
                    branch = "rejected:" + real
            else:
                branch = "malformed:" + real
            ctx.count(1, branch="cvload:" + branch)
            ctx.distinct(("cvload", tuple(intfs), tuple(mv), cap, tuple(map(tuple, paths_ops))))
            if not known_hole:
                sims.append((sim, label))
        except Exception as e:  # noqa: BLE001
            ctx.fail("C05:sampler-raised", f"load_paths case could not be run: {type(e).__name__}: {e}", case)
        finally:
            C05Sim.screen, C05Sim.load_every = 0, 1
            if sim is not None:
                try:
                    sim.close()
                except Exception:  # noqa: BLE001
                    pass
            try:
                os.chdir(cwd0)
            except OSError:
                pass
    if ctx._driver_ok:
        for sim, label in sims:
            try:
                T.compare(ctx, sim, ctx.driver(sim.lines), label)
            except Exception as e:  # noqa: BLE001
                ctx.disagree({"history": label}, "real run recorded", f"comparison raised {type(e).__name__}: {e}")


# ----------------------------------------------------------------------------- (3) iterations of sort_trajstate
def mat_tokens(W):
    return f"{len(W)} " + " ".join(lst(list(r), frac_token) for r in W)


def judge_sort_log(ctx, entries):
    """entries: (label, W_before, swaps, n, model_iters or None, replay params).  Predicates: swaps <= measure(W_before) <= n*n (the proved
    bound, measure computed by the Lean definition through the driver) and model iterations == real swaps."""
    if not entries or not ctx._driver_ok:
        return
    outs = ctx.driver(["mumat " + mat_tokens(e[1]) for e in entries])
    for (label, W, swaps, n, miters, params), out in zip(entries, outs):
        case = {"history": label, "params": params, "ctxseed": ctx.seed,
                "W_before_sort": [[float(x) for x in r] for r in W], "swaps": swaps}
        try:
            mu = int(out)
        except ValueError:
            ctx.disagree(case, "a number", out)
            continue
        if swaps > mu or mu > n * n:
            ctx.fail("C05:sort-iterations-exceed-proved-bound",
                     f"sort_trajstate made {swaps} swaps; proved bound (measure of the state before sorting) {mu}, n*n = {n * n}", case)
        if miters is not None and miters != swaps:
            ctx.disagree(case, f"real swaps {swaps}", f"model iterations {miters}")
        ctx.count(1, branch="sort-iterations", swaps=str(min(swaps, 3)) + ("+" if swaps > 3 else ""))


def judge_sortst(ctx, entries, as_fail=False):
    """entries: (label, `sortst` line, real answer, replay params, in_family).  The Lean `sortTrajstate` (fuel n*n+4) on the very
    state handed to the real sort_trajstate: resulting rows, slot order and number of iterations, or the error kind /
    `err:stall`.  A difference is a broken correspondence (ctx.disagree); in a replay it is reported as still failing."""
    if not entries or not ctx._driver_ok:
        return
    outs = ctx.driver([e[1] for e in entries])
    for (label, line, real, params, in_family), out in zip(entries, outs):
        case = {"history": label, "params": params, "ctxseed": ctx.seed, "op": line}
        same = (out == real)
        if not same and real.startswith("W=") and out.startswith("W="):
            r, m = dict(t.split("=", 1) for t in real.split(" ")), dict(t.split("=", 1) for t in out.split(" "))
            same = T.field_eq("W", r["W"], m["W"]) and r["trajs"] == m["trajs"] and r["iters"] == m["iters"]
        if not same:
            if as_fail:
                ctx.fail("C05:sort-model-differs-from-code", f"real {real} / model {out}", case)
            else:
                ctx.disagree(case, real, out)
        ctx.count(1, branch="sortst:" + ("family" if in_family else "off-family"), out=out.split(" ")[0][:10] if not out.startswith("W=") else "ok")
