"""C06 — same seed, same run: determinism and restart equivalence.

Tie = REAL end-to-end runs through `setup_config` / `scheduler()` / `setup_internal` / `REPEX_state` / `run_md` /
PathStorage / `write_toml` (only `setup_runner` is replaced by a synchronous runner, see c06_support/legs.py),
every leg of a run in a process of its own with pristine module-level state.

One worker ("families" = engine × move set × seed × N):
  reference   N steps in one go (run twice: determinism)
  steps-split for EVERY 0<k<N: run with steps=k, raise `steps` to N in restart.toml, restart      (repo's own way)
  kill-split  for EVERY 0<k<N: the process ends after step k (restart file of step k on disk, next job already
              picked and lost), restart from restart.toml
  chains      up to 3 restarts (both kinds of stop), and a restart after every single step
  predicate   byte equality with the reference of infretis_data.txt, restart.toml (minus the `restarted_from` line),
              load/*/order.txt and energy.txt (traj.txt up to the file-name column, which contains the pid), and
              equality of the issued jobs (ensemble, path, stream identities).
Several workers (completion order lifo / fifo / seeded random, identical in both runs):
  the jobs issued first after a restart are exactly restart.toml's `locked` at the stop, in order, each holding its
  ensemble slot locked with its path and drawing from the SAME streams (seed, (ordinal, j)) / (seed, (ordinal, j, 0)) it
  had before the stop; restart.toml's `locked` at every stop equals the jobs that were in flight when it was written,
  with the ordinals of their streams (so a re-issued job still in flight is recorded again, with the same ordinal);
  the whole chain run twice is byte-identical.
Model side: repex_tie.run_history (real REPEX_state, scripted outcomes) with the same (n, W, restart chain) shapes
against the Lean driver; on the same real objects the hypotheses/conclusions of the several-workers theorems
(Props/C06 10-18: RestoreRelM, StopM, reissue_in_place) are evaluated at every restart: what load_paths rebuilds has the
slots of the stop, all free; after the re-issues the sampler is the stopped one (W, slot order, locks, locked with
ordinals, counters, entropy, spawn counter, fractions) and the jobs are those that were in flight.
Determinism beyond "twice": a straight run and a split run in brand-new interpreters under fixed, different
PYTHONHASHSEED values, in other (deeper) working directories and other pids, must write the reference's bytes.
Several engines per ensemble (`ensemble_engines = [[engine], [engine, engine_hot], [engine_hot, engine], …]`, the two
lattice engines differing in their step probabilities and logging which of them ran): W = 1 (every split, chains, crash
points, hash seeds for which a set of the engine names iterates in different orders, plus the pool's random ones), W = 2, 3
(run twice and straight vs restarted, the legs under alternating hash seeds); bytes of data/restart/order files, the
sequence of (ensemble, engine, work folder) per propagation, and the model's statement that the FIRST listed engine runs
(Repex.prep: engIdx in configuration order) — also in process, real prep_md_items vs the Lean driver (multi_engine_model).
"""
from __future__ import annotations

import json
import os
import random
import re
import shutil
import tempfile

import repex_tie as T
from c06_support import legs
from props import c06_mc

CORPUS_IN_RUN = False
SCRATCH = "/var/tmp"
TURTLE_MIX = ["sh", "sh", "wf", "wf", "wf", "wf", "wf", "wf"]   # the repo's e2e test
TURTLE_SH = ["sh"] * 8
NPROC = max(2, min(8, (os.cpu_count() or 4) - 4))


# ----------------------------------------------------------------------------- reading run directories
def read_log(d):
    p = os.path.join(d, legs.LOG)
    if not os.path.exists(p):
        return []
    with open(p) as f:
        return [json.loads(l) for l in f if l.strip()]


def effective_submits(log):
    """submit events in order, without the jobs that were in flight when the process was killed (they are lost;
    with one worker that is the job picked after the last completed step)"""
    out = []
    cur = []
    for ev in log:
        if ev["ev"] == "leg-start":
            out += cur
            cur = []
        elif ev["ev"] == "submit":
            cur.append(ev)
        elif ev["ev"] == "kill":
            lost = set(ev["in_flight"])
            out += [s for s in cur if s["idx"] not in lost]
            cur = []
    return out + cur


def job_key(s):
    return (tuple(s["ens"]), tuple(s["pn"]), tuple(map(tuple, s["streams"])), tuple(map(tuple, s["eng_streams"])))


def strip_restarted(b):
    return re.sub(rb"(?m)^restarted_from = \d+\n", b"", b)


def mask_traj(b):
    out = []
    for line in b.split(b"\n"):
        t = line.split()
        if len(t) == 4 and not line.startswith(b"#"):
            t[1] = b"*"
            out.append(b" ".join(t))
        else:
            out.append(line)
    return b"\n".join(out)


def first_diff(a, b):
    la, lb = a.split(b"\n"), b.split(b"\n")
    for i, (x, y) in enumerate(zip(la, lb)):
        if x != y:
            return i + 1, x.decode("utf8", "replace")[:300], y.decode("utf8", "replace")[:300]
    return min(len(la), len(lb)) + 1, f"<{len(la)} lines>", f"<{len(lb)} lines>"


def rd(p):
    with open(p, "rb") as f:
        return f.read()


def active_of(d):
    import tomli
    with open(os.path.join(d, "restart.toml"), "rb") as f:
        return [str(a) for a in tomli.load(f)["current"]["active"]]


ROUNDED = {"lines": 0}


def unround_maxop(a, b):
    """Scope of C06: order values representable at the six decimals of the stored order files.  TurtleMD's are
    not: after a restart `max OP` of a reloaded path comes from order.txt (6 decimals) instead of the float in
    memory, so its 5-decimal print in the data file may move by one unit in the last place.  Returns `b` with
    such tokens replaced by `a`'s (everything else untouched), so that only these differences are forgiven."""
    la, lb = a.split(b"\n"), b.split(b"\n")
    if len(la) != len(lb):
        return b
    out = []
    for x, y in zip(la, lb):
        if x != y and not x.startswith(b"#"):
            tx, ty = x.split(b"\t"), y.split(b"\t")
            if len(tx) == len(ty) and len(tx) > 4 and tx[:3] == ty[:3] and tx[4:] == ty[4:]:
                try:
                    if abs(float(tx[3]) - float(ty[3])) <= 1.0000001e-5:
                        ROUNDED["lines"] += 1
                        y = x
                except ValueError:
                    pass
        out.append(y)
    return b"\n".join(out)


def compare_dirs(ref, other, same_path_set, exact_orderp=True):
    """first difference between two run directories in the files C06 names; None if identical"""
    for name, norm in (("infretis_data.txt", None), ("restart.toml", strip_restarted)):
        pa, pb = os.path.join(ref, name), os.path.join(other, name)
        if not os.path.exists(pa) or not os.path.exists(pb):
            return {"file": name, "line": 0, "ref": str(os.path.exists(pa)), "other": str(os.path.exists(pb)), "what": "missing"}
        a, b = rd(pa), rd(pb)
        if norm:
            a, b = norm(a), norm(b)
        if name == "infretis_data.txt" and not exact_orderp and a != b:
            b = unround_maxop(a, b)
        if a != b:
            ln, x, y = first_diff(a, b)
            return {"file": name, "line": ln, "ref": x, "other": y}
    la, lb = set(os.listdir(os.path.join(ref, "load"))), set(os.listdir(os.path.join(other, "load")))
    if same_path_set and la != lb:
        return {"file": "load/", "line": 0, "ref": sorted(la - lb), "other": sorted(lb - la), "what": "different sets of stored paths"}
    act = set(active_of(ref))
    if not act <= la or not act <= lb:
        return {"file": "load/", "line": 0, "ref": sorted(act - la), "other": sorted(act - lb), "what": "active path not stored"}
    for pn in sorted(la & lb, key=lambda s: (len(s), s)):
        for name, norm in (("order.txt", None), ("energy.txt", None), ("traj.txt", mask_traj)):
            pa, pb = os.path.join(ref, "load", pn, name), os.path.join(other, "load", pn, name)
            ea, eb = os.path.exists(pa), os.path.exists(pb)
            if ea != eb:
                if pn in act or same_path_set:
                    return {"file": f"load/{pn}/{name}", "line": 0, "ref": str(ea), "other": str(eb), "what": "missing"}
                continue
            if not ea:
                continue
            a, b = rd(pa), rd(pb)
            if norm:
                a, b = norm(a), norm(b)
            if a != b:
                ln, x, y = first_diff(a, b)
                return {"file": f"load/{pn}/{name}", "line": ln, "ref": x, "other": y}
    return None


# ----------------------------------------------------------------------------- scenarios
# ----------------------------------------------------------------------------- several engines per ensemble
MENG_NAMES = ["engine", "engine_hot"]
_HASH_PAIR = []


def hash_pair():
    """two PYTHONHASHSEED values under which a set of the engine names of the multi-engine families iterates in
    different orders (found by asking brand-new interpreters); anything whose result follows the iteration order of a
    set/dict of these names differs between the two"""
    if not _HASH_PAIR:
        import subprocess
        import sys
        seen = {}
        for hs in range(1, 60):
            env = dict(os.environ, PYTHONHASHSEED=str(hs))
            out = subprocess.run([sys.executable, "-c", f"print(list(set({MENG_NAMES!r})))"], env=env,
                                 stdout=subprocess.PIPE, text=True).stdout.strip()
            seen.setdefault(out, hs)
            if len(seen) == 2:
                break
        vals = sorted(seen.values())
        _HASH_PAIR.extend(vals if len(vals) == 2 else [1, 2])
    return tuple(_HASH_PAIR)


def is_meng(fam):
    return bool((fam.get("opts") or {}).get("multi_eng"))


def engine_log(d):
    p = os.path.join(d, "_c06_eng.jsonl")
    if not os.path.exists(p):
        return []
    with open(p) as f:
        return [json.loads(l) for l in f if l.strip()]


def check_engines(ctx, fam, d, rep, tag, ref=None):
    """configurations whose ensembles list several engines: (1) the statement of the Lean model (Repex.prep: the
    job's `engIdx` is the ensemble's own engine list, in configuration order, and the move runs the first one): every
    propagation in ensemble i was done by the engine listed FIRST in ensemble_engines[i]; (2) with `ref`: the sequence of
    (ensemble, engine, work folder) that ran equals the reference run's."""
    import tomli
    try:
        with open(os.path.join(d, "infretis.toml"), "rb") as f:
            cfg = tomli.load(f)
    except OSError:
        return True
    ens_engs = cfg["simulation"].get("ensemble_engines")
    if not ens_engs:
        return True
    tags = {k: cfg[k].get("tag") for e in ens_engs for k in e}
    log = engine_log(d)
    ctx.count(1, kind="engine-choice", engines_per_ensemble=">1")
    for i, ev in enumerate(log):
        ens = int(ev["ens"])
        want = tags[ens_engs[ens][0]]
        if ev["tag"] != want:
            ctx.fail("C06:engine-choice:not-the-first-listed-engine",
                     f"{tag}: propagation {i} in ensemble {ev['ens']} (ensemble_engines = {ens_engs[ens]}) was run by engine "
                     f"'{ev['tag']}', the model (engIdx in configuration order, first engine runs) says '{want}'",
                     dict(rep, propagation=i))
            return False
    if ref is not None:
        a = [(e["ens"], e["tag"], e["w"]) for e in engine_log(ref)]
        b = [(e["ens"], e["tag"], e["w"]) for e in log]
        if a != b:
            i = next((i for i, (x, y) in enumerate(zip(a, b)) if x != y), min(len(a), len(b)))
            ctx.fail("C06:determinism:engine-sequence-differs",
                     f"{tag}: propagation {i} was (ensemble, engine, folder) {b[i] if i < len(b) else None}, in the reference "
                     f"{a[i] if i < len(a) else None} ({len(b)} vs {len(a)} propagations)", dict(rep, propagation=i))
            return False
    return True


def fam_cfg(fam, steps=None, workers=1):
    c = {"nintf": fam["nintf"], "workers": workers, "steps": fam["N"] if steps is None else steps, "seed": fam["seed"],
         "moves": fam["moves"], "delete_old": fam["delete_old"], "allowmaxlength": True, "cap": fam.get("cap")}
    c.update(fam.get("opts") or {})      # cv2, scale, on_intf, lm1, quantis, screen, delete_old_all
    return c


def steps_chain_ops(d, fam, chain, fresh=False):
    """run to chain[0] steps, then raise `steps` and restart … up to N"""
    stops = list(chain) + [fam["N"]]
    ops = [{"op": "prepare", "dir": d, "engine": fam["engine"], "cfg": fam_cfg(fam, steps=stops[0])},
           {"op": "leg", "dir": d, "input": "infretis.toml", "leg": 0, "fresh": fresh}]
    for i, s in enumerate(stops[1:]):
        ops.append({"op": "leg", "dir": d, "input": "restart.toml", "set_steps": s, "leg": i + 1, "fresh": fresh})
    return ops


def kill_chain_ops(d, snapdir, fam, chain):
    """start from the snapshot after step chain[0]; kill after chain[1], chain[2] …; last leg to N"""
    ops = [{"op": "copy", "src": snapdir, "dst": d}]
    later = list(chain[1:]) + [None]
    for i, k in enumerate(later):
        ops.append({"op": "leg", "dir": d, "input": "restart.toml", "kill_at": k, "leg": i + 1})
    return ops


def multi_ops(d, fam, W, policy, kills, hs=None):
    """hs: PYTHONHASHSEED values for the legs (cycled), each leg in a brand-new interpreter; None: forked children of
    the pool's servers (Python's random hash seed of that server)"""
    ops = [{"op": "prepare", "dir": d, "engine": fam["engine"], "cfg": fam_cfg(fam, workers=W)}]
    stops = list(kills) + [None]
    for i, k in enumerate(stops):
        op = {"op": "leg", "dir": d, "input": "infretis.toml" if i == 0 else "restart.toml", "kill_at": k,
              "policy": policy, "leg": i}
        if hs:
            op["fresh"] = True
            op["hashseed"] = hs[i % len(hs)]
        ops.append(op)
    return ops


def mc_regime(fam):
    """configurations in which `self.prob` can be a Monte-Carlo estimate: an idle block of more than 12 rows needs at
    least 14 ensembles, and rows that are not constant need wire-fencing (high-acceptance) weights"""
    return fam["nintf"] >= 14 and "wf" in fam["moves"]


def fam_tag(fam):
    cap = "" if fam.get("cap") is None else f"-cap{fam['cap']}"
    opts = "".join(f"-{k}={v}" for k, v in sorted((fam.get("opts") or {}).items()))
    return f"{fam['engine']}-{fam['mtag']}-s{fam['seed']}-N{fam['N']}{cap}{opts}"


# ----------------------------------------------------------------------------- predicates, one worker
def check_w1(ctx, fam, ref, d, kind, chain, res):
    """the property for one restarted run `d` against the uninterrupted reference `ref`"""
    rep = {"engine": fam["engine"], "moves": fam["moves"], "mtag": fam["mtag"], "seed": fam["seed"], "N": fam["N"],
           "nintf": fam["nintf"], "delete_old": fam["delete_old"], "cap": fam.get("cap"), "opts": fam.get("opts"), "workers": 1,
           "kind": kind, "chain": list(chain)}
    ctx.count(1, engine=fam["engine"], kind=kind, seed=("0" if fam["seed"] == 0 else "nonzero"), moves=fam["mtag"])
    ctx.distinct((fam["engine"], fam["mtag"], fam["seed"], fam["N"], kind, tuple(chain), fam.get("cap"),
                  tuple(sorted((fam.get("opts") or {}).items()))))
    if fam.get("cap") is not None:
        ctx.hit("interface_cap=set")
    if not res.get("ok"):
        ctx.fail("C06:run-raised", f"{kind} {chain}: {res.get('error')}", dict(rep, trace=res.get("trace")))
        return False
    sig = None
    what = ""
    straight = kind in ("twice", "one-process-first-run", "one-process-second-run") or kind.startswith("twice-hashseed")
    if not straight:
        a, b = effective_submits(read_log(ref)), effective_submits(read_log(d))
        ka, kb = [job_key(s) for s in a], [job_key(s) for s in b]
        if ka != kb:
            i = next((i for i, (x, y) in enumerate(zip(ka, kb)) if x != y), min(len(ka), len(kb)))
            x = a[i] if i < len(a) else None
            y = b[i] if i < len(b) else None
            if x is None or y is None:
                sig, what = "C06:restart:different-number-of-jobs", f"{len(a)} jobs in one go, {len(b)} with restarts"
            elif any(st[0] != fam["seed"] for st in y["streams"] + y["eng_streams"]):
                sig = "C06:restart:entropy-not-seed"
                what = f"job {i} after the restart draws from stream {y['streams']} (entropy is not the seed {fam['seed']}); in one go {x['streams']}"
            elif (x["ens"], x["pn"]) != (y["ens"], y["pn"]):
                sig = "C06:restart:different-job-picked"
                what = f"job {i}: (ens {y['ens']}, path {y['pn']}) after the restart, (ens {x['ens']}, path {x['pn']}) in one go"
            elif [st[1] for st in x["streams"]] != [st[1] for st in y["streams"]]:
                sig = "C06:restart:spawn-ordinal-not-continued"
                what = f"job {i}: stream {y['streams']} after the restart, {x['streams']} in one go"
            else:
                sig, what = "C06:restart:job-streams-differ", f"job {i}: {y} vs {x}"
            rep["first_differing_job"] = i
    diff = compare_dirs(ref, d, same_path_set=not fam["delete_old"], exact_orderp=(fam["engine"] == "lattice" or straight))
    if diff is not None:
        rep["first_difference"] = diff
        if sig is None:
            sig = ("C06:determinism:two-runs-differ" if kind == "twice" else
                   "C06:determinism:run-depends-on-hash-seed-cwd-or-pid" if "hashseed" in kind else
                   "C06:determinism:run-depends-on-process-state" if kind.startswith("one-process") else
                   "C06:restart:files-differ")
        what = (what + "; " if what else "") + f"{diff['file']} line {diff['line']}: {diff['other']!r} vs {diff['ref']!r}"
    if sig is not None:
        if mc_regime(fam) and not straight:
            # ≥ 14 ensembles with wire fencing: idle blocks of more than 12 rows that are not row-constant go to
            # `random_prob` (Monte-Carlo on the scheduler's stream): outside the model (c06_mc), open observation
            c06_mc.judge(ctx, c06_mc.SIG_MC, f"{fam_tag(fam)} {kind} {list(chain)} [{sig}]: {what}", rep)
            return False
        ctx.fail(sig, f"{fam_tag(fam)} {kind} {list(chain)}: {what}", rep)
        return False
    if is_meng(fam):
        # the sequence of engines is comparable where no job is lost at a stop: straight runs and steps-splits
        seq = straight or kind.startswith("steps-") or kind == "restart-after-every-step"
        if not check_engines(ctx, fam, ref, rep, f"{fam_tag(fam)} reference") or \
                not check_engines(ctx, fam, d, rep, f"{fam_tag(fam)} {kind} {list(chain)}", ref=ref if seq else None):
            return False
    return True


# ----------------------------------------------------------------------------- predicates, several workers
def check_multi(ctx, fam, W, policy, kills, d, d2, res, res2):
    rep = {"engine": fam["engine"], "moves": fam["moves"], "mtag": fam["mtag"], "seed": fam["seed"], "N": fam["N"],
           "nintf": fam["nintf"], "delete_old": fam["delete_old"], "cap": fam.get("cap"), "opts": fam.get("opts"), "workers": W,
           "policy": policy, "kind": "multi",
           "chain": list(kills)}
    tag = f"{fam_tag(fam)} W={W} {policy} kills={list(kills)}"
    ctx.count(1, engine=fam["engine"], kind="multi", workers=W, restarts=len(kills))
    ctx.distinct((fam["engine"], fam["mtag"], fam["seed"], fam["N"], W, policy, tuple(kills)))
    for r in (res, res2):
        if not r.get("ok"):
            ctx.fail("C06:run-raised", f"{tag}: {r.get('error')}", dict(rep, trace=r.get("trace")))
            return
    diff = compare_dirs(d, d2, same_path_set=True)
    if diff is not None:
        ctx.fail("C06:determinism:two-runs-differ", f"{tag}: {diff['file']} line {diff['line']}: {diff['other']!r} vs {diff['ref']!r}",
                 dict(rep, first_difference=diff))
    if is_meng(fam):
        check_engines(ctx, fam, d, rep, tag + " run 1")
        check_engines(ctx, fam, d2, rep, tag + " run 2", ref=d)
    log = read_log(d)
    leg_predicates(ctx, fam, W, log, tag, rep)
    if [job_key(s) for s in log if s["ev"] == "submit"] != [job_key(s) for s in read_log(d2) if s["ev"] == "submit"]:
        ctx.fail("C06:determinism:two-runs-differ", f"{tag}: the two runs issued different jobs", rep)
    # split the log into legs
    by_leg = {}
    for ev in log:
        by_leg.setdefault(ev["leg"], []).append(ev)
    expected_recorded = None      # [(slots, paths, ordinal, submit event)] in flight when the last restart file was written
    reissued_prev = []
    for leg in sorted(by_leg):
        evs = by_leg[leg]
        start = evs[0]
        subs = [e for e in evs if e["ev"] == "submit"]
        if leg > 0:
            raw = start.get("recorded_locked") or []
            recorded = [(list(r[0]), [str(p) for p in r[1]]) for r in raw]
            rec_ord = [(int(r[2]) if len(r) > 2 else None) for r in raw]
            # (a) what the stop recorded = the jobs in flight when that restart file was written, with their ordinals
            if expected_recorded is not None:
                want_rec = [(x[0], x[1]) for x in expected_recorded]
                if recorded != want_rec:
                    missing = [x for x in want_rec if x not in recorded]
                    sig = ("C06:restart-chain:reissued-job-not-recorded" if any(x in reissued_prev for x in missing)
                           else "C06:restart:recorded-jobs-differ-from-in-flight")
                    ctx.fail(sig, f"{tag}: restart.toml written before restart {leg} lists locked={recorded}, but in flight were "
                                  f"{want_rec}", dict(rep, restart=leg))
                elif rec_ord != [x[2] for x in expected_recorded]:
                    sig = ("C06:restart:ordinal-not-recorded" if any(o is None for o in rec_ord)
                           else "C06:restart:recorded-ordinals-differ-from-in-flight")
                    ctx.fail(sig, f"{tag}: restart.toml written before restart {leg} records the stream ordinals {rec_ord} for "
                                  f"{recorded}; the jobs in flight had {[x[2] for x in expected_recorded]}", dict(rep, restart=leg))
            # (b) the first jobs issued are exactly the recorded ones, in order, with the streams they had before the stop
            m = min(len(recorded), W, fam["N"] - int(start["recorded_cstep"]))
            ctx.count(m, reissued="jobs")
            for i in range(m):
                es, ps = recorded[i]
                want = ([e - 1 for e in es], [int(p) for p in ps])
                if i >= len(subs) or (subs[i]["ens"], subs[i]["pn"]) != want:
                    got = None if i >= len(subs) else (subs[i]["ens"], subs[i]["pn"])
                    ctx.fail("C06:reissue:jobs-differ-from-recorded", f"{tag}: job {i} after restart {leg} is {got}, recorded {want}",
                             dict(rep, restart=leg))
                    break
                if not subs[i]["slots_ok"]:
                    ctx.fail("C06:reissue:slot-not-locked-with-path", f"{tag}: re-issued job {i} after restart {leg} does not hold "
                                                                      f"its ensemble slot locked with its path", dict(rep, restart=leg))
                if expected_recorded is not None and i < len(expected_recorded):
                    before = expected_recorded[i][3]
                    if (before["streams"], before["eng_streams"]) != (subs[i]["streams"], subs[i]["eng_streams"]):
                        ctx.fail("C06:reissue:stream-differs-from-before-the-stop",
                                 f"{tag}: job {want} re-issued after restart {leg} draws from {subs[i]['streams']} / "
                                 f"{subs[i]['eng_streams']}; before the stop the same job had {before['streams']} / "
                                 f"{before['eng_streams']}", dict(rep, restart=leg))
                if rec_ord[i] is not None:
                    wm = [[fam["seed"], rec_ord[i], j] for j in range(len(want[0]))]
                    we = [[fam["seed"], rec_ord[i], j, 0] for j in range(len(want[0]))]
                    if (subs[i]["streams"], subs[i]["eng_streams"]) != (wm, we):
                        ctx.fail("C06:reissue:stream-not-the-recorded-ordinal",
                                 f"{tag}: job {want} recorded with ordinal {rec_ord[i]} is re-issued with streams "
                                 f"{subs[i]['streams']} / {subs[i]['eng_streams']}", dict(rep, restart=leg))
                lk = [(list(x[0]), list(x[1])) for x in subs[i]["locked"]]
                if (want[0], [str(p) for p in want[1]]) not in lk:
                    ctx.fail("C06:restart-chain:reissued-job-not-recorded",
                             f"{tag}: job {want} re-issued after restart {leg} is not in the sampler's `locked` list ({lk}): "
                             f"the next restart file will not know it", dict(rep, restart=leg))
                else:
                    ent = subs[i]["locked"][lk.index((want[0], [str(p) for p in want[1]]))]
                    o = ent[2] if len(ent) > 2 else None
                    if o != subs[i]["streams"][0][1]:
                        ctx.fail("C06:restart-chain:reissued-job-recorded-with-other-ordinal",
                                 f"{tag}: job {want} re-issued after restart {leg} runs on ordinal {subs[i]['streams'][0][1]} "
                                 f"but is on record with {o}", dict(rep, restart=leg))
            reissued_now = [recorded[i] for i in range(m)]
        else:
            reissued_now = []
        kill = next((e for e in evs if e["ev"] == "kill"), None)
        if kill is None:
            expected_recorded = None
            continue
        # jobs in flight when the last restart file of this leg was written: submitted before the last completion
        pos_last_complete = max((i for i, e in enumerate(evs) if e["ev"] == "complete"), default=-1)
        early = {e["idx"] for i, e in enumerate(evs) if e["ev"] == "submit" and i < pos_last_complete}
        expected_recorded = []
        for sb in subs:
            if sb["idx"] in kill["in_flight"] and sb["idx"] in early:
                expected_recorded.append(([e + 1 for e in sb["ens"]], [str(p) for p in sb["pn"]], sb["streams"][0][1], sb))
        if pos_last_complete < 0:
            expected_recorded = None     # no restart file written in this leg
        reissued_prev = reissued_now
    return


# ----------------------------------------------------------------------------- plans
def plan(ctx):
    rng = ctx.rng
    q = ctx.quick
    fams = []
    extra_seed = rng.randrange(3, 10 ** 6)
    lat_seeds = [0, 1, 2, extra_seed] if q else [0, 1, 2, 3, 4, 5, extra_seed, rng.randrange(10 ** 6, 2 ** 31)]
    N_lat = 12 if q else 20
    for seed in lat_seeds:
        for mtag, moves in (("sh", ["sh"] * 4), ("wf", ["sh", "sh", "wf", "wf"])):
            fams.append({"engine": "lattice", "mtag": mtag, "moves": moves, "seed": seed, "N": N_lat, "nintf": 4,
                         "delete_old": (seed % 2 == 1)})
    if not q:
        for seed in (1, 7):
            fams.append({"engine": "lattice", "mtag": "wf5", "moves": ["sh", "sh", "wf", "sh", "wf"], "seed": seed, "N": 24,
                         "nintf": 5, "delete_old": False})
    # wire-fencing ensembles under an interface cap (weights of re-loaded paths must be computed with the cap too):
    # lattice [sh, sh, wf, wf, sh] with the cap 13/16 between the last wf interface and the last interface,
    # TurtleMD wf.toml with a cap inside its last ensemble
    for seed in ([1, 2] if q else [0, 1, 2, 3, extra_seed]):
        fams.append({"engine": "lattice", "mtag": "wfcap", "moves": ["sh", "sh", "wf", "wf", "sh"], "seed": seed,
                     "N": 14 if q else 20, "nintf": 5, "delete_old": (seed % 2 == 0), "cap": 0.8125})
    # configuration classes the test suite never uses (one worker, every split, chains, crash points):
    #   an order parameter with an extra collective-variable column; integer order values; interfaces exactly ON lattice
    #   values; lambda_minus_one (0.0 = falsy, and negative); quantis with its own [0-] engine; screen 3; delete_old
    #   without delete_old_all
    Lw = {"engine": "lattice", "mtag": "wf", "moves": ["sh", "sh", "wf", "wf"], "nintf": 4, "delete_old": False}
    hard = [("cv2", {"cv2": True}, [2, 3] if q else [2, 3, 12, extra_seed], {}),
            ("int", {"scale": 1.0}, [1] if q else [0, 1], {}),
            ("onintf", {"on_intf": True}, [1] if q else [0, 1, 2], {}),
            ("lm1zero", {"lm1": 0.0}, [1] if q else [0, 1], {}),
            ("lm1neg", {"lm1": -0.375}, [2] if q else [0, 2], {}),
            ("quantis", {"quantis": True}, [1] if q else [0, 1], {"moves": ["sh"] * 4}),
            ("screen3", {"screen": 3}, [1] if q else [0, 1], {}),
            ("delnoall", {"delete_old_all": False}, [1] if q else [0, 1], {"delete_old": True})]
    for tag, opts, seeds, over in hard:
        for seed in seeds:
            fams.append(dict(Lw, mtag=tag, seed=seed, N=10 if q else 16, opts=opts, **over))
    tur = [(0, "wf", TURTLE_MIX), (1, "wf", TURTLE_MIX), (2, "sh", TURTLE_SH)] if q else \
          [(s, t, m) for s in (0, 1, 2, 3) for t, m in (("wf", TURTLE_MIX), ("sh", TURTLE_SH))]
    for seed, mtag, moves in tur:
        fams.append({"engine": "turtle", "mtag": mtag, "moves": moves, "seed": seed, "N": 10 if q else 14, "nintf": 8,
                     "delete_old": (mtag == "wf")})
    if fams:
        for f in fams:
            if f["engine"] == "turtle" and f["mtag"] == "sh":
                f["opts"] = {"screen": 1}       # the repo's own screen value
    for seed, cap in ([(1, -0.1)] if q else [(0, -0.1), (1, -0.1), (0, 0.1), (1, 0.1), (1, 0.0)]):
        fams.append({"engine": "turtle", "mtag": "wfcap", "moves": TURTLE_MIX, "seed": seed, "N": 12, "nintf": 8,
                     "delete_old": True, "cap": cap})
    # several engines per ensemble, in both orders, the engines differing observably (examples/gromacs/H2_multi_engine is
    # the repo's own such input): which engine runs must be the first listed one, whatever the hash seed / process
    meng = {"engine": "lattice", "mtag": "meng", "moves": ["sh", "sh", "wf", "wf", "sh"], "nintf": 5, "delete_old": False,
            "opts": {"multi_eng": True}}
    for seed in ([1] if q else [0, 1, 2, extra_seed]):
        fams.append(dict(meng, seed=seed, N=8 if q else 14))
    multi = []
    lat = {"engine": "lattice", "mtag": "wf", "moves": ["sh", "sh", "wf", "wf"], "nintf": 4, "delete_old": False}
    lat5 = {"engine": "lattice", "mtag": "wf5", "moves": ["sh", "sh", "wf", "sh", "wf"], "nintf": 5, "delete_old": False}
    tu = {"engine": "turtle", "mtag": "wf", "moves": TURTLE_MIX, "nintf": 8, "delete_old": True}
    for seed in ([0, 1, 2] if q else [0, 1, 2, 3, 4, extra_seed]):
        for W, base in ((2, lat), (3, lat), (4, lat5)):
            for policy in ("lifo", f"rand:{rng.randrange(10 ** 9)}", "fifo"):
                N = 14 if q else 22
                k1 = rng.randint(1, N - 8)
                k2 = rng.randint(k1 + 1, N - 5)
                k3 = rng.randint(k2 + 1, N - 2)
                for kills in ((k1,), (k1, k2), (k1, k2, k3)):
                    if q and policy == "fifo" and len(kills) != 2:
                        continue
                    multi.append((dict(base, seed=seed, N=N), W, policy, kills))
            multi.append((dict(lat, seed=seed, N=10), 3, "rand:7", ()))
        # fewer steps left than workers at the restart, and fresh runs shorter than the number of workers
        multi.append((dict(lat, seed=seed, N=12), 3, "lifo", (11,)))
        # a restarted process that dies before its first completion (all its jobs — re-issued and fresh — are lost, the
        # file on disk is still the one of the first stop): the next process re-issues the same record again
        kk = rng.randint(2, 8)
        multi.append((dict(lat, seed=seed, N=12), 3, "lifo", (kk, kk)))
        multi.append((dict(lat5, seed=seed, N=12), 4, "fifo", (kk, kk, kk + 2)))
        multi.append((dict(lat5, seed=seed, N=12), 4, f"rand:{rng.randrange(10 ** 9)}", (5, 10)))
        multi.append((dict(lat, seed=seed, N=2), 3, "fifo", ()))
        multi.append((dict(lat5, seed=seed, N=3), 4, "lifo", (1,)))
    for seed, W in (((1, 3),) if q else ((0, 2), (1, 3), (2, 5), (3, 7))):
        multi.append((dict(tu, seed=seed, N=12), W, "lifo", (3, 6, 9)))
        multi.append((dict(tu, seed=seed, N=12), W, f"rand:{rng.randrange(10 ** 9)}", (4, 8)))
    for seed in ([2] if q else [0, 1, 2, 3]):
        multi.append((dict(meng, seed=seed, N=10), 2, "lifo", (3, 7)))
        if not q:
            multi.append((dict(meng, seed=seed, N=12), 3, f"rand:{rng.randrange(10 ** 9)}", (4, 8)))
    fifo = []
    for seed in ([2] if q else [0, 1, 2]):
        fifo.append((dict(meng, seed=seed, N=8 if q else 10), 2, [2, 5] if q else list(range(1, 10))))
        if not q:
            fifo.append((dict(meng, seed=seed, N=10), 2, list(range(1, 10)), "ord-max"))
    for seed in ([1, 2] if q else [0, 1, 2, 3, extra_seed]):
        for W, base_f, N in ((2, lat, 10), (3, lat, 10), (4, lat5, 12)):
            ks = list(range(1, N)) if not q else sorted({1, N // 2} | set(range(N - W, N)))
            fifo.append((dict(base_f, seed=seed, N=N), W, ks))
    if not q:
        fifo.append((dict(tu, seed=1, N=10), 3, list(range(1, 10))))
    else:
        fifo.append((dict(tu, seed=1, N=8), 3, [3, 6, 7]))
    # completion orders that are functions of the set of jobs in flight (newest first, oldest first, seeded choice):
    # jobs finish out of issue order and the straight and the restarted run still follow the same order, so the byte
    # comparison applies; every split point, chains of two stops
    hseed = rng.randrange(10 ** 9)
    for seed in ([1, 5] if q else [0, 1, 2, 3, 5, extra_seed]):
        for W, base_f, N in ((2, lat, 10), (3, lat, 10)) + (() if q else ((4, lat5, 12),)):
            for policy in ("ord-max", f"ord-hash:{hseed}") + (() if q else ("ord-min",)):
                ks = list(range(1, N)) + [(2, 5), (4, N - 1)]
                fifo.append((dict(base_f, seed=seed, N=N), W, ks, policy))
    for seed in ([5] if q else [1, 5]):
        fifo.append((dict(tu, seed=seed, N=8 if q else 10), 3, [2, 4, 6, 7] if q else list(range(1, 10)), "ord-max"))
        if not q:
            fifo.append((dict(tu, seed=seed, N=10), 2, list(range(1, 10)), f"ord-hash:{hseed}"))
    return fams, multi, fifo


def chains_for(ctx, N):
    rng = ctx.rng
    out = []
    for m in (2, 3):
        for _ in range(1 if ctx.quick else 2):
            out.append(tuple(sorted(rng.sample(range(1, N), m))))
    return out


def step_kinds(ref):
    """what each step of the (one-worker) reference run did: {step: 'acc2' | 'acc' | 'rej'} (acc2 = accepted zero swap:
    two data rows appended in one step)"""
    log = read_log(ref)
    out_by_idx = {e["idx"]: e for e in log if e["ev"] == "outcome"}
    kinds = {}
    for e in log:
        if e["ev"] == "complete" and e["idx"] in out_by_idx:
            o = out_by_idx[e["idx"]]
            kinds[int(e["step"])] = ("acc2" if o["n_ens"] == 2 else "acc") if o["status"] == "ACC" else "rej"
    return kinds


def crash_points(ctx, fam, kinds):
    # a stop inside step 1 before the first restart file exists leaves nothing to restart from: steps >= 2
    steps = sorted(c for c in kinds if c >= 2)
    if not ctx.quick:
        # a torn last row can only be the row being written: accepted steps only
        return [(c, w) for c in steps for w in ("before_toml", "torn", "after_toml")
                if w != "torn" or kinds[c] != "rej"] + [(1, "after_toml")]
    z = [c for c in steps if kinds[c] == "acc2"][:3]
    a = [c for c in steps if kinds[c] == "acc"][:2]
    r = [c for c in steps if kinds[c] == "rej"][:1]
    out = [(c, w) for c in z + a for w in ("before_toml", "torn")] + [(c, "before_toml") for c in r]
    out += [(c, "after_toml") for c in (z[:1] + a[:1])]
    return out


# ----------------------------------------------------------------------------- the run
def run_w1_families(ctx, pool, base, fams, all_splits=True, chains=None, every=True, fresh_one=True, crashes=None,
                    one_process=(), hashseeds=None):
    """phase 1 (independent runs) + phase 2 (runs that start from the snapshots of the reference)"""
    p1, p2, checks = [], [], []
    for fi, fam in enumerate(fams):
        N = fam["N"]
        fb = os.path.join(base, f"f{fi}")
        ref = os.path.join(fb, "A")
        ks = list(range(1, N)) if all_splits is True else list(all_splits)
        fam_chains = chains(fam) if callable(chains) else (chains or [])
        snaps = sorted(set(ks) | {c[0] for c in fam_chains})
        p1.append({"name": f"{fi}:A", "ops": [{"op": "prepare", "dir": ref, "engine": fam["engine"], "cfg": fam_cfg(fam)},
                                              {"op": "leg", "dir": ref, "input": "infretis.toml", "snap": snaps, "leg": 0}]})
        d = os.path.join(fb, "A2")
        p1.append({"name": f"{fi}:twice", "ops": [{"op": "prepare", "dir": d, "engine": fam["engine"], "cfg": fam_cfg(fam)},
                                                  {"op": "leg", "dir": d, "input": "infretis.toml", "leg": 0}]})
        checks.append((fam, ref, d, "twice", (), len(p1) - 1, 1))
        for k in ks:
            d = os.path.join(fb, f"S{k}")
            p1.append({"name": f"{fi}:S{k}", "ops": steps_chain_ops(d, fam, (k,))})
            checks.append((fam, ref, d, "steps-split", (k,), len(p1) - 1, 1))
            d = os.path.join(fb, f"K{k}")      # the snapshots themselves stay untouched (several runs start from them)
            p2.append({"name": f"{fi}:K{k}", "ops": [{"op": "copy", "src": f"{ref}.snap{k}", "dst": d},
                                                     {"op": "leg", "dir": d, "input": "restart.toml", "leg": 1}]})
            checks.append((fam, ref, d, "kill-split", (k,), len(p2) - 1, 2))
        for ci, ch in enumerate(fam_chains):
            d = os.path.join(fb, f"CS{ci}")
            p1.append({"name": f"{fi}:CS{ci}", "ops": steps_chain_ops(d, fam, ch)})
            checks.append((fam, ref, d, "steps-chain", ch, len(p1) - 1, 1))
            d = os.path.join(fb, f"CK{ci}")
            p2.append({"name": f"{fi}:CK{ci}", "ops": kill_chain_ops(d, f"{ref}.snap{ch[0]}", fam, ch)})
            checks.append((fam, ref, d, "kill-chain", ch, len(p2) - 1, 2))
        if every:
            d = os.path.join(fb, "EV")
            ch = tuple(range(1, N))
            p1.append({"name": f"{fi}:EV", "ops": steps_chain_ops(d, fam, ch)})
            checks.append((fam, ref, d, "restart-after-every-step", ch, len(p1) - 1, 1))
        if one_process and fi in one_process and N >= 4:
            # module-level state (tis.ENGINES, enginebase.counter, logging handlers): two runs in ONE process, and a
            # stop + restart in ONE process (what the repo's own test does), must give the files of fresh processes
            d1, d2 = os.path.join(fb, "P1"), os.path.join(fb, "P2")
            p1.append({"name": f"{fi}:P", "ops": [
                {"op": "prepare", "dir": d1, "engine": fam["engine"], "cfg": fam_cfg(fam)},
                {"op": "prepare", "dir": d2, "engine": fam["engine"], "cfg": fam_cfg(fam)},
                {"op": "legs1p", "legs": [{"op": "leg", "dir": d1, "input": "infretis.toml", "leg": 0},
                                          {"op": "leg", "dir": d2, "input": "infretis.toml", "leg": 0}]}]})
            checks.append((fam, ref, d1, "one-process-first-run", (), len(p1) - 1, 1))
            checks.append((fam, ref, d2, "one-process-second-run", (), len(p1) - 1, 1))
            k = N // 2
            d3 = os.path.join(fb, "P3")
            p1.append({"name": f"{fi}:P3", "ops": [
                {"op": "prepare", "dir": d3, "engine": fam["engine"], "cfg": fam_cfg(fam, steps=k)},
                {"op": "legs1p", "legs": [{"op": "leg", "dir": d3, "input": "infretis.toml", "leg": 0},
                                          {"op": "leg", "dir": d3, "input": "restart.toml", "set_steps": N, "leg": 1}]}]})
            checks.append((fam, ref, d3, "one-process-steps-split", (k,), len(p1) - 1, 1))
        if fresh_one and fi == 0 and ks:
            k = ks[len(ks) // 2]
            d = os.path.join(fb, "FR")
            p1.append({"name": f"{fi}:FR", "ops": steps_chain_ops(d, fam, (k,), fresh=True)})
            checks.append((fam, ref, d, "steps-split-new-interpreter", (k,), len(p1) - 1, 1))
        if hashseeds and fi in hashseeds:
            # sources of run-to-run variation outside the seed: string-hash randomisation (iteration order of sets and
            # of dicts keyed by str), the working directory, the pid — a straight run and a split run in brand-new
            # interpreters with PYTHONHASHSEED fixed to different values, each in a directory of its own
            for hs in hashseeds[fi]:
                d = os.path.join(fb, f"H{hs}", "deeper", "dir")
                p1.append({"name": f"{fi}:H{hs}", "ops": [
                    {"op": "prepare", "dir": d, "engine": fam["engine"], "cfg": fam_cfg(fam)},
                    {"op": "leg", "dir": d, "input": "infretis.toml", "leg": 0, "fresh": True, "hashseed": hs}]})
                checks.append((fam, ref, d, f"twice-hashseed-{hs}", (), len(p1) - 1, 1))
            if N >= 3:
                hs = hashseeds[fi][-1]
                k = N // 2
                d = os.path.join(fb, f"HS{hs}")
                ops = steps_chain_ops(d, fam, (k,), fresh=True)
                hcyc = list(hashseeds[fi])[::-1]
                for j, o in enumerate(ops):
                    if o["op"] == "leg":
                        o["hashseed"] = hcyc[j % len(hcyc)] if is_meng(fam) else hs + j
                p1.append({"name": f"{fi}:HS{hs}", "ops": ops})
                checks.append((fam, ref, d, f"steps-split-hashseed-{hs}", (k,), len(p1) - 1, 1))
    # heavier scenarios first
    r1 = pool.map(p1)
    # stops at the effect boundaries inside treat_output (data rows appended / restart file replaced / torn last row):
    # the steps are chosen from what the reference run did there (accepted zero swap = two rows, accepted, rejected)
    if crashes is not None:
        for fi, fam in enumerate(fams):
            fb = os.path.join(base, f"f{fi}")
            ref = os.path.join(fb, "A")
            kinds = step_kinds(ref)
            for (c, where) in (crashes(fam, kinds) if callable(crashes) else crashes):
                ctx.hit(f"crash_step={kinds.get(c, '?')}:{where}")
                d = os.path.join(fb, f"X{c}{where}")
                p2.append({"name": f"{fi}:X{c}{where}", "ops": [
                    {"op": "prepare", "dir": d, "engine": fam["engine"], "cfg": fam_cfg(fam)},
                    {"op": "leg", "dir": d, "input": "infretis.toml", "leg": 0, "crash": {"step": c, "where": where}},
                    {"op": "leg", "dir": d, "input": "restart.toml", "leg": 1}]})
                checks.append((fam, ref, d, f"crash-{where}", (c,), len(p2) - 1, 2))
    r2 = pool.map(p2)
    ok_ref = {}
    for i, sc in enumerate(p1):
        if sc["name"].endswith(":A"):
            ok_ref[sc["ops"][0]["dir"]] = r1[i]
    good = 0
    for fam, ref, d, kind, chain, idx, phase in checks:
        rr = ok_ref[ref]
        if not rr.get("ok"):
            ctx.fail("C06:run-raised", f"{fam_tag(fam)} reference run: {rr.get('error')}",
                     {"engine": fam["engine"], "moves": fam["moves"], "mtag": fam["mtag"], "seed": fam["seed"], "N": fam["N"],
                      "nintf": fam["nintf"], "delete_old": fam["delete_old"], "cap": fam.get("cap"), "workers": 1,
                      "kind": "twice", "chain": [],
                      "trace": rr.get("trace")})
            continue
        res = (r1 if phase == 1 else r2)[idx]
        good += 1 if check_w1(ctx, fam, ref, d, kind, chain, res) else 0
    return good, len(checks)


def run_multi_fifo(ctx, pool, base, groups):
    groups = [(g[0], g[1], g[2], (g[3] if len(g) > 3 else 'fifo')) for g in groups]
    """several workers, completion order fifo: the restart re-issues the recorded jobs with their own streams and
    re-picks the lost one from the restored stream position, so the restarted run is byte-identical to the straight one.
    groups = [(fam, W, [k, ...])]; every k incl. the last ones (fewer steps left than workers)."""
    scs, checks = [], []
    for gi, (fam, W, ks, policy) in enumerate(groups):
        ref = os.path.join(base, f"g{gi}ref")
        hp = hash_pair() if is_meng(fam) else None
        scs.append({"name": f"g{gi}ref", "ops": multi_ops(ref, fam, W, policy, (), hs=hp and (hp[0],))})
        ref_i = len(scs) - 1
        for k in ks:
            kk = tuple(k) if isinstance(k, (list, tuple)) else (k,)
            d = os.path.join(base, f"g{gi}k{'_'.join(map(str, kk))}")
            scs.append({"name": os.path.basename(d), "ops": multi_ops(d, fam, W, policy, kk, hs=hp and (hp[1], hp[0]))})
            checks.append((fam, W, kk, policy, ref, ref_i, d, len(scs) - 1))
    res = pool.map(scs)
    for fam, W, kk, policy, ref, ref_i, d, di in checks:
        k = kk[-1]
        rep = {"engine": fam["engine"], "moves": fam["moves"], "mtag": fam["mtag"], "seed": fam["seed"], "N": fam["N"],
               "nintf": fam["nintf"], "delete_old": fam["delete_old"], "cap": fam.get("cap"), "opts": fam.get("opts"),
               "workers": W, "policy": policy, "kind": "multi-fifo-split", "chain": list(kk)}
        tag = f"{fam_tag(fam)} W={W} {policy} split after step {list(kk)}"
        ctx.count(1, engine=fam["engine"], kind="multi-straight-vs-restarted", workers=W, order=policy.split(":")[0],
                  steps_left=("<workers" if fam["N"] - k < W else ">=workers"))
        ctx.distinct((fam["engine"], fam["mtag"], fam["seed"], fam["N"], W, policy, kk))
        for r in (res[ref_i], res[di]):
            if not r.get("ok"):
                ctx.fail("C06:run-raised", f"{tag}: {r.get('error')}", dict(rep, trace=r.get("trace")))
                break
        else:
            leg_predicates(ctx, fam, W, read_log(d), tag, rep)
            if is_meng(fam):
                check_engines(ctx, fam, ref, rep, tag + " (straight run)")
                check_engines(ctx, fam, d, rep, tag)
            # the jobs of the two runs, by the ordinal of their random stream (with out-of-order completion a re-issued
            # job appears later in the restarted run's log than in the straight run's)
            a = sorted(effective_submits(read_log(ref)), key=lambda x: (x["streams"][0][1], x["ens"], x["pn"]))
            b = sorted(effective_submits(read_log(d)), key=lambda x: (x["streams"][0][1], x["ens"], x["pn"]))
            ka, kb = [job_key(x) for x in a], [job_key(x) for x in b]
            diff = compare_dirs(ref, d, same_path_set=not fam["delete_old"], exact_orderp=(fam["engine"] == "lattice"))
            if ka != kb:
                i = next((i for i, (x, y) in enumerate(zip(ka, kb)) if x != y), min(len(ka), len(kb)))
                extra = [(x["ens"], x["pn"]) for x in b[len(a):]]
                ords_b = [x["streams"][0][1] for x in b]
                sig = ("C06:restart:jobs-issued-that-the-straight-run-never-issued" if len(kb) > len(ka) and ka == kb[:len(ka)]
                       else "C06:restart:stream-ordinal-reused" if len(set(ords_b)) < len(ords_b)
                       else "C06:restart:different-job-picked")
                ctx.fail(sig, f"{tag}: {len(a)} jobs in one go, {len(b)} with the restart (first difference at job {i}"
                              f"{', extra jobs ' + str(extra) if extra else ''})"
                              + (f"; {diff['file']} line {diff['line']}: {diff['other']!r} vs {diff['ref']!r}" if diff else ""),
                         dict(rep, first_differing_job=i, first_difference=diff))
            elif diff is not None:
                ctx.fail("C06:restart:files-differ", f"{tag}: {diff['file']} line {diff['line']}: {diff['other']!r} vs "
                                                     f"{diff['ref']!r}", dict(rep, first_difference=diff))


def leg_predicates(ctx, fam, W, log, tag, rep):
    """per leg of a run with restarts, on the REAL code: the initiation after a (re)start issues exactly
    min(workers, steps left) jobs; a run that finished leaves no job in flight in its restart file"""
    by_leg = {}
    for ev in log:
        by_leg.setdefault(ev["leg"], []).append(ev)
    for leg, evs in sorted(by_leg.items()):
        start = evs[0]
        cstep0 = int(start.get("recorded_cstep") or 0) if leg > 0 else 0
        n_init = 0
        for e in evs[1:]:
            if e["ev"] in ("complete", "kill", "leg-end"):
                break
            if e["ev"] == "submit":
                n_init += 1
        want = min(W, fam["N"] - cstep0)
        if n_init != want:
            recorded = start.get("recorded_locked") or []
            ctx.fail("C06:reissue:initiation-issues-other-than-min-workers-steps-left",
                     f"{tag}: (re)start {leg} at cstep {cstep0} of {fam['N']} with {W} workers issued {n_init} jobs before the "
                     f"first result, {want} are due (recorded in flight: {recorded})", dict(rep, restart=leg))
        if any(e["ev"] == "leg-end" and e.get("how") == "finished" for e in evs):
            fl = evs[-1].get("final_locked")
            if fl:
                ctx.fail("C06:restart:finished-run-leaves-jobs-in-flight",
                         f"{tag}: the run finished (leg {leg}) but its restart.toml lists in-flight jobs {fl}",
                         dict(rep, restart=leg))


def run_dropped(ctx, pool, base, cases):
    """a restart that cannot re-issue everything on record (fewer steps left than records), then the run goes on with a
    larger step count and is stopped and restarted again.  Byte equality with a straight run is not promised here (no
    straight run has such a restart); what must hold: the chain is deterministic (run twice), the restart file carries
    `current.spawned` exactly when records were dropped — with the value cstep + len(locked) + #dropped — and no job
    ever gets the stream ordinal of an earlier job.   cases = [(fam, W, policy, k, N2, k2)]"""
    scs = []
    for i, (fam, W, policy, k, N2, k2) in enumerate(cases):
        for r in (1, 2):
            d = os.path.join(base, f"d{i}r{r}")
            scs.append({"name": f"d{i}r{r}", "ops": [
                {"op": "prepare", "dir": d, "engine": fam["engine"], "cfg": fam_cfg(fam, workers=W)},
                {"op": "leg", "dir": d, "input": "infretis.toml", "kill_at": k, "policy": policy, "leg": 0},
                {"op": "leg", "dir": d, "input": "restart.toml", "set_steps": k + 1, "policy": policy, "leg": 1},
                {"op": "leg", "dir": d, "input": "restart.toml", "set_steps": N2, "kill_at": k2, "policy": policy, "leg": 2},
                {"op": "leg", "dir": d, "input": "restart.toml", "policy": policy, "leg": 3}]})
    res = pool.map(scs)
    for i, (fam, W, policy, k, N2, k2) in enumerate(cases):
        d, d2 = os.path.join(base, f"d{i}r1"), os.path.join(base, f"d{i}r2")
        rep = {"engine": fam["engine"], "moves": fam["moves"], "mtag": fam["mtag"], "seed": fam["seed"], "N": fam["N"],
               "nintf": fam["nintf"], "delete_old": fam["delete_old"], "cap": fam.get("cap"), "opts": fam.get("opts"),
               "workers": W, "policy": policy, "kind": "dropped-record-chain", "chain": [k, N2, k2]}
        tag = f"{fam_tag(fam)} W={W} {policy} stop after {k}, one more step, on to {N2}, stop after {k2}"
        ctx.count(1, engine=fam["engine"], kind="dropped-record-chain", workers=W)
        ctx.distinct((fam["engine"], fam["mtag"], fam["seed"], W, policy, k, N2, k2, "dropped"))
        bad = [r for r in (res[2 * i], res[2 * i + 1]) if not r.get("ok")]
        if bad:
            ctx.fail("C06:run-raised", f"{tag}: {bad[0].get('error')}", dict(rep, trace=bad[0].get("trace")))
            continue
        diff = compare_dirs(d, d2, same_path_set=True)
        if diff is not None:
            ctx.fail("C06:determinism:two-runs-differ", f"{tag}: {diff['file']} line {diff['line']}: {diff['other']!r} vs "
                                                        f"{diff['ref']!r}", dict(rep, first_difference=diff))
        log = read_log(d)
        by_leg = {}
        for ev in log:
            by_leg.setdefault(ev["leg"], []).append(ev)
        dropped = 0
        steps_of_leg = {0: fam["N"], 1: k + 1, 2: N2, 3: N2}
        for leg in sorted(by_leg):
            start = by_leg[leg][0]
            if leg > 0:
                rec_l = start.get("recorded_locked") or []
                c0 = int(start.get("recorded_cstep") or 0)
                key = start.get("recorded_spawned")
                want = None if dropped == 0 else c0 + len(rec_l) + dropped
                if key != want:
                    ctx.fail("C06:restart:spawned-key-wrong",
                             f"{tag}: the restart file read by restart {leg} has current.spawned = {key}; cstep {c0}, "
                             f"{len(rec_l)} jobs on record, {dropped} records dropped so far: expected {want}",
                             dict(rep, restart=leg))
                dropped += len(rec_l) - min(len(rec_l), W, steps_of_leg[leg] - c0)
        ctx.hit(f"records_dropped={dropped}")
        ords = [x["streams"][0][1] for x in effective_submits(log)]
        if len(set(ords)) != len(ords):
            dup = sorted({o for o in ords if ords.count(o) > 1})
            ctx.fail("C06:restart-chain:stream-ordinal-reused", f"{tag}: the stream ordinals {dup} were handed to two "
                                                                f"different jobs (ordinals in issue order: {ords})", rep)


def run_multi(ctx, pool, base, multi):
    scs = []
    for i, (fam, W, policy, kills) in enumerate(multi):
        for r in (1, 2):
            d = os.path.join(base, f"m{i}r{r}")
            # several engines per ensemble: the two runs (and the legs of each) under hash seeds that order the engine
            # names differently, in brand-new interpreters
            hs = None
            if is_meng(fam):
                a, b = hash_pair()
                hs = (a, b) if r == 1 else (b, a)
            scs.append({"name": f"m{i}r{r}", "ops": multi_ops(d, fam, W, policy, kills, hs=hs)})
    res = pool.map(scs)
    for i, (fam, W, policy, kills) in enumerate(multi):
        check_multi(ctx, fam, W, policy, kills, os.path.join(base, f"m{i}r1"), os.path.join(base, f"m{i}r2"),
                    res[2 * i], res[2 * i + 1])


def _frac_map(txt):
    out = {}
    for part in (txt or "").split(";"):
        if part:
            k, v = part.split(":", 1)
            out[k] = [float(x) for x in v.split(",") if x != ""]
    return out


def _frac_same(a, b):
    """fractions as finite maps; the restart file holds them as decimal strings of long doubles, so a reloaded value
    may differ from the in-memory one in the last place of a double: compared to 1e-9 relative (as repex_tie does)"""
    fa, fb = _frac_map(a), _frac_map(b)
    if set(fa) != set(fb):
        return False
    for k in fa:
        if len(fa[k]) != len(fb[k]):
            return False
        for x, y in zip(fa[k], fb[k]):
            if abs(x - y) > 1e-9 * max(1.0, abs(x), abs(y)):
                return False
    return True


def reissue_in_place(ctx, prev, sm, W, steps, label, rep):
    snaps_prev, snaps = getattr(prev, "snaps", None) or [], getattr(sm, "snaps", None) or []
    if not snaps_prev or snaps_prev[-1][0] != "treat" or prev.error is not None:
        return
    d0 = snaps_prev[-1][1]
    img = prev.image or {}
    nrec = len(img.get("locked", []))
    m = min(nrec, W, steps - int(img.get("cstep", 0)))
    loaded = [x for x in snaps if x[0] == "loaded"]
    preps = [x for x in snaps if x[0] == "prep"]
    if not loaded or not isinstance(d0, dict) or not isinstance(loaded[0][1], dict):
        return
    dl = loaded[0][1]
    ctx.count(1, kind="restore-slots", workers=W, records=("0" if nrec == 0 else "1" if nrec == 1 else ">1"))
    n = len(dl["locks"])
    for key in ("W", "trajs"):
        if dl[key] != d0[key]:
            ctx.fail("C06:restore:slots-differ-from-stop", f"{label}: after load_paths from the restart file `{key}` is "
                     f"{dl[key]!r}, at the stop it was {d0[key]!r}", rep)
            return
    if dl["locks"] != "0" * (n - 1) + "1" or dl["locked"] != "":
        ctx.fail("C06:restore:slots-not-free-after-load", f"{label}: locks {dl['locks']!r} locked {dl['locked']!r} after load_paths",
                 rep)
        return
    if not _frac_same(dl["frac"], d0["frac"]):
        ctx.fail("C06:restore:fractions-differ-from-stop", f"{label}: {dl['frac']!r} vs {d0['frac']!r}", rep)
        return
    if m != nrec or m == 0 or len(preps) < m or not isinstance(preps[m - 1][1], dict):
        return
    dr = preps[m - 1][1]
    ctx.count(1, kind="reissue-in-place", workers=W, records=("1" if nrec == 1 else ">1"))
    for key in ("W", "trajs", "locks", "locked", "lockedord", "cstep", "trajnum"):
        if dr[key] != d0[key]:
            ctx.fail("C06:reissue:not-in-place", f"{label}: after the {m} re-issues `{key}` is {dr[key]!r}, at the stop it was "
                     f"{d0[key]!r}", rep)
            return
    if dr["rng"].split(":")[:2] != d0["rng"].split(":")[:2]:
        ctx.fail("C06:reissue:spawn-counter-or-entropy-moved", f"{label}: entropy:spawned {dr['rng']} after the re-issues, "
                 f"{d0['rng']} at the stop", rep)
        return
    if not _frac_same(dr["frac"], d0["frac"]):
        ctx.fail("C06:reissue:not-in-place", f"{label}: fractions {dr['frac']!r} vs {d0['frac']!r}", rep)
        return
    want = [[(int(e), int(dd["pn_old"])) for e, dd in md["picked"].items()] for md in (prev.inflight_end or [])]
    got = [[(int(e), int(pn)) for e, pn in h[1]] for h in preps[m - 1][2]]
    if want != got:
        ctx.fail("C06:reissue:jobs-differ-from-in-flight", f"{label}: jobs after the re-issues {got}, in flight at the stop {want}",
                 rep)


def multi_engine_model(ctx, shapes):
    """ensembles that list several engines, on the real REPEX_state against the Lean state machine (Repex.prep: `engIdx` =
    the ensemble's own engine list in configuration order, each with the instance `assign_engines` claimed): the key
    order of the real `eng_idx` dicts — the order `select_shoot` reads, the first entry runs the move — is compared with
    the driver's answer, and judged directly: it must be the configuration order."""
    import copy
    outs = []
    for (n_ens, W, steps, seed) in shapes:
        label = f"multi-engine n_ens={n_ens} workers={W} steps={steps} seed={seed} ctxseed={ctx.seed}"
        rep = {"kind": "multi-engine-prep", "params": [n_ens, W, steps, seed], "ctxseed": ctx.seed}
        rng = random.Random(label)
        sim = T.Sim(ctx, n_ens, W, steps, seed=seed, wf=True, eng_types=2, rng=rng)
        try:
            names = sim.eng_names
            pat = [[names[0]], [names[0], names[1]], [names[1], names[0]], [names[1]], [names[0], names[1]]]
            ens_engs = [list(pat[i % len(pat)]) for i in range(n_ens)]
            sim.cfg["simulation"]["ensemble_engines"] = ens_engs
            counts = {k: sum(1 for e in ens_engs if k in e) for k in names}
            sim.st.engine_occ = {k: [-1] * min(counts[k], W) for k in names}
            for i, line in enumerate(sim.lines):
                if line.startswith("occ "):
                    sim.lines[i] = "occ " + T.lst([len(sim.st.engine_occ[k]) for k in names])
                elif line.startswith("enseng "):
                    sim.lines[i] = f"enseng {n_ens} " + " ".join(T.lst([names.index(e) for e in ee]) for ee in ens_engs)
            bad = None

            def judge(md):
                for ens_num, d in md["picked"].items():
                    got, want = list(d["eng_idx"].keys()), ens_engs[ens_num + 1]
                    if got != want:
                        return (ens_num, got, want)
                return None

            inflight = []
            try:
                sim.load_initial()
                base = {"mc_moves": sim.st.mc_moves, "interfaces": sim.st.interfaces, "cap": None}
                while sim.op_initiate():
                    md = sim.op_prep(copy.deepcopy(base))
                    inflight.append(md)
                    bad = bad or judge(md)
                while sim.op_loop():
                    md = inflight.pop(rng.randrange(len(inflight)))
                    status = "ACC" if rng.random() < 0.7 else "REJ"
                    md = sim.op_treat(md, status, sim.random_new_weights(md, rng))
                    if sim.st.cstep + sim.st.workers <= sim.st.tsteps:
                        md = sim.op_prep(md)
                        inflight.append(md)
                        bad = bad or judge(md)
            except Exception as e:  # noqa: BLE001
                ctx.fail("C06:model-shape:sampler-raised", f"{label}: {type(e).__name__}: {e}", rep)
            ctx.count(1, kind="multi-engine-prep", workers=W)
            if bad is not None:
                ctx.fail("C06:engine-choice:eng_idx-order-not-configuration-order",
                         f"{label}: ensemble {bad[0]} lists the engines {bad[2]} but the job's eng_idx has them as {bad[1]} — "
                         f"select_shoot runs the first entry; the model (Repex.prep) says {bad[2][0]}", rep)
        finally:
            sim.close()
        outs.append((sim, label))
    if ctx._driver_ok and outs:
        answers = ctx.driver([l for sm, _ in outs for l in sm.lines])
        pos = 0
        for sm, label in outs:
            T.compare(ctx, sm, answers[pos:pos + len(sm.lines)], label)
            pos += len(sm.lines)


def model_side(ctx, shapes):
    """real REPEX_state with scripted outcomes vs the Lean state machine, same (n, W, restart chain) shapes"""
    outs = []
    for (n_ens, W, steps, seed, wf, restarts) in shapes:
        label = f"n_ens={n_ens} workers={W} steps={steps} seed={seed} wf={wf} restarts={list(restarts)} ctxseed={ctx.seed}"
        sim = T.run_history(ctx, n_ens, W, steps, seed=seed, wf=wf, restarts=tuple(restarts), rng=random.Random(label))
        chain = sim.previous + [sim]
        for a, b in zip(chain, chain[1:]):
            sa = getattr(a, "snaps", None) or []
            if a.error is None and sa and sa[-1][0] == "treat" and a.image is not None:
                a._c06_next = (b,)
        for sm in chain:
            if sm.error is not None:
                ctx.fail("C06:model-shape:sampler-raised", f"{label}: {type(sm.error).__name__}: {sm.error}",
                         {"kind": "model-shape", "params": [n_ens, W, steps, seed, wf, list(restarts)], "ctxseed": ctx.seed})
            outs.append((sm, label))
        # what a restart re-issues, on the real REPEX_state: the first prep answers of a segment = recorded image
        for prev, sm in zip(chain, chain[1:]):
            img = prev.image or {}
            rec = [([int(e) - 1 for e in r[0]], [int(p) for p in r[1]]) for r in img.get("locked", [])]
            preps = [r for r, k in zip(sm.real, sm.kinds) if k == "prep"]
            for i, want in enumerate(rec[:min(len(rec), W, steps - int(img.get("cstep", 0)))]):
                got = None
                if i < len(preps) and not preps[i].startswith("err"):
                    pk = preps[i].split(" picked=")[1].split(";")
                    got = ([int(p.split("/")[0]) for p in pk], [int(p.split("/")[1]) for p in pk])
                if got != want:
                    ctx.fail("C06:reissue:jobs-differ-from-recorded", f"{label}: job {i} after a restart is {got}, recorded {want}",
                             {"kind": "model-shape", "params": [n_ens, W, steps, seed, wf, list(restarts)], "ctxseed": ctx.seed})
        # `reissue_in_place` / `RestoreRelM` / `StopM` (Props/C06 10, 11) judged on the real REPEX_state: what the restart
        # rebuilds has the slots of the stop (same W rows, same path per slot, everything unlocked but the ghost), and once
        # the initiation loop has re-issued the whole record the sampler is the stopped one again: W, slot order, locks,
        # `locked` with the same ordinals, counters, entropy and spawn counter, fractions — and the jobs handed out are the
        # jobs that were in flight, in order.
        for prev, sm in zip(chain, chain[1:]):
            reissue_in_place(ctx, prev, sm, W, steps, label,
                             {"kind": "model-shape", "params": [n_ens, W, steps, seed, wf, list(restarts)], "ctxseed": ctx.seed})
        ctx.count(1, kind="model-shape", workers=W, restarts=len(restarts))
    if ctx._driver_ok:
        # every segment starts with `init`, which resets the driver's state: one driver process for all of them.
        # A segment that ended at a stop (last op: the `treat_output` that wrote the restart file) is followed by the
        # request `restorenow`: the driver answers the state its OWN `restoreNow (persist s)` rebuilds — the function every
        # restart theorem of Props/C06 is about — which must be what the real restart (REPEX_state.__init__ with set_rgen
        # + the load_paths sequence, from the REAL restart.toml) built: `restore_vs_real`.
        nxt = {}
        for (a, _), (b, lb) in zip(outs, outs[1:]):
            if b in (a.__dict__.get("_c06_next") or ()):
                nxt[id(a)] = b
        batch, spans = [], []
        for sm, label in outs:
            extra = ["image", "restorenow"] if id(sm) in nxt else []
            spans.append((len(batch), len(sm.lines), bool(extra)))
            batch += list(sm.lines) + extra
        answers = ctx.driver(batch)
        for (sm, label), (pos, n, has) in zip(outs, spans):
            bad = T.compare(ctx, sm, answers[pos:pos + n], label)
            if has and not bad:
                image_vs_file(ctx, answers[pos + n], sm, label)
                restore_vs_real(ctx, answers[pos + n + 1], sm, nxt[id(sm)], label)
    else:
        ctx.extra["model_side"] = "driver not available"
    return len(outs)


def image_vs_file(ctx, model_ans, sm, label):
    """the model's `persist s` at a stop against the [current] table of the REAL restart.toml that `treat_output` wrote"""
    cur = sm.image or {}
    md = T.parse_dump(model_ans)
    ctx.count(1, kind="image-model-vs-file", workers=sm.workers)
    locked = cur.get("locked") or []
    real = {"active": ",".join(str(a) for a in cur.get("active", [])),
            "locked": ";".join(",".join(str(int(e)) for e in t[0]) + ":" + ",".join(str(int(p)) for p in t[1]) for t in locked),
            "lockedord": ",".join(str(int(t[2])) for t in locked if len(t) > 2),
            "cstep": str(cur.get("cstep")), "trajnum": str(cur.get("traj_num")),
            "spawnedrec": str(cur.get("spawned", "-")), "seed": str(sm.cfg["simulation"]["seed"])}
    case = {"history": label, "op": "image (model: persist s) vs the restart.toml on disk"}
    for k, rv in real.items():
        if md.get(k, "<missing>") != rv:
            ctx.disagree(dict(case, field=k), rv, md.get(k))
            return
    # fractions: the file holds them keyed by path number (as a map), decimal strings of long doubles
    rf = {str(k): [float(x) for x in v] for k, v in (cur.get("frac") or {}).items()}
    mf = {}
    for part in (md.get("frac") or "").split(";"):
        if part:
            k, v = part.split(":", 1)
            mf[k] = v.split(",")
    if set(rf) != set(mf) or any(len(rf[k]) != len(mf[k]) or not all(T._num_eq(repr(a), b) for a, b in zip(rf[k], mf[k]))
                                 for k in rf):
        ctx.disagree(dict(case, field="frac"), cur.get("frac"), md.get("frac"))


RESTORE_KEYS = ("W", "trajs", "locks", "locked", "locked0", "toinit", "cstep", "trajnum", "frac", "occ", "lockedord")


def restore_vs_real(ctx, model_ans, sm_prev, sm_next, label):
    """the model's `restoreNow (persist s)` of the stopped state against the REAL state right after the real restart
    (first snapshot of the next segment: REPEX_state.__init__ + load_paths sequence from the real restart.toml)"""
    snaps = getattr(sm_next, "snaps", None) or []
    loaded = [x for x in snaps if x[0] == "loaded"]
    if not loaded or not isinstance(loaded[0][1], dict):
        return
    real = loaded[0][1]
    ctx.count(1, kind="restore-model-vs-real", workers=sm_next.workers)
    case = {"history": label, "op": "restorenow (model: restoreNow (persist s)) vs real restart from restart.toml"}
    if model_ans.startswith("err"):
        ctx.disagree(case, "restart loaded", model_ans)
        return
    md = T.parse_dump(model_ans)
    for k in RESTORE_KEYS:
        if not T.field_eq(k, real.get(k, "<missing>"), md.get(k, "<missing>")):
            ctx.disagree(dict(case, field=k), real.get(k), md.get(k))
            return
    if real["rng"].split(":")[:2] != md["rng"].split(":")[:2]:
        ctx.disagree(dict(case, field="rng entropy:spawned"), real["rng"], md["rng"])
        return
    # recorded ordinals as `pick_lock` will read them (third component of config.current.locked)
    want = ",".join(str(int(e[2])) if len(e) > 2 else "-" for e in ((sm_prev.image or {}).get("locked") or []))
    if md.get("locked0ord", "") != want:
        ctx.disagree(dict(case, field="locked0ord"), want, md.get("locked0ord"))
        return
    if md.get("restarted") != "true" or md.get("rgenrestored") != "false":
        ctx.disagree(dict(case, field="restarted/rgenrestored"), "true/false", f"{md.get('restarted')}/{md.get('rgenrestored')}")


def run(ctx):
    ctx.rule = ("one evaluation = one complete restarted (or repeated) real run compared byte for byte with its reference "
                "(data file, restart file, every stored order/energy/traj file) plus the issued-job sequences; "
                "for several workers one evaluation = one chain of killed-and-restarted runs (run twice) with the re-issue "
                "predicates, plus one per re-issued job; distinct = distinct (engine, moves, seed, N, kind of stop, split chain "
                "/ workers, completion order)")
    fams, multi, fifo = plan(ctx)
    base = tempfile.mkdtemp(prefix="vp-c06-", dir=SCRATCH)
    pool = legs.LegPool(NPROC)
    try:
        # heavy (TurtleMD) families first so that the pool stays busy
        fams.sort(key=lambda f: 0 if f["engine"] == "turtle" else 1)
        plain = [fi for fi, f in enumerate(fams) if not is_meng(f)]
        hseeds = {plain[0]: (1, 4242)} if plain else {}
        if len(plain) > 1:
            hseeds[plain[-1]] = (7, 90001)
        hseeds.update({fi: hash_pair() for fi, f in enumerate(fams) if is_meng(f)})
        good, total = run_w1_families(ctx, pool, os.path.join(base, "w1"), fams, all_splits=True,
                                      chains=lambda fam: chains_for(ctx, fam["N"]),
                                      every=True, crashes=lambda fam, kinds: crash_points(ctx, fam, kinds),
                                      one_process=(0, len(fams) - 1),
                                      hashseeds=hseeds)
        ctx.extra["one_worker_runs_identical"] = f"{good}/{total}"
        ctx.extra["turtle_maxop_last_digit_lines_forgiven"] = ROUNDED["lines"]
        if not ctx.quick:
            # thorough tier only (Monte-Carlo P: ~15 s per run): the end-to-end witness of the open observation
            # c06_mc.SIG_MC — real scheduler, lattice engine, 15 interfaces; differences are recorded as pending
            big = {"engine": "lattice", "mtag": "wfbig", "moves": ["sh", "sh"] + ["wf"] * 13, "seed": 3, "N": 16, "nintf": 15,
                   "delete_old": False}
            run_w1_families(ctx, pool, os.path.join(base, "w1mc"), [big], all_splits=[8, 14], chains=[], every=False,
                            fresh_one=False)
        run_multi(ctx, pool, os.path.join(base, "multi"), multi)
        run_multi_fifo(ctx, pool, os.path.join(base, "fifo"), fifo)
        lat3 = {"engine": "lattice", "mtag": "wf", "moves": ["sh", "sh", "wf", "wf"], "nintf": 4, "delete_old": False}
        run_dropped(ctx, pool, os.path.join(base, "dropped"),
                    [(dict(lat3, seed=sd, N=12), W, pol, k, 14, 10)
                     for sd in ((1, 2) if ctx.quick else (0, 1, 2, 3, 5))
                     for W, pol, k in ((3, "lifo", 4), (3, "ord-max", 5), (2, "fifo", 3))])
        ctx.sample({"families": [fam_tag(f) for f in fams][:12]})
        ctx.sample({"multi": [(fam_tag(f), W, p, list(k)) for f, W, p, k in multi][:8]})
    finally:
        pool.close()
        shutil.rmtree(base, ignore_errors=True)
    ctx.extra["wall_e2e_s"] = round(ctx.elapsed(), 1)
    # model side, same shapes
    shapes = []
    for fam in fams[:: (2 if ctx.quick else 1)]:
        # the Lean side evaluates the exact permanent specification (factorial cost): 8 ensembles become 6 there
        n_ens, N, wf = min(fam["nintf"], 6), fam["N"], fam["mtag"] != "sh"
        k = ctx.rng.randint(1, N - 1)
        shapes.append((n_ens, 1, N, fam["seed"], wf, (k,)))
        ch = chains_for(ctx, N)[-1]
        shapes.append((n_ens, 1, N, fam["seed"], wf, ch))
    for fam, W, policy, kills in multi[:: (3 if ctx.quick else 1)]:
        shapes.append((min(fam["nintf"], 6), min(W, 5), fam["N"], fam["seed"], True, kills))
    ctx.extra["model_side_segments"] = model_side(ctx, shapes)
    # (more workers than ensembles that can be picked at once is not a configuration: n_ens = 3 only with one worker)
    multi_engine_model(ctx, [(n, W, 10, sd) for n in ((4, 6) if ctx.quick else (3, 4, 5, 6)) for W in (1, 2, 3)
                             if W == 1 or n >= 4 for sd in ((ctx.seed,) if ctx.quick else (0, 1, ctx.seed + 2))])
    c06_mc.run_mc(ctx)
    ctx.assumptions += [
        "interface_cap: families 'wfcap' (lattice cap 13/16 with moves sh,sh,wf,wf,sh; TurtleMD wf.toml with cap -0.1 / 0.1); "
        "all other families run without a cap",
        "a restart with another number of workers than at the stop is not promised by the property (same configuration "
        "apart from `steps`) and is not exercised",
        "several workers: byte comparison straight vs restarted needs a completion order that both runs follow: fifo and "
        "orders that are functions of the set of jobs in flight (ord-max = newest first, ord-min, seeded ord-hash); lifo / "
        "rand act on one process's list of futures and are used for the re-issue predicates and run-twice determinism only",
        "object state: every run uses long-lived real objects (REPEX_state, engines, PathStorage, order parameter) over all "
        "its steps and is compared with runs whose objects were rebuilt in fresh processes at every split; additionally two "
        "runs and a stop + restart inside ONE process are compared with fresh-process runs (tie only; the model is functional)",
        "scope: allowmaxlength = true in every run (the 'initial path' marker lost at a restart — code TODO — would change "
        "the maximal path length of the first moves); order values dyadic (lattice) or whatever TurtleMD produces (run as is)",
        "scope (six decimals): TurtleMD order values are not representable at the six decimals of order.txt; after a restart "
        "the `max OP` column of a reloaded path is printed from the re-read value and may differ by one unit in its 5th "
        "decimal — forgiven for TurtleMD restarts only (counted in turtle_maxop_last_digit_lines_forgiven), never for the "
        "dyadic lattice engine nor between two identical runs; everything else stays byte-exact",
        "file names inside traj.txt contain the pid and a per-process counter: compared up to that column",
        "with delete_old the list of paths awaiting deletion (pn_olds) is not persisted, so a restarted run keeps some old "
        "path directories longer: with delete_old only paths stored on both sides are compared (all active ones must be)",
        "each leg runs in a child forked from a process that only imported infretis (fresh module-level state: "
        "enginebase.counter, tis.ENGINES, logging handlers); one scenario per run uses brand-new interpreters instead",
        "logging disabled and os.fsync made a no-op inside the legs (speed; neither influences what is written)",
        "bit-for-bit behaviour of numpy / TurtleMD is not modelled: they are run twice",
        "sources of variation outside the seed that are exercised: string-hash seed (PYTHONHASHSEED 1 / 4242 / 7 / 90001 in "
        "brand-new interpreters; the pool's own processes run with Python's random hash seed), working directory (every run "
        "in a directory of its own, the hash-seed runs three levels deeper), pid; wall-clock time is not manipulated",
        "reissue-in-place predicate: fractions before the stop and after the reload are compared to 1e-9 relative (the restart "
        "file holds them as decimal strings of long doubles); W, slot order, locks, records, ordinals, counters exactly",
        "several workers: the synchronous runner executes a job at submission and completes them in a scripted order",
    ]


# ----------------------------------------------------------------------------- replay
def replay(ctx, obj):
    r = obj.get("replay", obj)
    if r.get("kind") == "mc-restart":
        c06_mc.replay(ctx, r)
    elif r.get("kind") == "multi-engine-prep":
        ctx.seed = r.get("ctxseed", ctx.seed)
        multi_engine_model(ctx, [tuple(r["params"])])
    elif r.get("kind") == "model-shape":
        ctx.seed = r.get("ctxseed", ctx.seed)
        p = r["params"]
        model_side(ctx, [(p[0], p[1], p[2], p[3], p[4], tuple(p[5]))])
    else:
        fam = {k: r[k] for k in ("engine", "moves", "mtag", "seed", "N", "nintf", "delete_old")}
        fam["cap"] = r.get("cap")
        fam["opts"] = r.get("opts")
        base = tempfile.mkdtemp(prefix="vp-c06-replay-", dir=SCRATCH)
        pool = legs.LegPool(2)
        try:
            if r.get("workers", 1) == 1:
                chain = tuple(r.get("chain", ()))
                kind = r.get("kind", "steps-split")
                mh = re.search(r"hashseed-(\d+)", kind)
                if mh:
                    run_w1_families(ctx, pool, base, [fam], all_splits=[], chains=[], every=False, fresh_one=False,
                                    hashseeds={0: (int(mh.group(1)),)})
                elif kind.startswith("crash-"):
                    run_w1_families(ctx, pool, base, [fam], all_splits=[], chains=[], every=False, fresh_one=False,
                                    crashes=[(chain[0], kind[len("crash-"):])])
                elif kind == "twice" or not chain:
                    run_w1_families(ctx, pool, base, [fam], all_splits=[], chains=[], every=False, fresh_one=False)
                elif len(chain) == 1:
                    run_w1_families(ctx, pool, base, [fam], all_splits=[chain[0]], chains=[], every=False, fresh_one=False)
                else:
                    run_w1_families(ctx, pool, base, [fam], all_splits=[], chains=[chain], every=False, fresh_one=False)
            elif r.get("kind") == "dropped-record-chain":
                run_dropped(ctx, pool, base, [(fam, r["workers"], r["policy"], r["chain"][0], r["chain"][1], r["chain"][2])])
            elif r.get("kind") == "multi-fifo-split":
                run_multi_fifo(ctx, pool, base, [(fam, r["workers"], [tuple(r["chain"])], r.get("policy", "fifo"))])
            else:
                run_multi(ctx, pool, base, [(fam, r["workers"], r["policy"], tuple(r["chain"]))])
        finally:
            pool.close()
            shutil.rmtree(base, ignore_errors=True)
    for f in ctx.fails:
        print("still fails:", f["signature"], f["what"])
    return 1 if (ctx.fails or ctx.known_hits) else 0
