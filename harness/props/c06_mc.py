"""C06, audit 2026-09-30 — what the one-worker restart theorems are about when `self.prob` is NOT a function of the state.

The Lean model computes the P matrix exactly (`Repex.prob` = `Perm.probMatrix`).  The code does so only while every idle
block of the W matrix is row-constant or has at most 12 rows (`quick_prob` / `permanent_prob`); a larger block that is
not row-constant goes to `random_prob(arr, n=10_000)`, a Monte-Carlo estimate drawn from `self.rgen` — the scheduler's
OWN stream.  Then (a) the P a pick uses depends on the stream position at the time `self.prob` was evaluated, not only
on the state, and (b) a restart evaluates `self.prob` at other positions than the uninterrupted run (`load_paths` calls
`add_traj` n-1 times before `pick_lock` puts the saved position back), so the first pick after a restart reads another
estimate of P than the uninterrupted run read for the same pick: with the same uniform number it can pick another
(ensemble, path).  The restart theorems do not cover these configurations (model = code needs `RepexDisk.mcDims = []`).

This module drives the REAL `REPEX_state` (real numpy generator, no scripted draws) on two classes:

  exact   8 ensembles, wire-fencing-like weights that are not row-constant: every block goes through `permanent_prob`.
          Stop after k steps, rebuild from the real restart.toml (`set_rgen`, the `load_paths` sequence), and compare with
          the run that was not stopped: the cached P matrix a pick uses must be the SAME ARRAY (bit for bit), the picked
          (ensemble, path) and the job streams the same, and the bit-generator state after the pick the same.  Judged.
  mc      15 ensembles, all paths valid in all ensembles, weights not row-constant: blocks of 13/14 rows → `random_prob`.
          Same experiment.  A difference here is the open observation `C06:restart:monte-carlo-prob-differs-after-restart`
          (PENDING_FINDINGS: recorded in the evidence as a pending finding, not a VIOLATION, until the coordinator decides).
"""
from __future__ import annotations

import contextlib
import copy
import io
import os
import shutil
import tempfile
import warnings

import numpy as np

import repex_tie as T

# open observations about the UNCHANGED library: evidence only (`pending_findings`), never a VIOLATION line.
# Remove a signature from this list when known_findings.json lists it (open → KNOWN-FINDING, fixed → judged).
PENDING_FINDINGS = ["C06:restart:monte-carlo-prob-differs-after-restart"]

SIG_MC = "C06:restart:monte-carlo-prob-differs-after-restart"
SIG_EXACT = "C06:restart:pick-probabilities-differ-after-restart"
SIG_PICK = "C06:restart:different-job-picked"


def judge(ctx, sig, what, rep):
    if sig in PENDING_FINDINGS and ctx._known(sig) is None:
        pend = ctx.extra.setdefault("pending_findings", {})
        ent = pend.setdefault(sig, {"what": what, "occurrences": 0, "witness": rep})
        ent["occurrences"] += 1
        return
    ctx.fail(sig, what, rep)


def _cfg(n_ens, seed, steps, cur=None):
    cfg = {
        "current": {"size": n_ens, "cstep": 0, "active": list(range(n_ens)), "locked": [], "traj_num": n_ens, "frac": {}},
        "runner": {"workers": 1},
        "simulation": {"seed": seed, "steps": steps, "interfaces": [float(i) for i in range(n_ens)],
                       "shooting_moves": ["wf"] * n_ens, "tis_set": {"lambda_minus_one": False, "maxlength": 100},
                       "load_dir": "load", "ensemble_engines": [["engine0"]] * n_ens},
        "output": {"screen": 0, "data_dir": "./", "data_file": "./infretis_data.txt", "delete_old": False},
    }
    if cur is not None:
        cfg["current"].update(cur)
    return cfg


def _state(R, cfg):
    st = R.REPEX_state(cfg, minus=True)
    st.pstore = T.FakeStore()
    st.initiate_ensembles()
    st.engine_occ = {"engine0": [-1]}
    return st


def _load(st, paths, fracs=None):
    """the add_traj / traj_data sequence of `load_paths` (plus paths first, the minus path last)"""
    n_ens = len(paths)
    for i in list(range(1, n_ens)) + [0]:
        p = paths[i]
        key = str(p.path_number)
        fr = np.zeros(st.n, dtype="longdouble") if not fracs or key not in fracs else \
            np.array(fracs[key], dtype="longdouble")
        st.add_traj(ens=i - 1, traj=p, valid=p.weights, count=False)
        st.traj_data[p.path_number] = {"ens_save_idx": i, "max_op": p.ordermax, "min_op": p.ordermin, "length": p.length,
                                       "adress": p.adress, "weights": p.weights, "frac": fr}


def _wvec(n_ens, ens_num, wr, full):
    if ens_num == -1:
        return (1.0,)
    last = n_ens - 2 if full else int(wr.integers(ens_num, n_ens - 1))
    return tuple([float(wr.integers(1, 6)) if j <= last else 0.0 for j in range(n_ens - 1)] + [0.0])


def _sid(g):
    ss = g.bit_generator._seed_seq
    return [int(ss.entropy)] + [int(k) for k in ss.spawn_key]


def _job(md):
    return [(int(e), int(d["pn_old"]), _sid(d["ens"]["rgen"]), _sid(d["rgen-eng"])) for e, d in md["picked"].items()]


def one_case(n_ens, seed, k, full):
    """k steps, then the same pick (a) continuing and (b) from the restart file; returns the comparison"""
    import tomli
    from infretis.classes import repex as R
    if getattr(R.default_rng, "__name__", "") != "default_rng":       # repex_tie.Sim leaves a scripted generator behind
        R.default_rng = np.random.default_rng
    cwd0 = os.getcwd()
    tmp = tempfile.mkdtemp(prefix="vp-c06mc-", dir="/var/tmp")
    try:
        os.chdir(tmp)
        with contextlib.redirect_stdout(io.StringIO()), warnings.catch_warnings():
            warnings.simplefilter("ignore")
            wr = np.random.default_rng(1000 + seed)
            st = _state(R, _cfg(n_ens, seed, 1000))
            paths = [T.FakePath(0, (1.0,))] + [T.FakePath(i, _wvec(n_ens, i - 1, wr, full)) for i in range(1, n_ens)]
            _load(st, paths)
            base = {"mc_moves": st.mc_moves, "interfaces": st.interfaces, "cap": None}
            assert st.initiate()
            md = st.prep_md_items(copy.deepcopy(base))
            assert not st.initiate()
            for step in range(k):
                assert st.loop()
                for e, d in md["picked"].items():
                    d["traj"] = T.FakePath(None, _wvec(n_ens, e, wr, full))
                md["status"] = "ACC"
                md = st.treat_output(md)
                if step < k - 1:
                    md = st.prep_md_items(md)
            with open("restart.toml", "rb") as fh:       # the file `treat_output` of step k left on disk
                cur = tomli.load(fh)["current"]
            p_un = np.array(st._last_prob, dtype="longdouble").copy()
            mc_un = st._random_count
            job_un = _job(st.prep_md_items(md))
            cur["restarted_from"] = cur["cstep"]
            st2 = _state(R, _cfg(n_ens, seed, 1000, cur))
            _load(st2, [T.FakePath(pn, st.traj_data[pn]["weights"]) for pn in cur["active"]], cur["frac"])
            assert st2.initiate()
            p_re = np.array(st2._last_prob, dtype="longdouble").copy()
            job_re = _job(st2.prep_md_items(copy.deepcopy(base)))
            same_rng = st.rgen.bit_generator.state == st2.rgen.bit_generator.state
        return {"mc_calls": (int(mc_un), int(st2._random_count)), "p_same": bool(np.array_equal(p_un, p_re)),
                "p_maxdiff": float(np.abs(p_un - p_re).max()), "job_un": job_un, "job_re": job_re,
                "rng_same": bool(same_rng)}
    finally:
        os.chdir(cwd0)
        shutil.rmtree(tmp, ignore_errors=True)


def run_case(ctx, cls, n_ens, seed, k, full):
    rep = {"kind": "mc-restart", "class": cls, "params": [n_ens, seed, k, bool(full)]}
    label = f"real REPEX_state, {n_ens} ensembles (wf weights, not row-constant), seed {seed}, stop after step {k}"
    try:
        r = one_case(n_ens, seed, k, full)
    except Exception as e:  # noqa: BLE001
        ctx.fail("C06:model-shape:sampler-raised", f"{label}: {type(e).__name__}: {e}", rep)
        return None
    used_mc = r["mc_calls"] != (0, 0)
    ctx.count(1, kind="prob-after-restart", prob=("monte-carlo" if used_mc else "exact"))
    ctx.distinct(("mc-restart", n_ens, seed, k, full))
    if cls == "exact" and used_mc:
        ctx.fail("C06:model-shape:unexpected-monte-carlo-branch", f"{label}: random_prob was called {r['mc_calls']}", rep)
        return r
    sig_p = SIG_MC if used_mc else SIG_EXACT
    if not r["p_same"]:
        judge(ctx, sig_p, f"{label}: the P matrix the first pick after the restart reads differs from the one the "
                          f"uninterrupted run reads for the same pick by up to {r['p_maxdiff']:.3g} "
                          f"(random_prob calls before the stop / after the restart: {r['mc_calls']})", rep)
    if r["job_un"] != r["job_re"]:
        what = (f"{label}: the uninterrupted run picks {[(e, p) for e, p, _, _ in r['job_un']]}, the restarted run "
                f"{[(e, p) for e, p, _, _ in r['job_re']]}")
        judge(ctx, SIG_MC if used_mc else SIG_PICK, what, rep)
    elif not r["rng_same"] and not used_mc:
        ctx.fail("C06:restart:stream-position-differs-after-first-pick", f"{label}: bit-generator states differ", rep)
    return r


def run_mc(ctx):
    """the two classes; quick ≈ 10 s"""
    q = ctx.quick
    res = {"exact": [], "mc": []}
    ex_seeds = [ctx.seed, ctx.seed + 11] if q else [0, 1, 2, 3, ctx.seed + 11, ctx.rng.randrange(10 ** 6)]
    for sd in ex_seeds:
        for full in (True, False):
            r = run_case(ctx, "exact", 8, sd, 3 if q else 5, full)
            if r is not None:
                res["exact"].append((sd, full, r["p_same"], r["job_un"] == r["job_re"]))
    # seed 3 / stop after step 2 is a recorded witness of a different pick (corpus/C06/mc-prob-restart.json)
    mc_seeds = [3] if q else [3, 6, 14, ctx.rng.randrange(10 ** 6)]
    for sd in mc_seeds:
        r = run_case(ctx, "mc", 15, sd, 2, True)
        if r is not None:
            res["mc"].append((sd, r["mc_calls"], round(r["p_maxdiff"], 4), r["job_un"] == r["job_re"]))
    ctx.extra["prob_after_restart"] = res
    ctx.assumptions += [
        "scope of the restart theorems: the model's P matrix is exact (Perm.probMatrix); it is the code's as long as no idle "
        "block of more than 12 rows is not row-constant (RepexDisk.mcDims = []). Beyond that `random_prob` draws on the "
        "scheduler's own stream, P is an estimate that depends on the stream position, and the first pick after a restart "
        "reads another estimate than the uninterrupted run (real REPEX_state, 15 wire-fencing ensembles: pending finding "
        f"{SIG_MC}); every e2e family of this tie has at most 8 ensembles; class `exact` (8 ensembles, permanent_prob) is "
        "judged bit for bit",
    ]


def replay(ctx, r):
    n_ens, seed, k, full = r["params"]
    run_case(ctx, r.get("class", "mc"), int(n_ens), int(seed), int(k), bool(full))
