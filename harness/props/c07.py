"""C07 — every job gets its own random stream.

Tie: real REPEX_state (with numpy Generator subclasses so that every spawned stream reports its
SeedSequence identity) vs the Lean state machine's stream identities (Infretis.Repex: Stream, spawnStream,
mkPicked, setRgen), over straight histories and chains of restarts, 1..n-1 workers.
Property predicates on the real identities: pairwise distinct, distinct from the scheduler's stream,
equal to (seed, [ordinal, j]) / (seed, [ordinal, j, 0]).
In-process draws: harness/props/c07_jobs.py runs the real select_shoot + real moves on the real picked dicts
with real engine objects of every engine class and compares every job's trace of random-number requests
(source stream + kind, in call order) with `Infretis.JobDraws.runJob` (driver op `jobdraws`), under a tripwire
on numpy's global state, Python's `random`, os.urandom and fresh generators.
"""
from __future__ import annotations

import contextlib
import io
import random

import common
import repex_tie as T


def job_streams(sim):
    """[(segment, ordinal in segment, ens, move stream, engine stream)] from the real prep answers"""
    out = []
    k = 0
    for line, real, kind in zip(sim.lines, sim.real, sim.kinds):
        if kind == "prep" and not real.startswith("err"):
            picked = real.split(" picked=")[1]
            for j, p in enumerate(picked.split(";")):
                ens, pn, rgen, rgeneng, _eng = p.split("/")
                out.append((k, j, int(ens), rgen, rgeneng, int(pn)))
            k += 1
    return out


def predicates(ctx, chain, label, seed, workers):
    """chain = list of Sims (segments between restarts), in order.

    A job's streams must be (seed, [ordinal, j]) / (seed, [ordinal, j, 0]) where the ordinal counts the
    jobs issued over the whole chain; a job re-issued after a restart is the SAME job (same ensembles and
    paths, recorded in flight at the stop) and must get the very streams it had; no two different jobs
    may share a stream and none may use the scheduler's."""
    next_ord = 0
    ord_of = {}                # job key (tuple of (ens, pn)) -> ordinal of the job in flight with that key
    owner = {}                 # stream id -> job key that legitimately owns it
    nstreams = 0
    rep0 = {"history": label, "params": getattr(chain[-1], "params", None), "ctxseed": ctx.seed}
    dropped_before = False     # a recorded job was NOT re-issued in an earlier segment (fewer workers / steps left)
    for seg, sim in enumerate(chain):
        main_ids = set()
        for (_tag, d, _held) in sim.snaps:
            main_ids.add(d["rng"].split(":")[0] + ":")
        js = job_streams(sim)
        by_job = {}
        for (k, j, ens, rgen, rgeneng, pn) in js:
            by_job.setdefault(k, []).append((j, ens, rgen, rgeneng, pn))
        n_re = 0
        drops_here = False
        if seg > 0:
            n_rec = sum(1 for line in sim.lines if line.startswith("locked0 "))
            n_init = 0     # preps of the initiation loop (before the first loop()): only these can be re-issues
            for line in sim.lines:
                if line.startswith("loop"):
                    break
                n_init += line.startswith("prep ")
            n_re = min(n_rec, n_init)
            drops_here = n_rec > n_re
        for k in sorted(by_job):
            ents = sorted(by_job[k])
            key = tuple((e, pn) for (_j, e, _r, _re, pn) in ents)
            reissue = seg > 0 and k < n_re
            if reissue and key in ord_of:
                ordinal = ord_of[key]
            else:
                if reissue:
                    ctx.fail("C07:restart:reissued-job-unknown", f"job {key} re-issued in segment {seg} was not in flight before",
                             dict(rep0, segment=seg, job_in_segment=k))
                ordinal = next_ord
                next_ord += 1
                ord_of[key] = ordinal
            for (j, ens, rgen, rgeneng, pn) in ents:
                want_move, want_eng = f"{seed}:{ordinal},{j}", f"{seed}:{ordinal},{j},0"
                nstreams += 2
                for kind, sid, want in (("move", rgen, want_move), ("engine", rgeneng, want_eng)):
                    rep = dict(rep0, segment=seg, job_in_segment=k, ensemble=ens, stream=sid, kind=kind, expected=want)
                    if sid in main_ids:
                        ctx.fail("C07:job-shares-scheduler-stream", f"{kind} stream {sid} is the scheduler's own", rep)
                    if sid in owner and owner[sid] != (key, ordinal):
                        sig = ("C07:restart-chain:ordinal-reused-after-dropped-record" if seg > 1 and dropped_before
                               else "C07:restart-chain:ordinal-reused-after-reissue" if seg > 1
                               else "C07:restart:multiworker-stream-collision" if seg > 0 and workers > 1
                               else "C07:restart:stream-reused-after-restart" if seg > 0 else "C07:stream-shared")
                        ctx.fail(sig, f"{kind} stream {sid} of job {key} (segment {seg}) already belongs to job {owner[sid][0]} "
                                      f"(ordinal {owner[sid][1]})", rep)
                    owner.setdefault(sid, (key, ordinal))
                    if sid != want:
                        if seg > 0 and sid.split(":")[0] != str(seed):
                            sig = "C07:restart:entropy-not-seed"
                        elif seg > 1 and dropped_before:
                            sig = "C07:restart-chain:ordinal-reused-after-dropped-record"
                        elif seg > 1:
                            sig = "C07:restart-chain:ordinal-reused-after-reissue"
                        elif seg > 0:
                            sig = "C07:restart:ordinal-not-continued"
                        else:
                            sig = "C07:stream-not-function-of-seed-and-ordinal"
                        ctx.fail(sig, f"job {key} (segment {seg}, {'re-issued' if reissue else 'fresh'}, ordinal {ordinal}) "
                                      f"ensemble {ens}: {kind} stream {sid}, expected {want}", rep)
        # jobs completed in this segment leave `ord_of` (their key may be issued again as a NEW job later)
        done_keys = set()
        for line in sim.lines:
            if line.startswith("treat "):
                pin = int(line.split()[1])
                done_keys.add(pin)
        # completion is tracked through the in-flight summaries of the last snapshot
        if sim.snaps:
            still = set()
            for (_pin, picked, _eng, _wf) in sim.snaps[-1][2]:
                still.add(tuple(sorted(picked)))
            for key in list(ord_of):
                if tuple(sorted(key)) not in still:
                    del ord_of[key]
        if sim.error is not None:
            ctx.fail("C07:sampler-raised", f"{type(sim.error).__name__}: {sim.error}", rep0)
        dropped_before = dropped_before or drops_here
    return nstreams


def run_chain(ctx, n_ens, segments, steps, seed, rng, wf=False, acc_p=0.7):
    """A chain of scheduler-shaped segments with PER-SEGMENT settings (what repex_tie.run_history keeps fixed):
    segments = [{"workers": w, "stop": step or None, "order": "random"|"newest"|"oldest", "screen": 0|1|3,
                 "steps": total steps from this segment on (optional)}, ...].
    Mirrors repex_tie._run_segment op by op (same protocol lines for the model)."""
    import copy
    import os
    sims, image, weights = [], None, None
    for spec in segments:
        steps = spec.get("steps", steps)        # a restart may come with another total number of steps
        sim = T.Sim(ctx, n_ens, spec["workers"], steps, seed=seed, wf=wf, rng=rng,
                    cstep=0 if image is None else image["cstep"], image=image, screen=spec.get("screen", 0))
        sim.image, sim.rich_init = None, False
        snaps, inflight, error = [], [], None

        def snap(tag):
            d = sim.op_dump()
            held = [(md["pin"], [(e, dd["pn_old"]) for e, dd in md["picked"].items()],
                     {e: dict(dd["eng_idx"]) for e, dd in md["picked"].items()}, os.path.basename(md["w_folder"]))
                    for md in inflight]
            snaps.append((tag, d, held))

        try:
            if image is None:
                sim.load_initial()
            else:
                sim.load_initial([T.FakePath(pn, weights[pn]) for pn in image["active"]],
                                 {int(k): [float(x) for x in v] for k, v in image["frac"].items()})
            snap("loaded")
            base = {"mc_moves": sim.st.mc_moves, "interfaces": sim.st.interfaces, "cap": None}
            stop0 = spec.get("stop") == 0       # stopped before anything was issued: a restart file with cstep 0
            if stop0:
                sim.st.write_toml()
                sim.image = T.read_image(sim.tmp)
                sim.weights_by_pn = {pn: v["weights"] for pn, v in sim.st.traj_data.items()}
            while not stop0 and sim.op_initiate():
                inflight.append(sim.op_prep(copy.deepcopy(base)))
                snap("prep")
            guard = 0
            while not stop0 and sim.op_loop():
                guard += 1
                if guard > 10 * steps + 50 or not inflight:      # changed code must not hang or crash the harness
                    raise RuntimeError("scheduler loop did not end / nothing in flight")
                order = spec.get("order", "random")
                k = len(inflight) - 1 if order == "newest" else 0 if order == "oldest" else rng.randrange(len(inflight))
                md = inflight.pop(k)
                status = "ACC" if rng.random() < acc_p else "REJ"
                md = sim.op_treat(md, status, sim.random_new_weights(md, rng))
                snap("treat")
                if spec.get("stop") is not None and sim.st.cstep >= spec["stop"]:
                    sim.image = T.read_image(sim.tmp)
                    sim.weights_by_pn = {pn: v["weights"] for pn, v in sim.st.traj_data.items()}
                    break
                if sim.st.cstep + sim.st.workers <= sim.st.tsteps:
                    inflight.append(sim.op_prep(md))
                    snap("prep")
        except Exception as e:  # noqa: BLE001
            error = e
        sim.snaps, sim.error, sim.inflight_end = snaps, error, inflight
        sim.close()
        sims.append(sim)
        if spec.get("stop") is None or error is not None or sim.image is None:
            break
        image, weights = sim.image, sim.weights_by_pn
        if spec.get("strip"):
            # a restart file of the format before 147c104 / 17a0342: records without ordinal, no `spawned` key
            image = dict(image)
            image["locked"] = [list(e[:2]) for e in image.get("locked", [])]
            image.pop("spawned", None)
    return sims


def old_format_chain(ctx, n_ens, workers, stop, steps, seed, with_model, outs):
    """restart from an OLD-format file (`locked` records without ordinal, no `spawned`): `pick_lock` takes the branch
    `ordinal0 is None` — the re-issued job gets a NEW child stream and the counter advances.  Predicate: all streams
    of all issues of both segments are pairwise distinct (a re-issue under a new stream included) and none is the
    scheduler's; tie: the model's `reissueOrd` / `reissued` for a record without ordinal, op by op."""
    label = f"old-format n_ens={n_ens} workers={workers} stop={stop} steps={steps} seed={seed} ctxseed={ctx.seed}"
    chain = run_chain(ctx, n_ens, [dict(workers=workers, stop=stop, order="random", strip=True),
                                   dict(workers=workers, stop=None, order="random")], steps, seed, random.Random(label))
    rep = {"history": label, "params": ["oldfmt", n_ens, workers, stop, steps, seed], "ctxseed": ctx.seed}
    owner = {}
    n_re = 0
    for seg, sm in enumerate(chain):
        if sm.error is not None:
            ctx.fail("C07:sampler-raised", f"{type(sm.error).__name__}: {sm.error} in {label}", rep)
        if seg > 0:
            n_re = sum(1 for line in sm.lines if line.startswith("locked0 "))
        for (k, j, ens, rgen, rgeneng, pn) in job_streams(sm):
            for kind, sid in (("move", rgen), ("engine", rgeneng)):
                ctx.distinct((seed, sid))
                if sid == f"{seed}:" or sid.endswith(":"):
                    ctx.fail("C07:job-shares-scheduler-stream", f"{kind} stream {sid} is the scheduler's own", rep)
                if not sid.startswith(f"{seed}:"):
                    ctx.fail("C07:restart:entropy-not-seed", f"{kind} stream {sid}: entropy is not the seed {seed}", rep)
                if sid in owner and owner[sid] != (seg, k, j, kind):
                    ctx.fail("C07:restart:old-format-record-reuses-stream",
                             f"segment {seg} job {k}: {kind} stream {sid} was already handed out (segment, job, entry, kind) = "
                             f"{owner[sid]}", dict(rep, stream=sid))
                owner[sid] = (seg, k, j, kind)
        if with_model:
            outs.append((sm, label))
    ctx.count(len(owner), c07_old_format=f"records-without-ordinal={n_re}", restarts=len(chain) - 1, workers="per-segment")
    return chain


def one(ctx, params, with_model, outs):
    n_ens, workers, steps, seed, wf, restarts = params[:6]
    label = f"n_ens={n_ens} workers={workers} steps={steps} seed={seed} wf={wf} restarts={list(restarts)} ctxseed={ctx.seed}"
    sim = T.run_history(ctx, n_ens, workers, steps, seed=seed, wf=wf, restarts=tuple(restarts), rng=random.Random(label))
    sim.params = list(params)
    chain = sim.previous + [sim]
    n = predicates(ctx, chain, label, seed, workers)
    ctx.count(n, restarts=len(restarts), workers=("1" if workers == 1 else ">1"))
    for sm in chain:
        for (k, j, ens, rgen, rgeneng, _pn) in job_streams(sm):
            ctx.distinct((seed, rgen))
            ctx.distinct((seed, rgeneng))
        if with_model:
            outs.append((sm, label))
    return chain


def one_chain(ctx, n_ens, segments, steps, seed, wf, with_model, outs):
    """a chain with per-segment workers / completion order / screen (see run_chain)"""
    label = f"chain n_ens={n_ens} steps={steps} seed={seed} wf={wf} segments={segments} ctxseed={ctx.seed}"
    chain = run_chain(ctx, n_ens, segments, steps, seed, random.Random(label), wf=wf)
    chain[-1].params = ["chain", n_ens, segments, steps, seed, wf]
    n = predicates(ctx, chain, label, seed, max(s["workers"] for s in segments))
    ctx.count(n, restarts=len(chain) - 1, workers="per-segment",
              c07_chain="orders=" + "/".join(s.get("order", "random") for s in segments))
    for sm in chain:
        if sm.error is not None:
            ctx.fail("C07:sampler-raised", f"{type(sm.error).__name__}: {sm.error} in {label}",
                     {"history": label, "params": chain[-1].params, "ctxseed": ctx.seed})
        for (k, j, ens, rgen, rgeneng, _pn) in job_streams(sm):
            ctx.distinct((seed, rgen))
            ctx.distinct((seed, rgeneng))
        if with_model:
            outs.append((sm, label))
    return chain


def chain_plans(rng, quick):
    """restart chains the fixed-parameter histories do not reach: >= 2 restarts with the NEWEST job finishing
    first (and the oldest first), more workers after a restart than at the stop, fewer workers at the last
    restart, restart files written at cstep 0 (first job after the restart has ordinal 0), screen 0 / 1 / 3,
    seed 0 and != 0, one worker (pin 0 only)"""
    plans = []
    seeds = (0, 3) if quick else (0, 1, 3, 11)
    for seed in seeds:
        for n_ens, w in ((4, 3), (5, 4)) if quick else ((3, 2), (4, 3), (5, 4), (5, 2)):
            steps = 16 + 2 * n_ens
            a = rng.randint(2, 5)
            b = a + rng.randint(2, 4)
            c = b + rng.randint(2, 4)
            for order in ("newest", "oldest") if quick else ("newest", "oldest", "random"):
                plans.append((n_ens, [dict(workers=w, stop=a, order=order, screen=seed % 2),
                                      dict(workers=w, stop=b, order=order, screen=3),
                                      dict(workers=w, stop=c, order="random", screen=1),
                                      dict(workers=w, stop=None, order=order, screen=0)], steps, seed, False))
            # more workers after each restart than at the stop; fewer only at the LAST restart
            plans.append((n_ens, [dict(workers=max(1, w - 1), stop=a, order="newest", screen=1),
                                  dict(workers=w, stop=b, order="newest", screen=0),
                                  dict(workers=w + (1 if w + 1 < n_ens else 0), stop=c, order="oldest", screen=3),
                                  dict(workers=1, stop=None, order="random", screen=1)], steps, seed, bool(seed % 2)))
        # records DROPPED at a non-last restart: fewer workers than recorded jobs, and fewer steps left than
        # recorded jobs; the restarts after that must still continue the ordinals (17a0342)
        for n_ens, w in ((5, 3), (5, 4)) if quick else ((4, 3), (5, 3), (5, 4), (6, 4)):
            a = rng.randint(3, 5)
            b = a + rng.randint(3, 4)
            plans.append((n_ens, [dict(workers=w, stop=a, order="random", screen=0),
                                  dict(workers=1, stop=b, order="random", screen=1),
                                  dict(workers=2, stop=b + 3, order="newest", screen=0),
                                  dict(workers=w, stop=None, order="random", screen=3)], 16 + 2 * n_ens, seed, False))
        # 3 records, restarted with 2 steps left (initiate() starts 2 jobs, one record dropped), then extended
        plans.append((5, [dict(workers=4, stop=6, order="oldest", screen=0),
                          dict(workers=4, stop=7, order="newest", screen=1, steps=8),
                          dict(workers=2, stop=12, order="random", screen=0, steps=20),
                          dict(workers=3, stop=None, order="random", screen=0)], 9, seed, False))
        # boundaries: steps == workers, steps < workers, and a LAST restart whose remaining steps equal /
        # fall below the number of recorded jobs (initiate() then starts fewer jobs than workers)
        plans.append((4, [dict(workers=3, stop=None, order="newest", screen=1)], 3, seed, False))
        plans.append((4, [dict(workers=3, stop=None, order="oldest", screen=0)], 2, seed, False))
        plans.append((4, [dict(workers=3, stop=4, order="newest", screen=0),
                          dict(workers=3, stop=None, order="newest", screen=3)], 6, seed, False))
        plans.append((4, [dict(workers=3, stop=5, order="oldest", screen=1),
                          dict(workers=3, stop=None, order="random", screen=0)], 6, seed, False))
        # restart file of cstep 0, then a normal stop, one worker and several
        for w in (1, 2):
            plans.append((4, [dict(workers=w, stop=0, screen=1), dict(workers=w, stop=3, order="newest", screen=0),
                              dict(workers=w, stop=None, order="oldest", screen=3)], 12, seed, False))
    return plans


# ----------------------------------------------------------------------------- crashes: restart from the file ON DISK
class RealGen(T.ScriptedGen):
    """a ScriptedGen whose `choice` / `random` are numpy's own (the bit generator really advances, so that the
    `rng_state` the code stores and restores decides the picks), still logged call by call for the line protocol;
    array-valued calls (`random_prob`: `choice(p_m)`, `choice(zero_one)`, `random(k)`) go straight to numpy and are
    counted per stream in `mc_calls`"""

    sim = None           # the Sim whose `decisions` the scalar calls are recorded in
    mc_calls = None      # list of stream ids (entropy, spawn_key) of the array-valued calls

    def choice(self, a, size=None, replace=True, p=None, axis=0, shuffle=True):  # noqa: D102
        import numpy as np
        if np.ndim(a) != 0 or size is not None:
            RealGen.mc_calls.append(self.sid())
            return np.random.Generator.choice(self, a, size, replace, p, axis, shuffle)
        self._in_choice = True
        try:
            out = int(np.random.Generator.choice(self, a, p=p))
        finally:
            self._in_choice = False
        if RealGen.sim is not None:
            RealGen.sim.decisions.append(("choice", (int(a), None if p is None else np.array(p, dtype=float)), out))
        T.ScriptedGen.log.append((self.sid(), "choice", (int(a), p), out, id(self)))
        return out

    def random(self, *a, **k):  # noqa: D102
        import numpy as np
        if getattr(self, "_in_choice", False):
            return np.random.Generator.random(self, *a, **k)      # numpy's choice(p=…) draws through self.random
        if a or k:
            RealGen.mc_calls.append(self.sid())
            return np.random.Generator.random(self, *a, **k)
        out = float(np.random.Generator.random(self))
        if RealGen.sim is not None:
            RealGen.sim.decisions.append(("random", None, out))
        T.ScriptedGen.log.append((self.sid(), "random", None, out, id(self)))
        return out


class _RealSims:
    """inside: every T.Sim is built on RealGen generators (T.Sim looks the class up by its module-level name)"""

    def __enter__(self):
        self.saved = T.ScriptedGen
        RealGen.log, RealGen.chooser = None, None
        T.ScriptedGen = RealGen
        RealGen.mc_calls = []
        return self

    def __exit__(self, *a):
        T.ScriptedGen = self.saved
        RealGen.sim = None


def _real_sim(ctx, n_ens, workers, steps, seed, rng, image=None, wf=False, screen=0):
    sim = T.Sim(ctx, n_ens, workers, steps, seed=seed, wf=wf, rng=rng,
                cstep=0 if image is None else image["cstep"], image=image, screen=screen)
    RealGen.sim = sim
    sim.image, sim.rich_init = None, True
    return sim


def _disk_string(tmp):
    """the file on disk in the format of the driver op `disk` (`-`: no file)"""
    import os
    import tomli
    fn = os.path.join(tmp, "restart.toml")
    if not os.path.exists(fn):
        return "-", None
    with open(fn, "rb") as fh:
        cfg = tomli.load(fh)
    cur = cfg["current"]
    locked = ";".join(",".join(str(int(e)) for e in t[0]) + ":" + ",".join(str(int(x)) for x in t[1]) + ":"
                      + (str(int(t[2])) if len(t) > 2 else "-") for t in cur.get("locked", []))
    counter = cur.get("spawned", cur["cstep"] + len(cur.get("locked", [])))
    return (f"cstep={cur['cstep']} | locked={locked} | spawned={cur.get('spawned', '-')} | counter={counter} | active="
            + ",".join(str(int(a)) for a in cur.get("active", [])) + f" | trajnum={cur['traj_num']} | "
            f"seed={cfg['simulation']['seed']}"), cur


def _job_desc(md):
    return [(e, d["pn_old"], _sid(d["ens"]["rgen"]), _sid(d["rgen-eng"])) for e, d in md["picked"].items()]


def crash_chain(ctx, n_ens, segments, steps, seed, with_model, outs, label):
    """A chain of processes of the real REPEX_state on REAL numpy generators in which a process may die at any
    instant: segments = [{"workers": w, "crash": ("issued", c) | ("init", k) | ("written", c) | None}, …]
      ("issued", c)  — dies while the job issued after the c-th completion of this process runs (the usual case:
                       the file on disk is the one written inside that treat_output; the job is not on it);
      ("init", k)    — dies in the initiation loop after k jobs were issued (file: the one the process started from);
      ("written", c) — dies right after the c-th treat_output wrote the file (nothing lost; the class of run_chain).
    The new process is built from the file ON DISK (read back from the directory of the dead process).
    Predicates: streams of every job follow (seed, [ordinal on record, j]) and are not the scheduler's; the streams
    of all jobs whose result is consumed are pairwise distinct over the whole chain; with an unchanged number of
    workers the jobs that were lost are issued again identically — same (ensemble, path), same streams — as the
    first fresh jobs of the new process.  Observation (counted, no alarm): with another number of workers the
    streams of a lost job may go to a different job.
    Tie: every segment op by op as usual; at every death the driver's `disk` against the file, `restartdisk`
    (Model/RepexDisk.restartFromDisk) + `dump` against the state the new process has after loading."""
    import copy
    import os
    rng = random.Random(label)
    image, weights, writer, disk_bytes = None, None, None, None
    consumed = {}             # stream id -> (job key, ordinal): jobs handed to treat_output
    lost_prev, w_prev, prev_ords = [], None, set()
    rep0 = {"history": label, "params": ["crash", n_ens, segments, steps, seed], "ctxseed": ctx.seed}
    with _RealSims():
        for si, spec in enumerate(segments):
            sim = _real_sim(ctx, n_ens, spec["workers"], steps, seed, rng, image=image, screen=spec.get("screen", 0))
            inflight, issued, error = [], [], None
            crash = spec.get("crash")
            n_done = 0
            if disk_bytes is not None:
                # the file stays where it is when a process dies: the new process finds it in its directory
                with open(os.path.join(sim.tmp, "restart.toml"), "wb") as fh:
                    fh.write(disk_bytes)

            def issue(md_in):
                md = sim.op_prep(md_in)
                rec = sim.st.locked[-1]
                md["c07_ord"] = int(rec[2])
                md["c07_desc"] = _job_desc(md)
                issued.append({"c07_ord": md["c07_ord"], "c07_desc": list(md["c07_desc"])})     # md is re-used for the next job
                for j, (e, pn, a, b) in enumerate(md["c07_desc"]):
                    for kind, sid, want in (("move", a, f"{seed}:{md['c07_ord']},{j}"), ("engine", b, f"{seed}:{md['c07_ord']},{j},0")):
                        if sid != want:
                            ctx.fail("C07:crash:stream-not-function-of-seed-and-ordinal",
                                     f"segment {si}: job {[(x[0], x[1]) for x in md['c07_desc']]} on record with ordinal "
                                     f"{md['c07_ord']}: {kind} stream {sid}, expected {want}", dict(rep0, segment=si))
                        if sid.endswith(":"):
                            ctx.fail("C07:job-shares-scheduler-stream", f"{kind} stream {sid} is the scheduler's own",
                                     dict(rep0, segment=si))
                return md

            try:
                if image is None:
                    sim.load_initial()
                else:
                    sim.load_initial([T.FakePath(pn, weights[pn]) for pn in image["active"]],
                                     {int(k): [float(x) for x in v] for k, v in image["frac"].items()})
                loaded = sim.op_dump()
                if writer is not None:
                    # tie of the crash restart itself: the model restarts from the disk image of the process that wrote
                    # the file last (`restartFromDisk`), the code from the file
                    writer.emit(f"restartdisk {spec['workers']} {steps} " + common.lst([len(sim.st.engine_occ[k]) for k in sim.eng_names]),
                                "ok", "restartdisk")
                    writer.emit("dump", loaded, "dump")
                base = {"mc_moves": sim.st.mc_moves, "interfaces": sim.st.interfaces, "cap": None}
                dead = False
                while sim.op_initiate():
                    inflight.append(issue(copy.deepcopy(base)))
                    if crash and crash[0] == "init" and len(inflight) >= crash[1]:
                        dead = True
                        break
                while not dead and sim.op_loop():
                    if not inflight:
                        raise RuntimeError("nothing in flight")
                    md = inflight.pop(rng.randrange(len(inflight)))
                    key = tuple((e, pn) for (e, pn, _a, _b) in md["c07_desc"])
                    for (_e, _pn, a, b) in md["c07_desc"]:
                        for sid in (a, b):
                            if sid in consumed and consumed[sid] != (key, md["c07_ord"]):
                                ctx.fail("C07:crash:consumed-jobs-share-stream",
                                         f"segment {si}: stream {sid} of the completed job {key} (ordinal {md['c07_ord']}) "
                                         f"belonged to the completed job {consumed[sid][0]} (ordinal {consumed[sid][1]})",
                                         dict(rep0, segment=si, stream=sid))
                            consumed.setdefault(sid, (key, md["c07_ord"]))
                            ctx.distinct((seed, sid))
                    status = "ACC" if rng.random() < 0.6 else "REJ"
                    md = sim.op_treat(md, status, sim.random_new_weights(md, rng))
                    sim.op_dump()
                    n_done += 1
                    if crash and crash[0] == "written" and n_done >= crash[1]:
                        dead = True
                        break
                    if sim.st.cstep + sim.st.workers <= sim.st.tsteps:
                        inflight.append(issue(md))
                        if crash and crash[0] == "issued" and n_done >= crash[1]:
                            dead = True
                            break
            except Exception as e:  # noqa: BLE001
                error = e
            # what the dead process leaves: the file on disk
            disk_str, cur = _disk_string(sim.tmp)
            on_file = {tuple(str(p) for p in rec[1]) for rec in (cur or {}).get("locked", [])}
            lost = [md["c07_desc"] for md in inflight if tuple(str(pn) for (_e, pn, _a, _b) in md["c07_desc"]) not in on_file]
            if crash and (n_done > 0 or image is None):
                sim.emit("disk", disk_str, "disk")
            new_weights = {pn: v["weights"] for pn, v in sim.st.traj_data.items()}
            fn = os.path.join(sim.tmp, "restart.toml")
            if os.path.exists(fn):
                with open(fn, "rb") as fh:
                    disk_bytes = fh.read()
            sim.snaps, sim.error, sim.inflight_end = [], error, inflight
            sim.close()
            if with_model:
                outs.append((sim, f"{label} segment={si}"))
            if error is not None:
                ctx.fail("C07:sampler-raised", f"{type(error).__name__}: {error} in {label} segment {si}", rep0)
                break
            # the jobs lost by the PREVIOUS death against the fresh jobs of this process
            if lost_prev:
                fresh = [md["c07_desc"] for md in issued if md["c07_ord"] not in prev_ords]
                for k, old in enumerate(lost_prev):
                    same_stream = [d for d in fresh if d[0][2] == old[0][2]]
                    if not same_stream:
                        ctx.count(1, c07_crash="lost-job-streams-not-reissued-before-the-end")
                        continue
                    new = same_stream[0]
                    same_job = [(e, pn) for (e, pn, _a, _b) in new] == [(e, pn) for (e, pn, _a, _b) in old]
                    if spec["workers"] == w_prev:
                        ctx.count(1, c07_crash="same-workers:lost-job-issued-again-identically" if same_job
                                  else "same-workers:lost-job-streams-on-different-job")
                        if not same_job or [x[2:] for x in new] != [x[2:] for x in old]:
                            ctx.fail("C07:crash:same-workers-lost-job-not-replayed",
                                     f"segment {si} (workers unchanged = {w_prev}, rng_state restored): the job lost in the "
                                     f"crash was {old}, the job that got its ordinal is {new}", dict(rep0, segment=si))
                    else:
                        ctx.count(1, c07_crash="workers-changed:lost-job-streams-go-to-" + ("same-job" if same_job else "DIFFERENT-job"))
            ctx.count(len(issued), c07_crash_segment=f"{'fresh' if image is None else 'restart'}:{crash[0] if crash else 'to-the-end'}",
                      restarts=si, workers="per-segment")
            if not crash or cur is None:
                break
            image = dict(cur)
            image["restarted_from"] = image["cstep"]
            weights = {**(weights or {}), **new_weights}
            if n_done > 0 or writer is None:
                writer = sim if n_done > 0 else writer
            lost_prev, w_prev = lost, spec["workers"]
            prev_ords = {int(rec[2]) for rec in cur.get("locked", []) if len(rec) > 2}
    return


def crash_plans(rng, quick):
    plans = []
    for seed in ((0, 3) if quick else (0, 1, 3, 11)):
        for n_ens, w in (((4, 2), (5, 3)) if quick else ((4, 2), (4, 3), (5, 3), (5, 4))):
            c1, c2 = rng.randint(1, 3), rng.randint(1, 3)
            # the usual crash (a job is lost), same workers: identical replay; then once more, then to the end
            plans.append((n_ens, [dict(workers=w, crash=("issued", c1)), dict(workers=w, crash=("issued", c2)),
                                  dict(workers=w, crash=None)], 14 + n_ens, seed))
            # other worker count after the crash: the lost job's streams may go to a different job (counted)
            plans.append((n_ens, [dict(workers=w, crash=("issued", c1)), dict(workers=1, crash=("issued", c2 + 1)),
                                  dict(workers=w, crash=None)], 14 + n_ens, seed))
            # a crash in the initiation loop of a restarted process (everything issued so far is lost), twice from the
            # same file; and a crash right at the write (nothing lost)
            plans.append((n_ens, [dict(workers=w, crash=("issued", c1)), dict(workers=w, crash=("init", w)),
                                  dict(workers=w, crash=("init", 1)), dict(workers=w, crash=("written", c2)),
                                  dict(workers=w, crash=None)], 14 + n_ens, seed))
    return plans


# ----------------------------------------------------------------------------- Monte-Carlo blocks: self.prob draws on the scheduler stream
def monte_carlo_case(ctx):
    """15 / 16 ensembles with unequal (wire-fencing-like) weights: `self.prob → inf_retis → random_prob` draws on the
    scheduler's stream (`random_prob` is run with 150 instead of 10 000 iterations: the number of iterations does not
    matter for WHICH stream is drawn on).  Tie: the driver's `mcdims` (Model/RepexDisk.mcDims = C02's decision logic)
    against the block sizes the real `inf_retis` announces, for the loaded state.  Predicates: every Monte-Carlo
    call is made on the scheduler's stream (entropy, ()) and never on a job stream; job streams are
    (seed, [ordinal, j]) / (seed, [ordinal, j, 0]), pairwise distinct and not the scheduler's."""
    import copy
    import re
    for n_ens, seed in (((15, 3),) if ctx.quick else ((15, 3), (16, 0))):
        label = f"monte-carlo n_ens={n_ens} seed={seed} ctxseed={ctx.seed}"
        rng = random.Random(label)
        rep0 = {"history": label, "params": ["mc", n_ens, seed], "ctxseed": ctx.seed}
        with _RealSims():
            sim = _real_sim(ctx, n_ens, 2, 6, seed, rng, wf=True)
            st = sim.st
            orig = st.random_prob
            st.random_prob = lambda arr, n=150: orig(arr, n=n)
            paths = [T.FakePath(0, (1.0,))] + [
                T.FakePath(i, [rng.choice([1, 2, 3, 5]) for _ in range(n_ens - 1)] + [0]) for i in range(1, n_ens)]
            buf = io.StringIO()
            error = None
            seen = []
            try:
                with contextlib.redirect_stdout(buf):
                    sim.load_initial(paths)
                    mark = len(buf.getvalue())
                    st._last_prob = None
                    st.prob                                     # one evaluation for the loaded state
                dims = [int(x) for x in re.findall(r"dims = (\d+)", buf.getvalue()[mark:])]
                idle = int(sum(1 for l in st._locks if not l))
                sim.emit("mcdims", f"idle={idle} dims=" + (",".join(str(d) for d in dims) if dims else "-"), "mcdims")
                ctx.count(1, c07_mc=f"loaded:idle={idle}:dims={dims}")
                base = {"mc_moves": st.mc_moves, "interfaces": st.interfaces, "cap": None}
                inflight = []
                n_model_lines = len(sim.lines)
                with contextlib.redirect_stdout(buf):
                    while sim.op_initiate():
                        inflight.append(sim.op_prep(copy.deepcopy(base)))
                    for _ in range(3):
                        if not sim.op_loop():
                            break
                        md = inflight.pop(rng.randrange(len(inflight)))
                        md = sim.op_treat(md, "REJ", sim.random_new_weights(md, rng))
                        if st.cstep + st.workers <= st.tsteps:
                            inflight.append(sim.op_prep(md))
                for (k, j, ens, rgen, rgeneng, pn) in job_streams(sim):
                    seen.append((k, j, rgen, rgeneng))
            except Exception as e:  # noqa: BLE001
                error = e
            mc = list(RealGen.mc_calls)
            # the exact P of 16 slots is out of reach of the model's permanent: only the set-up lines and `mcdims` go to the driver
            sim.lines, sim.real, sim.kinds = sim.lines[:n_model_lines], sim.real[:n_model_lines], sim.kinds[:n_model_lines]
            sim.snaps, sim.error = [], error
            sim.close()
        if error is not None:
            ctx.fail("C07:sampler-raised", f"{type(error).__name__}: {error} in {label}", rep0)
            continue
        on_sched = sum(1 for sid in mc if sid[1] == ())
        ctx.count(1, c07_mc="scheduler-stream-monte-carlo-calls>0" if on_sched else "no-monte-carlo-call")
        ctx.extra.setdefault("c07_mc", []).append({"n_ens": n_ens, "seed": seed, "mc_calls_on_scheduler_stream": on_sched,
                                                   "jobs": len({k for (k, _j, _a, _b) in seen})})
        for sid in mc:
            if sid[1] != () or sid[0] != seed:
                ctx.fail("C07:mc:monte-carlo-on-job-stream", f"random_prob drew on stream {sid}, not on the scheduler's "
                         f"({seed}, ())", dict(rep0, stream=str(sid)))
                break
        owner = {}
        for (k, j, rgen, rgeneng) in seen:
            for kind, sid, want in (("move", rgen, f"{seed}:{k},{j}"), ("engine", rgeneng, f"{seed}:{k},{j},0")):
                ctx.count(1, c07_mc_streams="examined")
                ctx.distinct((seed, sid))
                if sid != want:
                    ctx.fail("C07:stream-not-function-of-seed-and-ordinal", f"{label}: job {k} entry {j}: {kind} stream {sid}, "
                             f"expected {want}", rep0)
                if sid == f"{seed}:":
                    ctx.fail("C07:job-shares-scheduler-stream", f"{label}: {kind} stream {sid} is the scheduler's own", rep0)
                if sid in owner and owner[sid] != (k, j, kind):
                    ctx.fail("C07:stream-shared", f"{label}: stream {sid} handed out twice", rep0)
                owner[sid] = (k, j, kind)
        if ctx._driver_ok:
            T.compare(ctx, sim, ctx.driver(sim.lines), label)


# ----------------------------------------------------------------------------- engine set-up of select_shoot
ENG_NAMES = ["engine", "engine0", "engine1"]


def _sid(gen):
    ss = gen.bit_generator._seed_seq
    return f"{int(ss.entropy)}:" + ",".join(str(int(k)) for k in ss.spawn_key)


class _StubEngine:
    """an engine object of the worker process: records what select_shoot does to it"""

    def __init__(self, name, idx):
        self.name, self.idx, self.calls = name, idx, []

    def set_mdrun(self, pens):
        self.calls.append("set_mdrun")

    def clean_up(self):
        self.calls.append("clean_up")


def _job_layouts(rng, n_inst, quick):
    """eng_idx layouts {ens_num: {engine name: instance}} of one job: single ensembles and zero swaps; shared
    and distinct engine objects; one or several engine types per ensemble (quantis style)"""
    def idx():
        return rng.randrange(n_inst)
    out = []
    for name in ENG_NAMES:
        out.append({1: {name: idx()}})
    out.append({-1: {"engine0": idx()}})
    out.append({2: {"engine": idx(), "engine1": idx()}})
    i = idx()
    out.append({-1: {"engine": i}, 0: {"engine": i}})                       # one shared object
    out.append({-1: {"engine0": idx()}, 0: {"engine": idx()}})              # [0-] on its own engine
    out.append({-1: {"engine0": idx(), "engine1": idx()}, 0: {"engine": idx()}})
    i = idx()
    out.append({-1: {"engine0": idx(), "engine": i}, 0: {"engine": i, "engine1": idx()}})   # one shared, two own
    if not quick:
        out.append({-1: {"engine": 0}, 0: {"engine": n_inst - 1}})         # same type, different instances
    return out


def engine_setup_stub(ctx):
    """The set-up loop of the REAL select_shoot on stub engine objects (the moves themselves are replaced by
    probes that look at `engine.rgen` at the moment the move starts): a sequence of jobs in one worker process,
    so that every engine object carries a stale generator of an earlier job when the next job arrives.
    Predicate per job: every engine object the job uses holds an engine stream of THIS job — exactly its own
    ensemble's `rgen-eng` when only one picked ensemble lists the object.  Tie: the model's
    `assignEngineStreams` through the driver op `engsetup`."""
    import numpy as np
    import importlib.util  # noqa: F401
    import infretis.core.tis as tis

    saved = {k: getattr(tis, k) for k in ("ENGINES", "shoot", "wire_fencing", "retis_swap_zero", "quantis_swap_zero")}
    seen_at_move = {}

    class _P:  # a path stand-in
        path_number = 0

    def probe_single(ens_set, path, engine, start_cond=("L",)):
        seen_at_move["single"] = engine
        return True, _P(), "ACC"

    def probe_swap(picked, engines):
        seen_at_move["swap"] = {k: list(v) for k, v in engines.items()}
        return True, [_P(), _P()], "ACC"

    lines, reals, cases = [], [], []
    try:
        tis.shoot = tis.wire_fencing = probe_single
        tis.retis_swap_zero = tis.quantis_swap_zero = probe_swap
        for n_inst in ((1, 2) if ctx.quick else (1, 2, 3)):
            for seed in ((7,) if ctx.quick else (0, 7)):
                tis.ENGINES = {name: [_StubEngine(name, i) for i in range(n_inst)] for name in ENG_NAMES}
                layouts = _job_layouts(ctx.rng, n_inst, ctx.quick)
                order = layouts + ctx.rng.sample(layouts, len(layouts))
                for k, layout in enumerate(order):
                    quantis = any(len(v) > 1 for v in layout.values()) and len(layout) == 2 and ctx.rng.random() < 0.5
                    picked = {}
                    for j, (ens_num, eng_idx) in enumerate(layout.items()):
                        gen = np.random.default_rng(np.random.SeedSequence(seed, spawn_key=(k, j, 0)))
                        picked[ens_num] = {
                            "ens": {"mc_move": "sh" if ens_num % 2 else "wf", "ens_name": f"{ens_num:03d}",
                                    "start_cond": ("L",), "tis_set": {"quantis": quantis}, "rgen": None},
                            "traj": _P(), "pn_old": 0, "eng_idx": dict(eng_idx), "rgen-eng": gen,
                        }
                    rep = {"engine_setup": "stub", "instances": n_inst, "seed": seed, "job": k,
                           "layout": {str(e): v for e, v in layout.items()}}
                    seen_at_move.clear()
                    try:
                        tis.select_shoot(picked)
                    except Exception as e:  # noqa: BLE001
                        ctx.fail("C07:select_shoot:raised", f"select_shoot raised {type(e).__name__}: {e} on {rep}", rep)
                        continue
                    own = {id(p["rgen-eng"]): (e, _sid(p["rgen-eng"])) for e, p in picked.items()}
                    listers = {}
                    for ens_num, pens in picked.items():
                        for name, i in pens["eng_idx"].items():
                            listers.setdefault((name, i), []).append(ens_num)
                    for (name, i), who in listers.items():
                        eng = tis.ENGINES[name][i]
                        ctx.count(1, c07_engine_setup="zero-swap" if len(picked) == 2 else "single",
                                  c07_engine_objects="shared" if len(who) > 1 else "own")
                        ctx.distinct(("engsetup", n_inst, tuple(sorted((str(e), tuple(sorted(v.items()))) for e, v in layout.items()))))
                        g = getattr(eng, "rgen", None)
                        if g is None:
                            ctx.fail("C07:select_shoot:engine-without-job-stream",
                                     f"job {k}: engine object {name}[{i}] (ensembles {who}) has no rgen when the move starts",
                                     dict(rep, engine=[name, i]))
                        elif id(g) not in own:
                            ctx.fail("C07:select_shoot:engine-keeps-other-jobs-stream",
                                     f"job {k}: engine object {name}[{i}] (ensembles {who}) starts the move with the "
                                     f"generator {_sid(g)} of another job, not one of {sorted(s for _, s in own.values())}",
                                     dict(rep, engine=[name, i], holds=_sid(g)))
                        elif len(who) == 1 and own[id(g)][0] != who[0]:
                            ctx.fail("C07:select_shoot:engine-holds-wrong-entry",
                                     f"job {k}: engine object {name}[{i}] serves only ensemble {who[0]} but holds the "
                                     f"stream {_sid(g)} of ensemble {own[id(g)][0]}", dict(rep, engine=[name, i]))
                        if eng.calls[-2:] != ["set_mdrun", "clean_up"]:
                            ctx.hit("c07_engine_setup:no-set_mdrun/clean_up")
                    # what the move functions were handed must be these very objects
                    handed = ([seen_at_move["single"]] if "single" in seen_at_move
                              else [e for v in seen_at_move.get("swap", {}).values() for e in v])
                    for eng in handed:
                        if (eng.name, eng.idx) not in listers:
                            ctx.fail("C07:select_shoot:foreign-engine", f"job {k}: move got engine {eng.name}[{eng.idx}] "
                                     "that the job does not list", rep)
                    # tie: the whole table of the process after the job
                    lines.append("engsetup " + " ".join(
                        f"{seed}/{k},{j},0/" + (",".join(f"{ENG_NAMES.index(n)}:{i}" for n, i in p["eng_idx"].items()) or "-")
                        for j, p in enumerate(picked.values())))
                    reals.append({f"{ENG_NAMES.index(n)}:{e.idx}": _sid(e.rgen)
                                  for n, lst in tis.ENGINES.items() for e in lst if hasattr(e, "rgen")})
                    cases.append(rep)
                lines.append("engsetup-reset")
                reals.append(None)
                cases.append(None)
    finally:
        for k, v in saved.items():
            setattr(tis, k, v)
    if ctx._driver_ok and lines:
        # the driver keeps one table per process: one driver run per (instances, seed) block
        block, breal, bcase = [], [], []
        for ln, rl, cs in zip(lines, reals, cases):
            if ln == "engsetup-reset":
                for ans, rl2, cs2 in zip(ctx.driver(block), breal, bcase):
                    model = dict(x.split("=") for x in ans.split(";") if x)
                    if model != rl2:
                        ctx.disagree(cs2, rl2, model, "engine table after select_shoot vs assignEngineStreams")
                block, breal, bcase = [], [], []
            else:
                block.append(ln), breal.append(rl), bcase.append(cs)


def engine_setup_real(ctx):
    """End to end: the real scheduler objects (setup_config / setup_internal / REPEX_state / run_md) on the
    TurtleMD double well with `ensemble_engines` giving [0-] its own engine section, jobs run one after the
    other in this process.  Per job: it must not fail for want of a generator; every engine object it used
    holds one of ITS `rgen-eng` generators; and no generator that belongs to an EARLIER job was advanced."""
    import copy
    import os
    import shutil
    import tempfile
    from pathlib import Path
    import importlib.util  # noqa: F401
    import tomli
    import tomli_w
    import numpy as np
    import infretis
    import infretis.core.tis as tis
    import infretis.classes.repex as R
    from infretis.setup import setup_config, setup_internal
    from props import c07_jobs as J

    root = Path(infretis.__file__).resolve().parent.parent
    example = root / "examples" / "turtlemd" / "double_well"
    toml = root / "test" / "simulations" / "data" / "wf.toml"
    if not example.exists() or not toml.exists():
        ctx.extra["c07_engine_setup_real"] = "example files not found"
        return
    cwd0 = os.getcwd()
    saved_engines = tis.ENGINES
    saved_rng = R.default_rng
    plans = [(1, ctx.rng.randrange(1, 50))] if ctx.quick else [(1, ctx.rng.randrange(1, 50)), (2, ctx.rng.randrange(1, 50))]
    taps = contextlib.ExitStack()
    taps.enter_context(J.GenTap())
    taps.enter_context(J.Tripwire())
    for workers, seed in plans:
        tmp = tempfile.mkdtemp(prefix="c07eng2-", dir="/var/tmp")
        rep0 = {"engine_setup": "real-turtlemd", "workers": workers, "seed": seed,
                "ensemble_engines": "[0-] on its own section engine0"}
        try:
            os.chdir(tmp)
            shutil.copytree(example / "load_copy", "load")
            shutil.copy(example / "orderp.py", ".")
            with open(toml, "rb") as fh:
                config = tomli.load(fh)
            config["runner"]["workers"] = workers
            config["simulation"]["steps"] = 70
            config["simulation"]["seed"] = seed
            config["engine0"] = copy.deepcopy(config["engine"])
            n_ens = len(config["simulation"]["interfaces"])
            config["simulation"]["ensemble_engines"] = [["engine0"]] + [["engine"] for _ in range(n_ens - 1)]
            with open("infretis.toml", "wb") as fh:
                tomli_w.dump(config, fh)
            # every generator of the run is a tappable numpy Generator (spawn_rng builds children with type(rgen))
            R.default_rng = lambda seed=None: J.TapGen(np.random.PCG64(seed))
            with contextlib.redirect_stdout(io.StringIO()):   # the TurtleMD engine prints a reminder
                config = setup_config("infretis.toml")
                md_items, state = setup_internal(config)
            owned, pending = [], []
            ordinal, n_swaps = 0, 0

            def issue(items):
                nonlocal ordinal
                items = state.prep_md_items(items)
                items["c07_ordinal"] = ordinal
                ordinal += 1
                pending.append(items)

            while state.initiate():
                issue(copy.deepcopy(md_items))
            while state.loop() and n_swaps < 3:
                job = pending.pop(ctx.rng.randrange(len(pending)))
                num = job["c07_ordinal"]
                ens_nums = list(job["ens_nums"])
                mine = []
                for ens_num, pens in job["picked"].items():
                    mine.append((f"engine stream of ensemble {ens_num}", pens["rgen-eng"]))
                    mine.append((f"move stream of ensemble {ens_num}", pens["ens"]["rgen"]))
                engs = {e: dict(job["picked"][e]["eng_idx"]) for e in ens_nums}
                rep = dict(rep0, job=num, ensembles=ens_nums, engines={str(k): v for k, v in engs.items()})
                own_eng = {id(p["rgen-eng"]) for p in job["picked"].values()}
                jlog = J.JobLog()
                for ens_num, pens in job["picked"].items():
                    jlog.move_gens[id(pens["ens"]["rgen"])] = ens_num
                    jlog.eng_gens[id(pens["rgen-eng"])] = ens_num
                picked_before = dict(job["picked"])
                J.LOG = jlog
                try:
                    with contextlib.redirect_stdout(io.StringIO()):   # the TurtleMD engine prints a reminder
                        result = tis.run_md(job)
                except ValueError as e:
                    ctx.fail("C07:select_shoot:engine-without-job-stream",
                             f"job {num} (ensembles {ens_nums}, engines {engs}) failed: {e}", rep)
                    break
                finally:
                    J.LOG = None
                # every random number of the real job (real moves, real TurtleMD engine) was drawn on its own streams
                J.judge(ctx, jlog, picked_before, "real run_md", "turtlemd", None, dict(rep, job_draws="real-turtlemd"))
                ctx.hit(f"c07_engine_setup_real:draws_per_job={min(len([i for i in jlog.items if i[0] == 'D']), 20)}")
                ctx.count(1, c07_engine_setup_real="zero-swap" if len(ens_nums) == 2 else "single")
                n_swaps += len(ens_nums) == 2
                for ens_num, pens in job["picked"].items():
                    for name, i in pens["eng_idx"].items():
                        g = getattr(tis.ENGINES[name][i], "rgen", None)
                        if g is None or id(g) not in own_eng:
                            ctx.fail("C07:select_shoot:engine-keeps-other-jobs-stream",
                                     f"job {num} (ensembles {ens_nums}): engine object {name}[{i}] used for ensemble "
                                     f"{ens_num} holds " + ("no generator" if g is None else f"the generator {_sid(g)}")
                                     + " instead of one of the job's engine streams "
                                     f"{sorted(_sid(p['rgen-eng']) for p in job['picked'].values())}", dict(rep, engine=[name, i]))
                for num0, label, gen, snap in owned:
                    if gen.bit_generator.state != snap:
                        ctx.fail("C07:engine-draws-from-earlier-jobs-stream",
                                 f"job {num} (ensembles {ens_nums}, engines {engs}) drew random numbers from the {label} "
                                 f"({_sid(gen)}) of the earlier job {num0}", dict(rep, earlier_job=num0, stream=_sid(gen)))
                        break
                owned.extend((num, lab, gen, copy.deepcopy(gen.bit_generator.state)) for lab, gen in mine)
                returned = state.treat_output(result)
                if state.cstep + state.workers <= state.tsteps:
                    issue(returned)
            ctx.hit(f"c07_engine_setup_real:zero_swaps={min(n_swaps, 3)}")
            ctx.distinct(("engsetup-real", workers, seed))
        except Exception as e:  # noqa: BLE001  (infrastructure of the example, not the property)
            ctx.extra.setdefault("c07_engine_setup_real_errors", []).append(f"{type(e).__name__}: {e}")
        finally:
            os.chdir(cwd0)
            tis.ENGINES = saved_engines
            R.default_rng = saved_rng
            J.LOG = None
            shutil.rmtree(tmp, ignore_errors=True)
    taps.close()


def run(ctx):
    rng = ctx.rng
    ctx.rule = ("every (move, engine) stream handed to a job in scheduler-shaped histories of the real REPEX_state: seeds "
                "0..5, workers 1..ensembles-1, no restart / one / two restarts at random steps (with and without jobs in "
                "flight); evaluations = streams examined (+ 1 per job run / engine call of the job tie); distinct = "
                "distinct (seed, stream identity) resp. distinct (move, status, event list, engine kinds) of a job")
    plans = []
    for n_ens in (3, 4, 5):
        for w in range(1, n_ens):
            for seed in ((0, 1) if ctx.quick else (0, 1, 2, 5)):
                steps = 14 + 2 * n_ens
                plans.append((n_ens, w, steps, seed, False, ()))
                a = rng.randint(2, steps - 6)
                plans.append((n_ens, w, steps, seed, bool(seed % 2), (a,)))
                plans.append((n_ens, w, steps, seed, False, (a, rng.randint(a + 2, steps - 2))))
    outs = []

    def guarded(fn, *args):
        # an exception of the harness on changed code must not hide what the other generators find
        try:
            fn(*args)
        except common.Timeout:
            raise
        except Exception as e:  # noqa: BLE001
            ctx.extra.setdefault("c07_plan_errors", []).append(f"{fn.__name__}{args[:1]}: {type(e).__name__}: {e}"[:300])
            ctx.hit("c07_plan_error")

    for p in plans:
        guarded(one, ctx, p, ctx._driver_ok, outs)
    for (n_ens, segments, steps, seed, wf) in chain_plans(rng, ctx.quick):
        guarded(one_chain, ctx, n_ens, segments, steps, seed, wf, ctx._driver_ok, outs)
    # crashes: the new process is built from the file ON DISK (a job issued after the last write is lost)
    for (n_ens, segments, steps, seed) in crash_plans(rng, ctx.quick):
        label = f"crash n_ens={n_ens} steps={steps} seed={seed} segments={segments} ctxseed={ctx.seed}"
        guarded(crash_chain, ctx, n_ens, segments, steps, seed, ctx._driver_ok, outs, label)
    # restart files of the old format (records without ordinal)
    for seed in ((0, 3) if ctx.quick else (0, 1, 3, 11)):
        for n_ens, w in (((4, 3),) if ctx.quick else ((4, 3), (5, 2), (5, 4))):
            guarded(old_format_chain, ctx, n_ens, w, rng.randint(2, 5), 14 + n_ens, seed, ctx._driver_ok, outs)
    for sm, label in outs:
        T.compare(ctx, sm, ctx.driver(sm.lines), label)
    guarded(monte_carlo_case, ctx)
    if outs:
        ctx.sample({"history": outs[-1][1], "streams_of_last_segment": job_streams(outs[-1][0])[:6]})
    # the engine half: every in-process draw of every engine class is made on the job's engine stream
    try:
        from props.c16 import run_c07_engine_streams
        buf = io.StringIO()        # some engine classes print reminders / warnings: the check stays silent
        try:
            with contextlib.redirect_stdout(buf):
                run_c07_engine_streams(ctx)
        finally:
            for line in buf.getvalue().splitlines():
                if line.startswith("KNOWN-FINDING"):
                    print(line, flush=True)
    except ImportError as e:  # pragma: no cover
        ctx.extra["c07_engine_streams"] = f"not available: {e}"
    # the set-up of the engines of a job in select_shoot: which engine object gets which stream
    guarded(engine_setup_stub, ctx)
    guarded(engine_setup_real, ctx)
    # the composed job: real select_shoot + real moves + real engine objects vs JobDraws.runJob (driver op jobdraws)
    from props import c07_jobs
    guarded(c07_jobs.run_jobs, ctx)
    ctx.assumptions += [
        "object history: one REPEX_state per segment lives through the whole segment; engine objects are used by "
        "successive jobs (stale generators) and compared with fresh engine objects; the model is functional, so "
        "this part is tie-only",
        "numpy: streams with different (entropy, spawn_key) are independent, equal ones identical (not modelled)",
        "identity of a stream = (SeedSequence.entropy, spawn_key) read from the generator objects inside md_items",
        "draws made in-process by moves/engines: every job of the job tie (c07_jobs) is judged draw by draw; the numbers "
        "themselves (velocities, acceptance) are C09/C16's",
        "crash restarts: restart.toml is written only at the end of treat_output and by the last loop(); a job issued "
        "after the last write is lost by a crash (never completes, result never consumed, no record) and its ordinal is "
        "issued again to the first fresh job of the new process (Lean: lost_job_ordinal_reissued). With an UNCHANGED number "
        "of workers and the restored rng_state that job is the identical (ensemble, path) job (checked: "
        "C07:crash:same-workers-lost-job-not-replayed); with ANOTHER number of workers it is in general a different job, "
        "which then draws on the lost job's streams — an observation counted in the histogram (c07_crash=workers-changed:…), "
        "not a violation: distinctness is claimed and checked for the jobs whose results are consumed",
        "Monte-Carlo blocks: with more than 12 idle ensembles and unequal weights self.prob draws on the scheduler's OWN "
        "stream through random_prob (not part of mainDraws / scheduler_draws_accounted; guard: pick_draws_accounted_partial); "
        "the tie runs random_prob with 150 instead of 10000 iterations and compares only the block decision (mcdims) there",
        "engine classes: the five classes GROMACS, CP2K, LAMMPS, TurtleMD, ASE are modelled and tied; AMSEngine "
        "(infretis/classes/engines/ams.py; needs scm.plams, not installed here) is neither: its velocities are generated "
        "inside the external AMS program (worker.GenerateVelocities), it never reads engine.rgen — like gmx's own gen_vel "
        "this is outside the in-process claim, but unlike it the property text does not name it",
    ]


def replay(ctx, obj):
    r = obj.get("replay", {})
    if r.get("job_draws") and r.get("plan"):
        from props import c07_jobs
        rc = c07_jobs.replay_jobs(ctx, r)
        for f in ctx.fails:
            print("still fails:", f["signature"], f["what"])
        return rc
    if not r.get("params"):
        # failures of the engine-side generators carry no history: re-run the generator that reported them
        if obj.get("seed") is not None:
            ctx.seed = obj["seed"]
            ctx.rng = random.Random(f"{ctx.prop}:{ctx.seed}")
        if "engine_setup" in r or r.get("job_draws") == "real-turtlemd":
            engine_setup_stub(ctx)
            engine_setup_real(ctx)
        elif "engine" in r and "rgen_seed_job1" in r:
            from props.c16 import run_c07_engine_streams
            with contextlib.redirect_stdout(io.StringIO()):
                run_c07_engine_streams(ctx)
        elif "engine_call" in r:
            import tempfile
            from pathlib import Path
            from props import c07_jobs
            work = Path(tempfile.mkdtemp(prefix="c07jobs-", dir="/var/tmp"))
            try:
                with c07_jobs.GenTap(), c07_jobs.Tripwire():
                    c07_jobs.engine_calls(ctx, work)
            finally:
                import shutil
                shutil.rmtree(work, ignore_errors=True)
        else:
            print("no history parameters in this replay file:", r)
            return 1
        want = obj.get("signature")
        still = [f for f in ctx.fails if want is None or f["signature"] == want]
        for f in still:
            print("still fails:", f["signature"], f["what"])
        return 1 if (still or ctx.known_hits) else 0
    ctx.seed = r.get("ctxseed", ctx.seed)
    if r["params"][0] == "crash":
        _tag, n_ens, segments, steps, seed = r["params"]
        segments = [dict(sp, crash=tuple(sp["crash"]) if sp.get("crash") else None) for sp in segments]
        crash_chain(ctx, n_ens, segments, steps, seed, False, [], r.get("history", "replay"))
    elif r["params"][0] == "oldfmt":
        _tag, n_ens, workers, stop, steps, seed = r["params"]
        old_format_chain(ctx, n_ens, workers, stop, steps, seed, False, [])
    elif r["params"][0] == "mc":
        monte_carlo_case(ctx)
    elif r["params"][0] == "chain":
        _tag, n_ens, segments, steps, seed, wf = r["params"]
        one_chain(ctx, n_ens, segments, steps, seed, wf, False, [])
    else:
        one(ctx, tuple(r["params"]), False, [])
    for f in ctx.fails:
        print("still fails:", f["signature"], f["what"])
    # known findings are swallowed by ctx.fail; report them as still failing for a replay
    return 1 if (ctx.fails or ctx.known_hits) else 0
