"""C07 — every job gets its own random stream.

Tie: real REPEX_state (with numpy Generator subclasses so that every spawned stream reports its
SeedSequence identity) vs the Lean state machine's stream identities (Infretis.Repex: Stream, spawnStream,
mkPicked, setRgen), over straight histories and chains of restarts, 1..n-1 workers.
Property predicates on the real identities: pairwise distinct, distinct from the scheduler's stream,
equal to (seed, [ordinal, j]) / (seed, [ordinal, j, 0]).
In-process draws of moves/engines are covered by the engine packages (C09/C16) which log the stream a
draw was made on; here the scheduler side is decided.
"""
from __future__ import annotations

import random

import repex_tie as T


def job_streams(sim):
    """[(segment, ordinal in segment, ens, move stream, engine stream)] from the real prep answers"""
    out = []
    k = 0
    for line, real, kind in zip(sim.lines, sim.real, sim.kinds):
        if kind == "prep" and not real.startswith("err"):
            picked = real.split(" picked=")[1]
            for j, p in enumerate(picked.split(";")):
                ens, pn, rgen, rgeneng, _eng = p.split("/")
                out.append((k, j, int(ens), rgen, rgeneng, int(pn)))
            k += 1
    return out


def predicates(ctx, chain, label, seed, workers):
    """chain = list of Sims (segments between restarts), in order.

    A job's streams must be (seed, [ordinal, j]) / (seed, [ordinal, j, 0]) where the ordinal counts the
    jobs issued over the whole chain; a job re-issued after a restart is the SAME job (same ensembles and
    paths, recorded in flight at the stop) and must get the very streams it had; no two different jobs
    may share a stream and none may use the scheduler's."""
    next_ord = 0
    ord_of = {}                # job key (tuple of (ens, pn)) -> ordinal of the job in flight with that key
    owner = {}                 # stream id -> job key that legitimately owns it
    nstreams = 0
    rep0 = {"history": label, "params": getattr(chain[-1], "params", None), "ctxseed": ctx.seed}
    for seg, sim in enumerate(chain):
        main_ids = set()
        for (_tag, d, _held) in sim.snaps:
            main_ids.add(d["rng"].split(":")[0] + ":")
        js = job_streams(sim)
        by_job = {}
        for (k, j, ens, rgen, rgeneng, pn) in js:
            by_job.setdefault(k, []).append((j, ens, rgen, rgeneng, pn))
        n_re = sum(1 for line in sim.lines if line.startswith("locked0 ")) if seg > 0 else 0
        for k in sorted(by_job):
            ents = sorted(by_job[k])
            key = tuple((e, pn) for (_j, e, _r, _re, pn) in ents)
            reissue = seg > 0 and k < n_re
            if reissue and key in ord_of:
                ordinal = ord_of[key]
            else:
                if reissue:
                    ctx.fail("C07:restart:reissued-job-unknown", f"job {key} re-issued in segment {seg} was not in flight before",
                             dict(rep0, segment=seg, job_in_segment=k))
                ordinal = next_ord
                next_ord += 1
                ord_of[key] = ordinal
            for (j, ens, rgen, rgeneng, pn) in ents:
                want_move, want_eng = f"{seed}:{ordinal},{j}", f"{seed}:{ordinal},{j},0"
                nstreams += 2
                for kind, sid, want in (("move", rgen, want_move), ("engine", rgeneng, want_eng)):
                    rep = dict(rep0, segment=seg, job_in_segment=k, ensemble=ens, stream=sid, kind=kind, expected=want)
                    if sid in main_ids:
                        ctx.fail("C07:job-shares-scheduler-stream", f"{kind} stream {sid} is the scheduler's own", rep)
                    if sid in owner and owner[sid] != (key, ordinal):
                        sig = ("C07:restart-chain:ordinal-reused-after-reissue" if seg > 1
                               else "C07:restart:multiworker-stream-collision" if seg > 0 and workers > 1
                               else "C07:restart:stream-reused-after-restart" if seg > 0 else "C07:stream-shared")
                        ctx.fail(sig, f"{kind} stream {sid} of job {key} (segment {seg}) already belongs to job {owner[sid][0]} "
                                      f"(ordinal {owner[sid][1]})", rep)
                    owner.setdefault(sid, (key, ordinal))
                    if sid != want:
                        if seg > 0 and sid.split(":")[0] != str(seed):
                            sig = "C07:restart:entropy-not-seed"
                        elif seg > 1:
                            sig = "C07:restart-chain:ordinal-reused-after-reissue"
                        elif seg > 0:
                            sig = "C07:restart:ordinal-not-continued"
                        else:
                            sig = "C07:stream-not-function-of-seed-and-ordinal"
                        ctx.fail(sig, f"job {key} (segment {seg}, {'re-issued' if reissue else 'fresh'}, ordinal {ordinal}) "
                                      f"ensemble {ens}: {kind} stream {sid}, expected {want}", rep)
        # jobs completed in this segment leave `ord_of` (their key may be issued again as a NEW job later)
        done_keys = set()
        for line in sim.lines:
            if line.startswith("treat "):
                pin = int(line.split()[1])
                done_keys.add(pin)
        # completion is tracked through the in-flight summaries of the last snapshot
        if sim.snaps:
            still = set()
            for (_pin, picked, _eng, _wf) in sim.snaps[-1][2]:
                still.add(tuple(sorted(picked)))
            for key in list(ord_of):
                if tuple(sorted(key)) not in still:
                    del ord_of[key]
        if sim.error is not None:
            ctx.fail("C07:sampler-raised", f"{type(sim.error).__name__}: {sim.error}", rep0)
    return nstreams


def one(ctx, params, with_model, outs):
    n_ens, workers, steps, seed, wf, restarts = params[:6]
    label = f"n_ens={n_ens} workers={workers} steps={steps} seed={seed} wf={wf} restarts={list(restarts)} ctxseed={ctx.seed}"
    sim = T.run_history(ctx, n_ens, workers, steps, seed=seed, wf=wf, restarts=tuple(restarts), rng=random.Random(label))
    sim.params = list(params)
    chain = sim.previous + [sim]
    n = predicates(ctx, chain, label, seed, workers)
    ctx.count(n, restarts=len(restarts), workers=("1" if workers == 1 else ">1"))
    for sm in chain:
        for (k, j, ens, rgen, rgeneng, _pn) in job_streams(sm):
            ctx.distinct((seed, rgen))
            ctx.distinct((seed, rgeneng))
        if with_model:
            outs.append((sm, label))
    return chain


def run(ctx):
    rng = ctx.rng
    ctx.rule = ("every (move, engine) stream handed to a job in scheduler-shaped histories of the real REPEX_state: seeds "
                "0..5, workers 1..ensembles-1, no restart / one / two restarts at random steps (with and without jobs in "
                "flight); evaluations = streams examined; distinct = distinct (seed, stream identity)")
    plans = []
    for n_ens in (3, 4, 5):
        for w in range(1, n_ens):
            for seed in ((0, 1) if ctx.quick else (0, 1, 2, 5)):
                steps = 14 + 2 * n_ens
                plans.append((n_ens, w, steps, seed, False, ()))
                a = rng.randint(2, steps - 6)
                plans.append((n_ens, w, steps, seed, bool(seed % 2), (a,)))
                plans.append((n_ens, w, steps, seed, False, (a, rng.randint(a + 2, steps - 2))))
    outs = []
    for p in plans:
        one(ctx, p, ctx._driver_ok, outs)
    for sm, label in outs:
        T.compare(ctx, sm, ctx.driver(sm.lines), label)
    if outs:
        ctx.sample({"history": outs[-1][1], "streams_of_last_segment": job_streams(outs[-1][0])[:6]})
    # the engine half: every in-process draw of every engine class is made on the job's engine stream
    try:
        from props.c16 import run_c07_engine_streams
        run_c07_engine_streams(ctx)
    except ImportError as e:  # pragma: no cover
        ctx.extra["c07_engine_streams"] = f"not available: {e}"
    ctx.assumptions += [
        "numpy: streams with different (entropy, spawn_key) are independent, equal ones identical (not modelled)",
        "identity of a stream = (SeedSequence.entropy, spawn_key) read from the generator objects inside md_items",
        "draws made in-process by moves/engines on these streams are checked in C09/C16 (stream of every logged draw)",
    ]


def replay(ctx, obj):
    r = obj.get("replay", {})
    if not r.get("params"):
        print("no history parameters in this replay file:", r)
        return 1
    ctx.seed = r.get("ctxseed", ctx.seed)
    one(ctx, tuple(r["params"]), False, [])
    for f in ctx.fails:
        print("still fails:", f["signature"], f["what"])
    # known findings are swallowed by ctx.fail; report them as still failing for a replay
    return 1 if (ctx.fails or ctx.known_hits) else 0
