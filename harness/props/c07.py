"""C07 — every job gets its own random stream.

Tie: real REPEX_state (with numpy Generator subclasses so that every spawned stream reports its
SeedSequence identity) vs the Lean state machine's stream identities (Infretis.Repex: Stream, spawnStream,
mkPicked, setRgen), over straight histories and chains of restarts, 1..n-1 workers.
Property predicates on the real identities: pairwise distinct, distinct from the scheduler's stream,
equal to (seed, [ordinal, j]) / (seed, [ordinal, j, 0]).
In-process draws of moves/engines are covered by the engine packages (C09/C16) which log the stream a
draw was made on; here the scheduler side is decided.
"""
from __future__ import annotations

import random

import repex_tie as T


def job_streams(sim):
    """[(segment, ordinal in segment, ens, move stream, engine stream)] from the real prep answers"""
    out = []
    k = 0
    for line, real, kind in zip(sim.lines, sim.real, sim.kinds):
        if kind == "prep" and not real.startswith("err"):
            picked = real.split(" picked=")[1]
            for j, p in enumerate(picked.split(";")):
                ens, pn, rgen, rgeneng, _eng = p.split("/")
                out.append((k, j, int(ens), rgen, rgeneng))
            k += 1
    return out


def predicates(ctx, chain, label, seed, workers):
    """chain = list of Sims (segments between restarts), in order"""
    seen = {}
    ordinal = 0
    # after a restart that re-issued recorded jobs, the restart file's cstep + |locked| under-counts the
    # jobs issued (re-issued jobs took fresh ordinals): a LATER restart then re-uses ordinals (open finding)
    reissued_before = 0
    rep0 = {"history": label, "params": getattr(chain[-1], "params", None), "ctxseed": ctx.seed}
    for seg, sim in enumerate(chain):
        main_ids = set()
        for (_tag, d, _held) in sim.snaps:
            main_ids.add(d["rng"].split(":")[0] + ":")
        js = job_streams(sim)
        njobs = (max(k for k, *_ in js) + 1) if js else 0
        for (k, j, ens, rgen, rgeneng) in js:
            for kind, sid in (("move", rgen), ("engine", rgeneng)):
                rep = dict(rep0, segment=seg, job_in_segment=k, ensemble=ens, stream=sid, kind=kind)
                if sid in seen:
                    o = seen[sid]
                    both_after_restart = seg > 0 and o[0] == seg
                    sig = ("C07:restart-chain:ordinal-reused-after-reissue" if seg > 1 and reissued_before > 0
                           else "C07:restart:multiworker-stream-collision" if seg > 0 and workers > 1
                           else "C07:restart:stream-reused-after-restart" if seg > 0
                           else "C07:stream-shared")
                    ctx.fail(sig, f"{kind} stream {sid} of job {k} (segment {seg}) was already given to job {o[1]} "
                                  f"(segment {o[0]}, {o[2]} stream)", dict(rep, other=o, concurrent=both_after_restart))
                else:
                    seen[sid] = (seg, k, kind)
                if sid in main_ids:
                    ctx.fail("C07:job-shares-scheduler-stream", f"{kind} stream {sid} is the scheduler's own", rep)
            want_move = f"{seed}:{ordinal + k},{j}"
            want_eng = f"{seed}:{ordinal + k},{j},0"
            if rgen != want_move or rgeneng != want_eng:
                if seg > 1 and reissued_before > 0 and rgen.split(":")[0] == str(seed):
                    sig = "C07:restart-chain:ordinal-reused-after-reissue"
                elif seg > 0 and rgen.split(":")[0] != str(seed):
                    sig = "C07:restart:entropy-not-seed"
                elif seg > 0:
                    sig = "C07:restart:ordinal-not-continued"
                else:
                    sig = "C07:stream-not-function-of-seed-and-ordinal"
                ctx.fail(sig, f"job {k} of segment {seg} ensemble {ens}: streams {rgen} / {rgeneng}, expected "
                              f"{want_move} / {want_eng}", dict(rep0, segment=seg, job_in_segment=k))
        ordinal += njobs
        # jobs re-issued in THIS segment (locked0 entries at its start) matter for the NEXT restart
        n_re = sum(1 for line in sim.lines if line.startswith("locked0 "))
        if seg > 0:
            reissued_before += min(n_re, njobs)
        if sim.error is not None:
            ctx.fail("C07:sampler-raised", f"{type(sim.error).__name__}: {sim.error}", rep0)
    return len(seen)


def one(ctx, params, with_model, outs):
    n_ens, workers, steps, seed, wf, restarts = params[:6]
    label = f"n_ens={n_ens} workers={workers} steps={steps} seed={seed} wf={wf} restarts={list(restarts)} ctxseed={ctx.seed}"
    sim = T.run_history(ctx, n_ens, workers, steps, seed=seed, wf=wf, restarts=tuple(restarts), rng=random.Random(label))
    sim.params = list(params)
    chain = sim.previous + [sim]
    n = predicates(ctx, chain, label, seed, workers)
    ctx.count(n, restarts=len(restarts), workers=("1" if workers == 1 else ">1"))
    for sm in chain:
        for (k, j, ens, rgen, rgeneng) in job_streams(sm):
            ctx.distinct((seed, rgen))
            ctx.distinct((seed, rgeneng))
        if with_model:
            outs.append((sm, label))
    return chain


def run(ctx):
    rng = ctx.rng
    ctx.rule = ("every (move, engine) stream handed to a job in scheduler-shaped histories of the real REPEX_state: seeds "
                "0..5, workers 1..ensembles-1, no restart / one / two restarts at random steps (with and without jobs in "
                "flight); evaluations = streams examined; distinct = distinct (seed, stream identity)")
    plans = []
    for n_ens in (3, 4, 5):
        for w in range(1, n_ens):
            for seed in ((0, 1) if ctx.quick else (0, 1, 2, 5)):
                steps = 14 + 2 * n_ens
                plans.append((n_ens, w, steps, seed, False, ()))
                a = rng.randint(2, steps - 6)
                plans.append((n_ens, w, steps, seed, bool(seed % 2), (a,)))
                plans.append((n_ens, w, steps, seed, False, (a, rng.randint(a + 2, steps - 2))))
    outs = []
    for p in plans:
        one(ctx, p, ctx._driver_ok, outs)
    for sm, label in outs:
        T.compare(ctx, sm, ctx.driver(sm.lines), label)
    if outs:
        ctx.sample({"history": outs[-1][1], "streams_of_last_segment": job_streams(outs[-1][0])[:6]})
    # the engine half: every in-process draw of every engine class is made on the job's engine stream
    try:
        from props.c16 import run_c07_engine_streams
        run_c07_engine_streams(ctx)
    except ImportError as e:  # pragma: no cover
        ctx.extra["c07_engine_streams"] = f"not available: {e}"
    ctx.assumptions += [
        "numpy: streams with different (entropy, spawn_key) are independent, equal ones identical (not modelled)",
        "identity of a stream = (SeedSequence.entropy, spawn_key) read from the generator objects inside md_items",
        "draws made in-process by moves/engines on these streams are checked in C09/C16 (stream of every logged draw)",
    ]


def replay(ctx, obj):
    r = obj.get("replay", {})
    if not r.get("params"):
        print("no history parameters in this replay file:", r)
        return 1
    ctx.seed = r.get("ctxseed", ctx.seed)
    one(ctx, tuple(r["params"]), False, [])
    for f in ctx.fails:
        print("still fails:", f["signature"], f["what"])
    # known findings are swallowed by ctx.fail; report them as still failing for a replay
    return 1 if (ctx.fails or ctx.known_hits) else 0
