"""C07, the in-process half: every random number a JOB draws, with the generator object it is drawn on.

Tie of `Infretis.JobDraws.runJob` (Model/JobDraws.lean; driver op `jobdraws`) against the real
`tis.select_shoot` running the real moves (shoot / wire_fencing / retis_swap_zero / quantis_swap_zero) on the
`picked` dict the real `REPEX_state.prep_md_items` handed out, with REAL engine objects of every engine class
(GROMACS, CP2K, LAMMPS, TurtleMD, ASE; built offline as C16 does) as `tis.ENGINES`:

* the generator objects inside `picked` are the ones `prep_md_items` spawned; every method call on ANY generator
  of the process is logged with the identity (entropy, spawn_key) of the generator it was made on;
* the engine objects run their own `modify_velocities` and `_propagate_from` (so the draws they make on
  `engine.rgen`, the seeds they hand on, the Langevin noise are the real code's), only the ORDER VALUES the move
  sees are scripted (the MD result of the real call goes to a scratch path; GROMACS/CP2K propagation and gmx's
  own velocity generation need the external programs and are replaced by stand-ins that draw nothing);
* the same engine objects serve job after job (stale generators), several engine types per run.

Compared with the model on every job: acceptance, status, the events of the move (draws on move streams and
engine calls, in call order), the resolved trace (source + kind of every random number, in call order) and the
`engine.rgen` table of the process afterwards.  Property predicates, independent of the model: every draw of a
job is made on a generator object of THAT job; nothing is drawn from numpy's global state, Python's `random`,
`os.urandom`; no generator is built from anything but a value drawn on the job's stream; the seeds handed to
LAMMPS / TurtleMD are the values drawn; the job does not fail for want of a generator.
"""
from __future__ import annotations

import contextlib
import io
import math
import os
import random as _pyrandom
import shutil
import tempfile
import traceback
import warnings
from collections import deque
from fractions import Fraction
from pathlib import Path

import numpy as np

import common
import repex_tie as T
from common import err_kind, frac_token, lst

NEG_INF = -1000          # "−inf" of the [0-] ensemble, below every order value generated here
KIND_ENGINE = {"gmx0": "gromacs", "gmx1": "gromacs", "cp2k": "cp2k", "lammps": "lammps", "turtlemd": "turtlemd",
               "ase0": "ase", "ase1": "ase"}
GEN_METHODS = ("integers", "random", "normal", "standard_normal", "uniform", "choice", "bytes", "shuffle",
               "permutation", "permuted", "exponential", "standard_exponential", "gamma", "standard_gamma", "beta",
               "binomial", "poisson", "multivariate_normal", "lognormal", "laplace", "logistic", "triangular",
               "vonmises", "wald", "weibull", "zipf", "geometric", "hypergeometric", "chisquare", "f", "gumbel",
               "pareto", "power", "rayleigh", "standard_cauchy", "standard_t", "negative_binomial",
               "noncentral_chisquare", "noncentral_f", "logseries", "multinomial", "dirichlet")
NP_GLOBAL = ("random", "rand", "randn", "randint", "random_sample", "ranf", "sample", "random_integers",
             "normal", "standard_normal", "uniform", "choice", "shuffle", "permutation", "bytes", "seed",
             "exponential", "gamma", "beta", "binomial", "poisson", "multivariate_normal", "lognormal",
             "standard_exponential", "standard_gamma", "standard_cauchy", "standard_t", "triangular", "laplace",
             "set_state")
PY_GLOBAL = ("random", "randint", "randrange", "uniform", "gauss", "normalvariate", "choice", "choices", "shuffle",
             "sample", "getrandbits", "seed", "betavariate", "expovariate", "triangular", "randbytes", "setstate")


# ----------------------------------------------------------------------------- the log of one job
class JobLog:
    """everything observed while one job runs"""

    def __init__(self):
        self.items = []          # ("D", gen object, sid, what, in_engine, value) | ("E", obj, call) | ("G", what, where)
        self.in_engine = 0       # depth of engine calls
        self.in_prop = 0         # inside a real _propagate_from
        self.idx = deque()       # scripted raw outcomes of integers on move streams
        self.xi = deque()        # scripted outcomes of random()
        self.used_idx = []
        self.used_xi = []
        self.new_generators = [] # default_rng(...) constructions: (seed, where)
        self.seeds_handed = []   # ("lammps"|"turtlemd", value)
        self.move_gens = {}      # id(generator) -> ens_num     (the job's move streams)
        self.eng_gens = {}       # id(generator) -> ens_num     (the job's engine streams)
        self.tmd = []            # (TurtleMD integrator class, "ran" | "typeerror", seed drawn before?) per real propagate


LOG = None     # the JobLog of the job that is running (None: nothing is logged)


def _where():
    fr = [f for f in traceback.extract_stack(limit=10)[:-2] if "harness/" not in f.filename]
    return f"{fr[-1].filename}:{fr[-1].lineno}" if fr else "?"


def _what(name, args, kwargs, in_prop):
    if name == "integers":
        lo = args[0] if args else kwargs.get("low", 0)
        hi = args[1] if len(args) > 1 else kwargs.get("high")
        if hi is None:
            lo, hi = 0, lo
        try:
            lo_i, hi_i = int(lo), int(hi)
        except (TypeError, ValueError):
            return f"int:{lo}:{hi}"
        return f"seed:{hi_i}" if lo_i == 0 else f"int:{lo_i}:{hi_i}"
    if name == "standard_normal":
        return "noise" if in_prop else "stdnormal"
    return name


class TapGen(np.random.Generator):
    """a plain numpy Generator that can be tapped (for runs of the real scheduler objects: install it as
    `infretis.classes.repex.default_rng`; `spawn_rng` builds every job stream with `type(rgen)`)"""

    def sid(self):
        ss = self.bit_generator._seed_seq
        ent = ss.entropy
        return (int(ent) if ent is not None else -1, tuple(int(k) for k in ss.spawn_key))


class GenTap:
    """logs every draw method of EVERY generator of the process (they are all `T.ScriptedGen` resp. `TapGen`,
    because `spawn_rng` builds children with `type(rgen)`); `integers` / `random` on a MOVE stream of the running
    job return scripted outcomes when there are any (after numpy has checked the arguments)"""

    def __enter__(self):
        self.saved = []
        for cls in (T.ScriptedGen, TapGen):
            self._tap(cls)
        return self

    def _tap(self, cls):
        base = np.random.Generator
        for name in GEN_METHODS:
            if not hasattr(base, name):
                continue
            self.saved.append((cls, name, cls.__dict__.get(name, None)))

            def make(name, orig=getattr(base, name), own=cls.__dict__.get(name, None)):
                def method(self, *a, **k):
                    log = LOG
                    if log is None:
                        return (own or orig)(self, *a, **k)
                    what = _what(name, a, k, log.in_prop > 0)
                    scripted = id(self) in log.move_gens and not log.in_engine
                    if name == "integers":
                        val = orig(self, *a, **k)            # raises exactly when numpy would
                        if scripted and np.ndim(val) == 0 and log.idx:
                            lo, hi = int(a[0]), int(a[1])
                            val = lo + log.idx.popleft() % (hi - lo)
                            log.used_idx.append(int(val))
                    elif name == "random" and not a and not k:
                        if scripted and log.xi:
                            val = log.xi.popleft()
                            log.used_xi.append(val)
                        else:
                            val = orig(self)
                            if scripted:
                                log.used_xi.append(float(val))
                    else:
                        val = orig(self, *a, **k)
                    log.items.append(("D", self, self.sid(), what, log.in_engine > 0,
                                      val if np.ndim(val) == 0 else None))
                    return val
                return method
            setattr(cls, name, make(name))

    def __exit__(self, *a):
        for cls, name, old in self.saved:
            if old is None:
                try:
                    delattr(cls, name)
                except AttributeError:
                    pass
            else:
                setattr(cls, name, old)


class Tripwire:
    """numpy's global random functions, Python's `random` module, `os.urandom` (also the copy bound inside
    `random`, which `secrets` / an unseeded `SeedSequence()` reach) and every `default_rng(...)` construction
    (also the names bound inside turtlemd.integrators and infretis.classes.repex): the calls go through
    unchanged and are logged into the running job's log"""

    def __init__(self):
        self._saved = []

    def _wrap(self, mod, name, kind):
        orig = getattr(mod, name)

        def w(*a, **k):
            log = LOG
            if log is not None:
                if kind == "gen":
                    seed = a[0] if a else k.get("seed")
                    log.new_generators.append((seed, _where()))
                else:
                    what = _what(name, a, k, log.in_prop > 0) if kind.startswith("numpy") else name
                    log.items.append(("G", f"{kind}.{name}", what, _where()))
            return orig(*a, **k)
        self._saved.append((mod, name, orig))
        setattr(mod, name, w)

    def __enter__(self):
        for n in NP_GLOBAL:
            if hasattr(np.random, n):
                self._wrap(np.random, n, "numpy.random")
        for n in PY_GLOBAL:
            if hasattr(_pyrandom, n):
                self._wrap(_pyrandom, n, "random")
        self._wrap(os, "urandom", "os")
        if hasattr(_pyrandom, "_urandom"):
            self._wrap(_pyrandom, "_urandom", "os")
        self._wrap(np.random, "default_rng", "gen")
        for modname in ("turtlemd.integrators", "ase.md.langevin", "ase.md.velocitydistribution"):
            try:
                mod = __import__(modname, fromlist=["x"])
                if hasattr(mod, "default_rng"):
                    self._wrap(mod, "default_rng", "gen")
            except Exception:  # noqa: BLE001
                pass
        return self

    def __exit__(self, *a):
        for mod, name, orig in reversed(self._saved):
            setattr(mod, name, orig)


# ----------------------------------------------------------------------------- real engines, scripted order values
class World:
    """the engine objects of one worker process: `tis.ENGINES`-shaped dict of REAL engines with scripted orders"""

    def __init__(self, ctx, work, kinds, n_inst):
        from props import c16
        from infretis.classes.orderparameter import OrderParameter
        self.c16 = c16
        self.mods = c16._imports()
        self.work = Path(work)
        self.work.mkdir(parents=True, exist_ok=True)
        self.kinds = list(kinds)
        self.script = None           # the Script of the running job

        class OP(OrderParameter):
            def __init__(self):
                super().__init__(description="scripted", velocity=False)
                self.value = 0.0

            def calculate(self, system):
                return [float(self.value)]

        self.OP = OP
        self.engines = {}            # name -> [engine objects]
        self.src = {}                # kind -> (source file, frame index)
        for t, kind in enumerate(self.kinds):
            name = f"engine{t}"
            self.engines[name] = [self._build(ctx, kind, t, i) for i in range(n_inst)]

    def _build(self, ctx, kind, t, i):
        c16 = self.c16
        eng = KIND_ENGINE[kind]
        rng = _pyrandom.Random(f"c07-world-{kind}")           # the same small system for every object of a kind
        case = c16.gen_case(rng, eng, 3, 300, False, "plain")
        if eng == "gromacs":
            case["g96_vel_section"] = True
        tag = f"_{t}_{i}"
        integ = {"ase0": "velocityverlet", "ase1": "langevin",
                 "turtlemd": ("langevininertia", "velocityverlet", "langevinoverdamped")[(t + i) % 3]}.get(kind)
        with contextlib.redirect_stdout(io.StringIO()), warnings.catch_warnings():
            warnings.simplefilter("ignore")
            if integ is None:
                e = c16.build_engine(self.mods, self.work, case, tag)
            else:
                e = c16._c07_engine(self.mods, self.work, case, integ)
        if kind not in self.src:
            src = self.work / f"src_{kind}.{c16.EXT[eng]}"
            c16.write_source(case, src)
            self.src[kind] = (str(src), 0 if eng == "gromacs" else case["idx"])
        e.order_function = self.OP()
        e.c07 = {"kind": kind, "obj": (t, i), "integrator": integ}
        if eng == "lammps":
            e.lmp = ["false"]        # the MD program is absent: the real _propagate_from draws its seed, writes
            e.sleep = 0.001          # run.inp and fails; the frames come from the script
        if kind == "gmx0":
            e.infretis_genvel = False
        self._wrap(e, kind)
        return e

    # -- the two calls that draw: the real method runs first (its draws are the code's), then the script decides
    def _wrap(self, e, kind):
        world = self
        eng = KIND_ENGINE[kind]
        real_mv, real_pf = e.modify_velocities, e._propagate_from
        InfPath = __import__("infretis.classes.path", fromlist=["Path"]).Path

        def prepare_shooting_point_standin(input_file):
            # gmx0: grompp + mdrun with gen_vel = yes, gen_seed = -1 — the external program draws
            LOG.items.append(("X", "genvel"))
            return input_file, {"kinetic en.": [1.0], "potential": [0.0]}

        if kind == "gmx0":
            e._prepare_shooting_point = prepare_shooting_point_standin

        def modify_velocities(system, vel_settings):
            log = LOG
            log.items.append(("E", e.c07["obj"], "modvel"))
            log.in_engine += 1
            try:
                out = real_mv(system, vel_settings)
            finally:
                log.in_engine -= 1
            e.order_function.value = world.script.next_kick()
            return out

        def _propagate_from(name, path, system, ens_set, msg_file, reverse=False):
            log = LOG
            log.items.append(("E", e.c07["obj"], "propB" if reverse else "propF"))
            left, _, right = ens_set["interfaces"]
            if eng in ("lammps", "turtlemd", "ase"):
                # the real call, into a scratch path: its in-process draws are the code's
                scratch = InfPath(maxlen=3)
                e.order_function.value = 0.5 * (max(left, -50.0) + min(right, 50.0))
                undo = world._watch_seeds(e, eng, log)
                log.in_engine += 1
                log.in_prop += 1
                n_seed0 = sum(1 for it in log.items if it[0] == "D" and str(it[3]).startswith("seed:"))
                try:
                    with warnings.catch_warnings(), contextlib.redirect_stdout(io.StringIO()):
                        warnings.simplefilter("ignore")
                        real_pf(name + "_scratch", scratch, system.copy(), ens_set, msg_file, reverse=reverse)
                    if eng == "turtlemd":
                        log.tmd.append((e.c07["integrator"], "ran", True))
                except RuntimeError as ex:
                    # the ONLY exception that is passed over: the MD program is absent (`lmp` = `false`), after the
                    # real method drew its seed and wrote run.inp; the frames come from the script
                    if not (eng == "lammps" and "Execution of external program" in str(ex)):
                        raise
                except TypeError as ex:
                    # TurtleMD integrator classes that do not take `seed=`: the outcome is COMPARED with the model
                    # (`JobDraws.tmdPropagate`, driver op `tmdprop`) — the real job dies here; the scripted frames
                    # that follow are the what-if continuation and are judged like any other job
                    if not (eng == "turtlemd" and "unexpected keyword argument 'seed'" in str(ex)):
                        raise
                    drew = sum(1 for it in log.items if it[0] == "D" and str(it[3]).startswith("seed:")) > n_seed0
                    log.tmd.append((e.c07["integrator"], "typeerror", drew))
                finally:
                    log.in_engine -= 1
                    log.in_prop -= 1
                    for u in undo:
                        u()
            # the frames the move sees
            src, idx = world.src[kind]
            seq, vpots = world.script.next_prop(reverse)
            success, status = False, "nothing played"
            ops = [system.order[0]] + [float(x) for x in seq]
            vps = [vpots[0]] + list(vpots[1:]) if vpots is not None else [getattr(system, "vpot", None)] * len(ops)
            for k, op in enumerate(ops):
                snapshot = {"order": [float(op)], "config": (src, idx), "vel_rev": reverse, "vpot": vps[k]}
                pp = e.snapshot_to_system(system, snapshot)
                status, success, stop, _ = e.add_to_path(path, pp, left, right)
                if stop:
                    break
            else:
                world.script.ran_out = True
            return success, status

        real_dump = e.dump_phasepoint

        def dump_phasepoint(phasepoint, deffnm="conf"):
            LOG.items.append(("E", e.c07["obj"], "dump"))
            return real_dump(phasepoint, deffnm)

        e.modify_velocities = modify_velocities
        e._propagate_from = _propagate_from
        e.dump_phasepoint = dump_phasepoint

    @staticmethod
    def _watch_seeds(e, eng, log):
        undo = []
        if eng == "turtlemd":
            orig_int = e.integrator

            def rec_int(*a, _o=orig_int, **k):
                log.seeds_handed.append(("turtlemd", k.get("seed", "absent")))
                return _o(*a, **k)
            e.integrator = rec_int
            undo.append(lambda: setattr(e, "integrator", orig_int))
        if eng == "lammps":
            import infretis.classes.engines.lammps as lm
            orig_w = lm.write_for_run

            def rec_w(infile, outfile, input_settings=None, _o=orig_w):
                r = _o(infile, outfile, input_settings)
                line = [l for l in Path(outfile).read_text().split("\n") if l.split()[:3] == ["variable", "seed", "index"]]
                log.seeds_handed.append(("lammps", (input_settings or {}).get("infretis_seed"),
                                         line[0].split()[3] if line else None))
                return r
            lm.write_for_run = rec_w
            undo.append(lambda: setattr(lm, "write_for_run", orig_w))
        return undo

    def reset_generators(self):
        """a new worker process: engine objects without `rgen`"""
        for lst_ in self.engines.values():
            for e in lst_:
                if hasattr(e, "rgen"):
                    del e.rgen

    def table(self):
        out = {}
        for name, lst_ in self.engines.items():
            for e in lst_:
                if hasattr(e, "rgen"):
                    out[f"{e.c07['obj'][0]}:{e.c07['obj'][1]}"] = sid_str(e.rgen)
        return out


def sid_str(gen):
    try:
        ss = gen.bit_generator._seed_seq
        return f"{int(ss.entropy)}:" + ",".join(str(int(k)) for k in ss.spawn_key)
    except Exception:  # noqa: BLE001
        return "?"


class Script:
    """scripted order values of one job, by role"""

    def __init__(self, move):
        self.move = move
        self.ran_out = False
        self.jump = -1
        self.phase = "jump"
        self.calls = 0

    def next_kick(self):
        m = self.move
        if m["kind"] == "sh":
            return m["kick"]
        self.jump += 1
        if self.jump >= len(m["jumps"]):
            return m["jumps"][-1]["kick"]
        return m["jumps"][self.jump]["kick"]

    def next_prop(self, reverse):
        m = self.move
        self.calls += 1
        if m["kind"] == "sh":
            return (m["back"] if reverse else m["forw"]), None
        if m["kind"] == "wf":
            if self.phase == "ext":
                return (m["ext_back"] if reverse else m["ext_forw"]), None
            j = m["jumps"][min(max(self.jump, 0), len(m["jumps"]) - 1)]
            return (j["back"] if reverse else j["forw"]), None
        # swaps: scripts in call order
        k = self.calls - 1
        scr = m["scripts"][k] if k < len(m["scripts"]) else {"v0": None, "ops": [], "vpot": []}
        return scr["ops"], [scr["v0"]] + list(scr["vpot"])


# ----------------------------------------------------------------------------- case generation (integer order values)
# add_to_path stops on `op < left` / `op > right` (strict); the [0-] ensemble has left = −inf, so it only ends right.
def _seg(rng, inside, exits, nmax, exit_p):
    """order values after the starting frame: up to `nmax` inside values, then (with probability `exit_p`) an exit"""
    out = [inside() for _ in range(rng.randint(0, nmax))]
    if exits and rng.random() < exit_p:
        out.append(rng.choice(exits))
    return out


def gen_single(rng, ens_num, mc_move, quick):
    """scripted outcomes of a one-ensemble move in ensemble `ens_num` (−1 = [0-])"""
    if ens_num == -1:
        l, m, r = NEG_INF, 0, 0
        sc = "R"
        inside = lambda: rng.randint(-6, -1)  # noqa: E731
        ex_back, ex_forw = [1, 2], [1, 1, 2]
        old = [1] + [inside() for _ in range(rng.randint(1, 5))] + [rng.choice([1, 2])]
        kick_out = [0, 1]
    else:
        l = 0
        m = 0 if ens_num == 0 else rng.choice([1, 2])
        r = rng.choice([5, 7])
        sc = "L"
        inside = lambda: rng.randint(l, r - 1)  # noqa: E731
        ex_back, ex_forw = [l - 1, l - 1, l - 1, l - 2, r + 1], [l - 1, l - 1, r + 1, r + 1, r + 2]
        old = [-1] + [inside() for _ in range(rng.randint(1, 5))] + [rng.choice([-1, -2, r + 1])]
        if max(old) < m:
            old[1] = m
        kick_out = [l - 1, r, r + 1]
    base = {"ens": ens_num, "l": l, "m": m, "r": r, "sc": sc, "old": old, "oto": rng.randint(-3, 20),
            "ML": rng.choice([30, 30, 30, 12, 6, 4]), "ld": rng.random() < 0.2}

    def kick():
        return rng.choice(kick_out) if rng.random() < 0.1 else inside()
    if mc_move == "sh":
        base.update(kind="sh", am=rng.choice([None, None, True, False]), idx_raw=rng.randrange(1000),
                    xi=Fraction(rng.choice([1, 2, 3, 4, 6, 8, 12, 16]), 16), kick=kick(),
                    back=_seg(rng, inside, ex_back, 3, 0.9), forw=_seg(rng, inside, ex_forw, 3, 0.9))
    else:
        nj = rng.choice([1, 2, 2, 3])
        cap = rng.choice([None, None, r - 1, r]) if ens_num >= 0 else None
        # inside the wire-fencing band [m, cap): the jumps run between interfaces (m, m, cap) and may end on either side
        hi = (cap if cap is not None else r)
        ins_wf = (lambda: rng.randint(m, max(m, hi - 1))) if ens_num >= 0 else inside  # noqa: E731
        ex_wf = [m - 1, m - 1, hi + 1] if ens_num >= 0 else [1, 2]
        base.update(kind="wf", nj=nj, cap=cap, xi=Fraction(rng.randint(1, 16), 16),
                    jumps=[{"idx_raw": rng.randrange(1000), "kick": ins_wf() if rng.random() < 0.9 else kick(),
                            "back": _seg(rng, ins_wf, ex_wf, 2, 0.9), "forw": _seg(rng, ins_wf, ex_wf, 2, 0.9)}
                           for _ in range(nj)],
                    ext_back=_seg(rng, inside, ex_back, 2, 0.95), ext_forw=_seg(rng, inside, ex_forw, 2, 0.95))
        if ens_num >= 0 and rng.random() < 0.8:
            # an old path with at least one frame inside the band, entered from below
            k = rng.randint(1, 3)
            base["old"] = [-1] + [m - 1] * (1 if m > 0 else 0) + [rng.randint(m, max(m, hi - 1)) for _ in range(k)] + \
                [rng.choice([-1, m - 1, r + 1])]
        if rng.random() < 0.1:
            base["old"] = [-1, -2, -1] if ens_num >= 0 else [1, 2, 1]       # nothing to shoot from: NSG without a draw
    return base


def gen_swap(rng, quantis, wf0, wf1):
    """[0-] <-> [0+]: ens0 interfaces (−inf, 0, 0), ens1 (0, 0, r)"""
    r = rng.choice([5, 7])
    ml = rng.choice([30, 30, 12, 5])
    in0 = lambda: rng.randint(-6, -1)  # noqa: E731
    in1 = lambda: rng.randint(0, r - 1)  # noqa: E731
    old0 = [1] + [in0() for _ in range(rng.randint(1, 4))] + [rng.choice([1, 1, 1, 1, -1])]
    old1 = [-1] + [in1() for _ in range(rng.randint(1, 4))] + [rng.choice([-1, -2, r + 1])]
    no_energy = quantis and rng.random() < 0.08
    vp = (lambda: None) if no_energy else (lambda: rng.randint(-3, 3))  # noqa: E731
    c = {"kind": "quantis" if quantis else "retis", "r": r, "ML": ml, "old0": old0, "old1": old1,
         "vp0": [vp() for _ in old0], "vp1": [vp() for _ in old1], "wf0": wf0, "wf1": wf1,
         "xi": Fraction(rng.randint(0, 16), 16), "accept_all": quantis and rng.random() < 0.4, "scripts": []}
    if quantis:
        plan = [lambda: [rng.choice([1, 1, 1, 1, 1, 1, -1])] if rng.random() < 0.95 else [],      # A: one step, must end right
                lambda: [rng.choice([1, 1, 1, 1, 1, 1, -1])] if rng.random() < 0.95 else [],      # B
                lambda: _seg(rng, in0, [1, 2], 3, 0.92),                                            # C: backward in [0-]
                lambda: _seg(rng, in1, [-1, -1, r + 1], 3, 0.92)]                                   # D: forward in [0+]
    else:
        plan = [lambda: _seg(rng, in0, [1, 2], 3, 0.92), lambda: _seg(rng, in1, [-1, -1, r + 1], 3, 0.92)]
    for mk in plan:
        ops = mk()
        c["scripts"].append({"v0": vp(), "ops": ops, "vpot": [vp() for _ in ops]})
    return c


# ----------------------------------------------------------------------------- one real job
def build_path(world, kind, ops, oto, ld, vpots=None, maxlen=10_000):
    from infretis.classes.path import Path as InfPath
    System = world.mods["System"]
    src, idx = world.src[kind]
    p = InfPath(maxlen=maxlen, time_origin=oto)
    for k, o in enumerate(ops):
        s = System()
        s.order = [float(o)]
        s.config = (src, idx)
        s.vel_rev = False
        s.ekin = 1.0
        s.vpot = None if vpots is None else (None if vpots[k] is None else float(vpots[k]))
        p.phasepoints.append(s)
    p.generated = ("ld" if ld else "sh", 0.0, 0, 0)
    p.status = "ACC"
    p.weights = (1.0, 0.0)
    p.path_number = 7
    return p


ERR_MOVE = {"err:value": "value", "err:zerodiv": "zerodiv", "err:index": "index", "err:assert": "assert", "err:type": "type"}


def run_real_job(world, md, move, eng_names):
    """run the real select_shoot for the job `md` (as prep_md_items returned it) with the scripted `move`;
    returns (canonical answer, JobLog, info)"""
    global LOG
    import infretis.core.tis as tis
    picked = md["picked"]
    log = JobLog()
    for ens_num, pens in picked.items():
        log.move_gens[id(pens["ens"]["rgen"])] = ens_num
        log.eng_gens[id(pens["rgen-eng"])] = ens_num
    first = {e: next(iter(p["eng_idx"].items())) for e, p in picked.items()}        # engines[key][0]
    kind_of = {e: world.kinds[eng_names.index(first[e][0])] for e in picked}
    world.script = Script(move)
    run = {}
    for ens_num, pens in picked.items():
        ens = dict(pens["ens"])                      # the real ensemble dict (same generator object inside)
        ts = dict(ens["tis_set"])
        ens["tis_set"] = ts
        ts["quantis"] = move["kind"] == "quantis"
        ts["accept_all"] = bool(move.get("accept_all", False))
        ts["maxlength"] = move["ML"]
        ts.pop("allowmaxlength", None)
        ts.pop("interface_cap", None)
        ts.pop("n_jumps", None)
        if move["kind"] in ("sh", "wf"):
            ens["interfaces"] = (float(move["l"]), float(move["m"]), float(move["r"]))
            ens["start_cond"] = tuple(move["sc"])
            ens["mc_move"] = move["kind"]
            if move["kind"] == "sh" and move["am"] is not None:
                ts["allowmaxlength"] = move["am"]
            if move["kind"] == "wf":
                ts["n_jumps"] = move["nj"]
                if move["cap"] is not None:
                    ts["interface_cap"] = float(move["cap"])
            traj = build_path(world, kind_of[ens_num], move["old"], move["oto"], move["ld"])
        else:
            if ens_num == -1:
                ens["interfaces"] = (float(NEG_INF), 0.0, 0.0)
                ens["start_cond"] = ("R",)
                ens["mc_move"] = "wf" if move["wf0"] else "sh"
                traj = build_path(world, kind_of[ens_num], move["old0"], 0, False, move["vp0"])
            else:
                ens["interfaces"] = (0.0, 0.0, float(move["r"]))
                ens["start_cond"] = ("L",)
                ens["mc_move"] = "wf" if move["wf1"] else "sh"
                traj = build_path(world, kind_of[ens_num], move["old1"], 0, False, move["vp1"])
        run[ens_num] = dict(pens, ens=ens, traj=traj)
        run[ens_num].setdefault("wmdrun", "echo")        # GROMACS' set_mdrun reads it (runner.wmdrun in production)
    if move["kind"] == "sh":
        log.idx.append(move["idx_raw"])
        log.xi.append(float(move["xi"]))
    elif move["kind"] == "wf":
        log.xi.append(float(move["xi"]))
        for j in move["jumps"]:
            log.idx.append(j["idx_raw"])
    else:
        log.xi.append(float(move["xi"]))
    saved_engines, saved_ext = tis.ENGINES, tis.extender

    def ext_wrapper(*a, **k):
        world.script.phase = "ext"
        return saved_ext(*a, **k)

    err = None
    accept = status = None
    info = {"kinds": kind_of, "first": first}
    LOG = log
    try:
        tis.ENGINES = world.engines
        tis.extender = ext_wrapper
        with contextlib.redirect_stdout(io.StringIO()), warnings.catch_warnings():
            warnings.simplefilter("ignore")
            accept, trials, status = tis.select_shoot(run)
        info["trial_lens"] = [t.length for t in trials]
    except Exception as ex:  # noqa: BLE001
        err = ex
    finally:
        LOG = None
        tis.ENGINES, tis.extender = saved_engines, saved_ext
    info["err"] = err
    # ---- canonical answer, in the driver's format
    evs, trace = [], []
    for it in log.items:
        if it[0] == "D":
            _, gen, sid, what, in_engine, _val = it
            stok = f"S{sid[0]}:" + ",".join(str(k) for k in sid[1])
            trace.append(f"{stok}/{what}")
            if not in_engine:
                ens = log.move_gens.get(id(gen))
                evs.append(f"D:{ens}:{what}" if ens is not None else f"D:?{stok}:{what}")
        elif it[0] == "E":
            evs.append(f"E:{it[1][0]}:{it[1][1]}:{it[2]}")
        elif it[0] == "G":
            trace.append(f"G/{it[2]}")
        elif it[0] == "X":
            trace.append("X/genvel")
    trace = _noise_per_call(log)
    if err is not None:
        k = err_kind(err)
        if isinstance(err, ValueError) and "random generator" in str(err):
            ans = "err:norgen"
        elif isinstance(err, KeyError):
            ans = "err:key"
        else:
            ans = ("err:swap:" if move["kind"] in ("retis", "quantis") else "err:move:") + ERR_MOVE.get(k, k)
    else:
        flag = "1" if accept is True else ("0" if accept is False else f"?{accept!r}")
        tbl = ";".join(f"{k}={v}" for k, v in sorted(world.table().items()))
        ans = f"ok {flag} {status} | " + " ".join(evs) + " | " + " ".join(trace) + " | " + tbl
    info["evs"], info["trace"] = evs, trace
    return ans, log, info


def _noise_per_call(log):
    """the trace with the noise requests of each real propagate call compressed to one per source"""
    out, seen = [], None
    for it in log.items:
        if it[0] == "E":
            seen = set()
        elif it[0] == "D":
            _, gen, sid, what, in_engine, _val = it
            tok = f"S{sid[0]}:" + ",".join(str(k) for k in sid[1]) + f"/{what}"
            if what == "noise" and seen is not None:
                if tok in seen:
                    continue
                seen.add(tok)
            out.append(tok)
        elif it[0] == "G":
            tok = f"G/{it[2]}"
            if it[2] == "noise" and seen is not None:
                if tok in seen:
                    continue
                seen.add(tok)
            out.append(tok)
        elif it[0] == "X":
            out.append("X/genvel")
    return out


# ----------------------------------------------------------------------------- the model line
def _sc_tok(sc):
    return "".join(sc) if sc else "0"


def _frames(ops, vps):
    return lst([f"{int(o)},0,0,0,{'-' if v is None else int(v)}" for o, v in zip(ops, vps)])


def _script_tok(scr):
    return ("-" if scr["v0"] is None else str(int(scr["v0"]))) + " " + \
        lst([f"{int(o)},0,0,{'-' if v is None else int(v)}" for o, v in zip(scr["ops"], scr["vpot"])])


def model_line(pin, kinds, move, log, world, info):
    head = f"jobdraws {pin} {len(kinds)} " + " ".join(kinds) + " "
    if move["kind"] == "sh":
        idx = log.used_idx[0] if log.used_idx else 1
        am = "1" if move["am"] else "0"
        return head + (f"sh {move['oto']} {1 if move['ld'] else 0} {move['l']} {move['m']} {move['r']} {move['ML']} {am} "
                       f"{move['sc']} {move['sc']} {idx} {frac_token(move['xi'])} {move['kick']} "
                       f"{lst(move['old'])} {lst(move['back'])} {lst(move['forw'])}")
    if move["kind"] == "wf":
        cap = "-" if move["cap"] is None else str(move["cap"])
        js = []
        for k, j in enumerate(move["jumps"]):
            idx = log.used_idx[k] if k < len(log.used_idx) else 1
            js.append(f"{idx} {j['kick']} {lst(j['back'])} {lst(j['forw'])}")
        return head + (f"wf {move['oto']} {move['l']} {move['m']} {move['r']} {cap} {move['ML']} {move['nj']} "
                       f"{move['sc']} {move['sc']} {frac_token(move['xi'])} {lst(move['old'])} "
                       f"{lst(move['ext_back'])} {lst(move['ext_forw'])} {len(js)} " + " ".join(js))
    e0 = f"{NEG_INF} 0 0 {move['ML']} 0 1 {1 if move['wf0'] else 0} -"
    e1 = f"0 0 {move['r']} {move['ML']} 1 0 {1 if move['wf1'] else 0} -"
    body = f"{e0} {e1} {_frames(move['old0'], move['vp0'])} {_frames(move['old1'], move['vp1'])} "
    if move["kind"] == "retis":
        return head + "retis " + body + " ".join(_script_tok(s) for s in move["scripts"]) + " " + frac_token(move["xi"])
    b0, b1 = info["betas"]
    return head + "quantis " + body + " ".join(_script_tok(s) for s in move["scripts"]) + \
        f" {1 if move['accept_all'] else 0} {frac_token(b0)} {frac_token(b1)} {frac_token(move['xi'])} {frac_token(info['p'])}"


def quantis_p(world, md, move, eng_names):
    """np.exp(deltaV0 * engine0.beta - deltaV1 * engine1.beta) as the code computes it (floats), and the betas"""
    picked = md["picked"]
    e0 = world.engines[next(iter(picked[-1]["eng_idx"].items()))[0]][next(iter(picked[-1]["eng_idx"].items()))[1]]
    e1 = world.engines[next(iter(picked[0]["eng_idx"].items()))[0]][next(iter(picked[0]["eng_idx"].items()))[1]]
    b0, b1 = float(e0.beta), float(e1.beta)
    p = Fraction(1)
    try:
        v0r0 = move["vp0"][-2]
        v1r1 = move["vp1"][0]
        v0r1 = move["scripts"][0]["v0"]
        v1r0 = move["scripts"][1]["v0"]
        if None not in (v0r0, v1r1, v0r1, v1r0):
            with np.errstate(over="ignore"):
                val = float(np.exp((float(v0r0) - float(v0r1)) * b0 - (float(v1r0) - float(v1r1)) * b1))
            p = Fraction(val) if math.isfinite(val) else Fraction(10) ** 30
    except (IndexError, TypeError):
        pass
    return p, (Fraction(b0), Fraction(b1))


def canon_model(ans, eng_idx, eng_names):
    """the model's answer with engine slots replaced by engine objects, and the table sorted;
    `eng_idx` = {ens_num: eng_idx dict of the picked entry} of the job"""
    if not ans.startswith("ok "):
        return ans
    parts = ans.split(" | ")
    if len(parts) != 4:
        return ans
    single = len(eng_idx) == 1

    def obj_of(slot):
        try:
            ei = next(iter(eng_idx.values())) if single else eng_idx[int(slot)]
            name, i = next(iter(ei.items()))
            return f"{eng_names.index(name)}:{i}"
        except Exception:  # noqa: BLE001
            return f"slot{slot}"
    evs = []
    for tok in parts[1].split():
        if tok.startswith("E:"):
            _, slot, call = tok.split(":")
            evs.append(f"E:{obj_of(slot)}:{call}")
        else:
            evs.append(tok)
    tbl = ";".join(sorted(x for x in parts[3].split(";") if x))
    return f"{parts[0]} | " + " ".join(evs) + f" | {parts[2]} | {tbl}"


# ----------------------------------------------------------------------------- predicates (independent of the model)
def judge_job(ctx, log, info, md, move, rep):
    judge(ctx, log, md["picked"], move["kind"], "+".join(sorted(set(info["kinds"].values()))), info.get("err"), rep)


def judge(ctx, log, picked, mkind, ktag, err, rep):
    """the property predicates on what one job did (`log`), independent of any model"""
    move = {"kind": mkind}
    info = {"err": err}
    own = {}
    for ens_num, pens in picked.items():
        own[id(pens["ens"]["rgen"])] = f"move stream of ensemble {ens_num}"
        own[id(pens["rgen-eng"])] = f"engine stream of ensemble {ens_num}"
    eng_values = []       # scalar values drawn on the job's engine streams, in order
    for it in log.items:
        if it[0] == "D":
            _, gen, sid, what, in_engine, val = it
            if id(gen) not in own:
                sig = "C07:job:draw-on-scheduler-stream" if sid[1] == () else "C07:job:draw-on-foreign-stream"
                ctx.fail(sig, f"{move['kind']} job on {ktag}: {what} drawn on generator {sid} "
                              f"({'inside an engine call' if in_engine else 'by the move'}), which is not one of the "
                              f"job's own streams", dict(rep, stream=str(sid), request=what))
            elif id(gen) in log.eng_gens and val is not None:
                eng_values.append(val)
        elif it[0] == "G":
            ctx.fail("C07:job:global-or-os-randomness", f"{move['kind']} job on {ktag}: {it[1]} called at {it[3]} — "
                     "a random number from outside the job's streams", dict(rep, call=it[1], where=it[3]))
    for seed, where in log.new_generators:
        ok = seed is not None and np.ndim(seed) == 0 and any(int(seed) == int(v) for v in eng_values)
        if not ok:
            ctx.fail("C07:job:generator-not-seeded-from-job-stream",
                     f"{move['kind']} job on {ktag}: default_rng({seed!r}) built at {where}: the seed is not a value drawn "
                     "on the job's engine stream", dict(rep, seed=str(seed), where=where))
    for rec in log.seeds_handed:
        val = rec[1]
        bad = val in (None, "absent") or not any(int(val) == int(v) for v in eng_values)
        if not bad and rec[0] == "lammps" and str(rec[2]) != str(int(val)):
            bad = True
        if bad:
            ctx.fail("C07:job:seed-not-from-job-stream", f"{move['kind']} job on {ktag}: {rec[0]} was handed the seed "
                     f"{rec[1:]} which is not a value drawn on the job's engine stream {eng_values[:4]}",
                     dict(rep, seed=[str(x) for x in rec[1:]]))
    err = info.get("err")
    if isinstance(err, ValueError) and "random generator" in str(err):
        ctx.fail("C07:job:missing-generator", f"{move['kind']} job on {ktag} failed: {err}", rep)


# ----------------------------------------------------------------------------- histories
TMD_NAME = {"velocityverlet": "velocityverlet", "langevininertia": "langevininertia",
            "langevinoverdamped": "langevinoverdamped", "verlet": "verlet"}


def job_history(ctx, world, n_ens, workers, steps, seed, wf, eng_types, rng, label, outs, stop=None, plan=None,
                image=None, weights=None, drawn=None, crash=False, consumed=None, lost=None):
    """`crash=True`: the segment ends AFTER the job that follows the `stop`-th completion was issued and run — the
    image is the file on disk, which does not record that job (it is lost: `lost` collects its streams).
    `consumed`: stream id -> job key of every job whose result was handed to treat_output, over the whole chain."""
    """one scheduler-shaped history of the real REPEX_state in which every issued job is RUN (real select_shoot
    on the real picked dict) before its result is handed back"""
    import copy
    sim = T.Sim(ctx, n_ens, workers, steps, seed=seed, wf=wf, eng_types=eng_types, rng=rng,
                cstep=0 if image is None else image["cstep"], image=image)
    sim.image, sim.rich_init = None, True
    jobinfo = {}
    error = None
    world.reset_generators()
    kinds = world.kinds[:eng_types]

    def issue(md_in):
        md = sim.op_prep(md_in)
        ens_nums = list(md["picked"].keys())
        if len(ens_nums) == 1:
            mc = md["picked"][ens_nums[0]]["ens"]["mc_move"]
            move = gen_single(rng, ens_nums[0], mc, ctx.quick)
        else:
            quantis = rng.random() < 0.5
            move = gen_swap(rng, quantis, md["picked"][-1]["ens"]["mc_move"] == "wf",
                            md["picked"][0]["ens"]["mc_move"] == "wf")
        info0 = {}
        if move["kind"] == "quantis":
            info0["p"], info0["betas"] = quantis_p(world, md, move, sim.eng_names)
        rep = {"job_draws": label, "job": len(jobinfo), "pin": md["pin"], "ensembles": ens_nums,
               "move": {k: (str(v) if isinstance(v, Fraction) else v) for k, v in move.items()
                        if k not in ("scripts",)},
               "engine_kinds": kinds, "ctxseed": ctx.seed, "plan": plan}
        ans, log, info = run_real_job(world, md, move, sim.eng_names)
        info.update(info0)
        judge_job(ctx, log, info, md, move, rep)
        if drawn is not None:
            same_stream_same_values(ctx, log, drawn, rep)
        line = model_line(md["pin"], kinds, move, log, world, info)
        sim.emit(line, ans, "jobdraws")
        jobinfo[len(sim.lines) - 1] = ({e: dict(p["eng_idx"]) for e, p in md["picked"].items()}, rep)
        # model says "the integrator is built" <=> the real constructor call did not raise (TurtleMD `seed=`)
        for integ, outcome, drew in sorted(set(log.tmd)):
            sim.emit(f"tmdprop {TMD_NAME.get(integ, integ)} 5:1,0,0", f"{outcome} {'seed:1000000000' if drew else '-'}", "tmdprop")
            ctx.hit(f"c07_tmd_propagate:{integ}:{outcome}")
        md["c07_streams"] = [(e, p["pn_old"], sid_str(p["ens"]["rgen"]), sid_str(p["rgen-eng"]))
                             for e, p in md["picked"].items()]
        st = ans.split()[2] if ans.startswith("ok ") else ans
        ctx.count(1, c07_job_move=move["kind"], c07_job_status=f"{move['kind']}:{st}",
                  c07_job_kinds="+".join(sorted(set(info["kinds"].values()))))
        ctx.distinct(("jobdraws", move["kind"], st, tuple(info["evs"])[:12], tuple(sorted(info["kinds"].values()))))
        n_draws = sum(1 for it in log.items if it[0] == "D")
        ctx.hit(f"c07_job_draws_per_job={min(n_draws, 12) if n_draws < 12 else '12+'}")
        md["c07_status"] = "ACC" if ans.startswith("ok 1 ") else "REJ"
        return md

    inflight = []
    try:
        if image is None:
            sim.load_initial()
        else:
            sim.load_initial([T.FakePath(pn, weights[pn]) for pn in image["active"]],
                             {int(k): [float(x) for x in v] for k, v in image["frac"].items()})
        base = {"mc_moves": sim.st.mc_moves, "interfaces": sim.st.interfaces, "cap": None}
        while sim.op_initiate():
            inflight.append(issue(copy.deepcopy(base)))
        guard = 0
        while sim.op_loop():
            guard += 1
            if guard > 10 * steps + 50 or not inflight:
                raise RuntimeError("scheduler loop did not end / nothing in flight")
            md = inflight.pop(rng.randrange(len(inflight)))
            if consumed is not None:
                # the result of this job is consumed: over the whole chain no other consumed job had its streams
                key = tuple((e, pn) for (e, pn, _a, _b) in md.get("c07_streams", []))
                for (e, pn, a, b) in md.get("c07_streams", []):
                    for sid in (a, b):
                        if sid in consumed and consumed[sid] != key:
                            ctx.fail("C07:crash:consumed-jobs-share-stream",
                                     f"stream {sid} of the completed job {key} was the stream of the completed job "
                                     f"{consumed[sid]} earlier in the chain", {"job_draws": label, "plan": plan,
                                                                                 "stream": sid, "ctxseed": ctx.seed})
                        consumed.setdefault(sid, key)
            md = sim.op_treat(md, md.pop("c07_status"), sim.random_new_weights(md, rng))
            sim.op_dump()
            if stop is not None and sim.st.cstep >= stop and not crash:
                sim.image = T.read_image(sim.tmp)
                sim.weights_by_pn = {pn: v["weights"] for pn, v in sim.st.traj_data.items()}
                break
            if sim.st.cstep + sim.st.workers <= sim.st.tsteps:
                inflight.append(issue(md))
                if stop is not None and sim.st.cstep >= stop and crash:
                    # the process dies while that job runs: the file on disk is the one of the last completion
                    sim.image = T.read_image(sim.tmp)
                    sim.weights_by_pn = {pn: v["weights"] for pn, v in sim.st.traj_data.items()}
                    on_file = {tuple(str(p) for p in rec[1]) for rec in sim.image.get("locked", [])}
                    for job in inflight:
                        key = tuple(str(pn) for (_e, pn, _a, _b) in job["c07_streams"])
                        if key not in on_file and lost is not None:
                            lost.append(job["c07_streams"])
                    ctx.hit(f"c07_job_chain:crash_after_issue:lost={sum(1 for j in inflight if tuple(str(pn) for (_e, pn, _a, _b) in j['c07_streams']) not in on_file)}")
                    break
    except Exception as e:  # noqa: BLE001
        error = e
    sim.close()
    if error is not None:
        ctx.extra.setdefault("c07_job_history_errors", []).append(f"{label}: {type(error).__name__}: {error}"[:300])
        ctx.hit("c07_job_history_error")
    outs.append((sim, label, jobinfo))
    return sim


def same_stream_same_values(ctx, log, drawn, rep):
    """over a chain of restarts: a generator with the same identity (a re-issued job's stream) returns the same
    values for the same requests — "a job's streams are a function of the seed and the job's ordinal only".
    `drawn`: sid -> [(request, scalar value)] of the FIRST job that used that identity."""
    mine = {}
    for it in log.items:
        if it[0] == "D":
            _, _gen, sid, what, _in_engine, val = it
            mine.setdefault(sid, []).append((what, val))
    for sid, seq in mine.items():
        if sid not in drawn:
            drawn[sid] = seq
            continue
        for k, ((w0, v0), (w1, v1)) in enumerate(zip(drawn[sid], seq)):
            if w0 != w1:
                break                      # another course of the move: the states differ from here on
            if v0 is not None and v1 is not None and w0.split(":")[0] in ("seed",) and v0 != v1:
                ctx.fail("C07:job:reissued-job-draws-differ",
                         f"stream {sid}: request #{k} ({w0}) returned {v1} for the re-issued job but {v0} before the "
                         "restart: the stream of a job is not a function of the seed and the job's ordinal only",
                         dict(rep, stream=str(sid), request=w0, values=[str(v0), str(v1)]))
                break
        ctx.hit("c07_job_stream_seen_again")


def job_chain(ctx, world, n_ens, segs, steps, seed, wf, eng_types, label, outs, plan):
    """a chain of restarts (`segs` = [(workers, stop step or None), …]); the engine objects of a new process carry
    no generator; jobs in flight at a stop are re-issued and RUN again"""
    image = weights = None
    drawn = {}
    consumed, lost_all = {}, []
    for k, seg in enumerate(segs):
        workers, stop = seg[0], seg[1]
        crash = len(seg) > 2 and seg[2] == "crash"
        lab = f"{label} segment={k}"
        lost = []
        sim = job_history(ctx, world, n_ens, workers, steps, seed, wf, eng_types, _pyrandom.Random(lab), lab, outs,
                          stop=stop, plan=plan, image=image, weights=weights, drawn=drawn, crash=crash,
                          consumed=consumed, lost=lost)
        lost_all += lost
        if stop is None or sim.image is None:
            break
        image, weights = sim.image, sim.weights_by_pn
        ctx.hit(f"c07_job_chain:restart_with_{len(image.get('locked', []))}_in_flight")
    # observation (not a violation): the streams of a job lost in a crash are handed out again; count whether the
    # job that got them is the same (ensemble, path) job or another one
    for streams in lost_all:
        for (e, pn, a, _b) in streams[:1]:
            if a in consumed:
                same = consumed[a] == tuple((e2, pn2) for (e2, pn2, _x, _y) in streams)
                ctx.count(1, c07_crash_lost_job="streams-reissued-to-" + ("same-job" if same else "different-job"))
            else:
                ctx.count(1, c07_crash_lost_job="streams-not-consumed-in-this-chain")


def compare_history(ctx, sim, label, jobinfo):
    model = ctx.driver(sim.lines)
    canon = []
    for i, (kind, m) in enumerate(zip(sim.kinds, model)):
        if kind == "jobdraws" and i in jobinfo:
            canon.append(canon_model(m, jobinfo[i][0], sim.eng_names))
        else:
            canon.append(m)
    T.compare(ctx, sim, canon, label)


# ----------------------------------------------------------------------------- per engine class: one engine call
def engine_calls(ctx, work):
    """the draws of ONE engine call per engine class, with and without `engine.rgen` (the `hasattr(self, "rgen")`
    branches), against `JobDraws.engDraws` (driver op `engcall`)"""
    global LOG
    lines, reals, reps = [], [], []
    for kind in ("gmx1", "gmx0", "cp2k", "lammps", "turtlemd", "ase0", "ase1"):
        try:
            world = World(ctx, work / f"calls_{kind}", [kind], 1)
        except Exception as ex:  # noqa: BLE001
            ctx.hit(f"c07_engcall_build_error:{kind}:{err_kind(ex)}")
            continue
        e = world.engines["engine0"][0]
        e.exe_dir = str(work / f"calls_{kind}" / f"exe_{KIND_ENGINE[kind]}")
        os.makedirs(e.exe_dir, exist_ok=True)
        System = world.mods["System"]
        for has in (True, False):
            for call in ("modvel", "propF", "propB"):
                gen = T.ScriptedGen(np.random.PCG64(np.random.SeedSequence(5, spawn_key=(1, 0, 0))))
                if has:
                    e.rgen = gen
                elif hasattr(e, "rgen"):
                    del e.rgen
                log = JobLog()
                log.eng_gens[id(gen)] = 0
                world.script = Script({"kind": "sh", "kick": 1, "back": [1], "forw": [1]})
                src, idx = world.src[kind]
                s = System()
                s.set_pos((src, idx))
                s.order, s.ekin, s.vel_rev = [0.5], 1.0, False
                ens_set = {"interfaces": [0.0, 0.25, 1.0], "ens_name": "c07", "tis_set": {}}
                err = None
                LOG = log
                try:
                    with contextlib.redirect_stdout(io.StringIO()), warnings.catch_warnings():
                        warnings.simplefilter("ignore")
                        if call == "modvel":
                            e.modify_velocities(s, {"zero_momentum": True})
                        else:
                            from infretis.classes.path import Path as InfPath
                            e.propagate(InfPath(maxlen=3), ens_set, s, reverse=(call == "propB"))
                except Exception as ex:  # noqa: BLE001
                    err = ex
                finally:
                    LOG = None
                if err is not None and isinstance(err, ValueError) and "random generator" in str(err):
                    real = "err:norgen"
                elif err is not None:
                    real = "harness:" + err_kind(err) + ":" + str(err)[:80]
                else:
                    real = ("ok " + " ".join(_noise_per_call(log))).rstrip() + ("" if _noise_per_call(log) else "")
                    real = "ok " + " ".join(_noise_per_call(log))
                lines.append(f"engcall {kind} {call} " + ("5:1,0,0" if has else "-"))
                reals.append(real)
                rep = {"engine_call": call, "kind": kind, "has_rgen": has}
                reps.append(rep)
                ctx.count(1, c07_engcall=f"{kind}:{call}:{'rgen' if has else 'no-rgen'}")
                ctx.distinct(("engcall", kind, call, has))
                if has:
                    # predicate: with a generator in place nothing but that generator is used
                    for it in log.items:
                        if it[0] == "G":
                            ctx.fail(f"C07:{KIND_ENGINE[kind]}:draw-outside-job-stream",
                                     f"{kind} {call}: {it[1]} called at {it[3]} although engine.rgen is set", dict(rep, call_site=it[3]))
                        if it[0] == "D" and it[1] is not gen:
                            ctx.fail(f"C07:{KIND_ENGINE[kind]}:draw-outside-job-stream",
                                     f"{kind} {call}: draw on generator {it[2]}, not engine.rgen", rep)
        shutil.rmtree(work / f"calls_{kind}", ignore_errors=True)
    # TurtleMD: one real propagate per integrator class, with and without engine.rgen — does the constructor call
    # `self.integrator(…, seed=seed)` go through?  (model: JobDraws.tmdPropagate)
    try:
        world = World(ctx, work / "calls_tmd3", ["turtlemd", "turtlemd", "turtlemd"], 1)
    except Exception as ex:  # noqa: BLE001
        ctx.hit(f"c07_engcall_build_error:turtlemd3:{err_kind(ex)}")
        world = None
    if world is not None:
        System = world.mods["System"]
        from infretis.classes.path import Path as InfPath
        for name, lst_ in world.engines.items():
            e = lst_[0]
            integ = e.c07["integrator"]
            e.exe_dir = str(work / "calls_tmd3" / f"exe_{name}")
            os.makedirs(e.exe_dir, exist_ok=True)
            for has in (True, False):
                gen = T.ScriptedGen(np.random.PCG64(np.random.SeedSequence(5, spawn_key=(1, 0, 0))))
                if has:
                    e.rgen = gen
                elif hasattr(e, "rgen"):
                    del e.rgen
                log = JobLog()
                log.eng_gens[id(gen)] = 0
                world.script = Script({"kind": "sh", "kick": 1, "back": [1], "forw": [1]})
                src, idx = world.src["turtlemd"]
                s = System()
                s.set_pos((src, idx))
                s.order, s.ekin, s.vel_rev = [0.5], 1.0, False
                ens_set = {"interfaces": [0.0, 0.25, 1.0], "ens_name": "c07", "tis_set": {}}
                LOG = log
                real = None
                try:
                    with contextlib.redirect_stdout(io.StringIO()), warnings.catch_warnings():
                        warnings.simplefilter("ignore")
                        e.propagate(InfPath(maxlen=3), ens_set, s, reverse=False)
                except ValueError as ex:
                    real = "norgen" if "random generator" in str(ex) else "harness:" + err_kind(ex)
                except Exception as ex:  # noqa: BLE001
                    real = "harness:" + err_kind(ex) + ":" + str(ex)[:80]
                finally:
                    LOG = None
                if real is None:
                    outs_ = sorted(set(log.tmd))
                    real = " ".join(f"{o} {'seed:1000000000' if drew else '-'}" for (_i, o, drew) in outs_) or "nothing-recorded"
                lines.append(f"tmdprop {TMD_NAME.get(integ, integ)} " + ("5:1,0,0" if has else "-"))
                reals.append(real)
                reps.append({"engine_call": "propF", "kind": "turtlemd", "integrator": integ, "has_rgen": has})
                ctx.count(1, c07_engcall=f"turtlemd/{integ}:propF:{'rgen' if has else 'no-rgen'}:{real.split()[0]}")
        shutil.rmtree(work / "calls_tmd3", ignore_errors=True)
    if ctx._driver_ok and lines:
        for ln, rl, md, rep in zip(lines, reals, ctx.driver(lines), reps):
            if rl.strip() != md.strip():
                ctx.disagree(rep, rl, md, "draws of one engine call vs JobDraws.engDraws / tmdPropagate")


# ----------------------------------------------------------------------------- entry point
PLANS_QUICK = [
    # (engine kinds per engine type, instances, n_ens, workers, steps, wf)
    (["ase1", "ase0"], 2, 3, 2, 12, False),
    (["turtlemd", "turtlemd"], 2, 3, 1, 10, True),
    (["lammps"], 2, 4, 2, 12, False),
    (["cp2k"], 1, 3, 1, 8, True),
    (["gmx1"], 1, 3, 1, 8, False),
    (["gmx0"], 1, 3, 1, 6, False),
]
PLANS_MORE = [
    (["ase0", "ase1"], 2, 4, 3, 12, True),
    (["turtlemd"], 3, 4, 3, 12, False),
    (["lammps", "lammps"], 2, 3, 2, 10, True),
    (["cp2k", "cp2k"], 2, 4, 2, 10, False),
    (["gmx1", "gmx1"], 1, 3, 1, 8, True),
    (["ase1"], 1, 3, 1, 8, True),
]


CHAINS_QUICK = [
    # (kinds, instances, n_ens, [(workers, stop)…], steps, wf)
    (["turtlemd"], 2, 4, [(2, 3), (2, 6), (2, None)], 10, False),
    (["lammps", "lammps"], 2, 3, [(2, 2), (1, None)], 7, True),
]
# segments (workers, stop, "crash"): the process dies AFTER the job following the stop-th completion was issued and run
CHAINS_CRASH = [
    (["turtlemd"], 2, 4, [(2, 3, "crash"), (1, 6, "crash"), (2, None)], 12, False),
    (["lammps"], 3, 4, [(3, 2, "crash"), (3, 5), (2, None)], 12, False),
]
CHAINS_MORE = [
    (["ase1", "ase0"], 2, 4, [(3, 3), (2, 6), (3, None)], 12, False),
    (["turtlemd", "turtlemd"], 3, 4, [(3, 2), (3, 4), (1, 7), (3, None)], 12, True),
    (["cp2k"], 2, 3, [(2, 3), (2, None)], 8, False),
]


def run_jobs(ctx):
    """called from harness/props/c07.py"""
    try:
        from props import c16  # noqa: F401
    except Exception as ex:  # noqa: BLE001
        ctx.extra["c07_jobs"] = f"engine builders of props/c16.py not importable: {ex}"
        ctx.hit("c07_jobs_unavailable")
        return
    work = Path(tempfile.mkdtemp(prefix="c07jobs-", dir="/var/tmp"))
    cwd = os.getcwd()
    outs = []
    plans = PLANS_QUICK if ctx.quick else PLANS_QUICK + PLANS_MORE
    seeds = (0, 3) if ctx.quick else (0, 1, 3, 11, 17, 23, 42)
    try:
        with GenTap(), Tripwire():
            for pi, (kinds, n_inst, n_ens, workers, steps, wf) in enumerate(plans):
                try:
                    world = World(ctx, work / f"w{pi}", kinds, n_inst)
                except Exception as ex:  # noqa: BLE001
                    ctx.hit(f"c07_jobs_build_error:{'+'.join(kinds)}:{err_kind(ex)}")
                    ctx.extra.setdefault("c07_jobs_build_errors", []).append(f"{kinds}: {type(ex).__name__}: {ex}"[:200])
                    continue
                for seed in seeds:
                    label = (f"jobs kinds={kinds} inst={n_inst} n_ens={n_ens} workers={workers} steps={steps} "
                             f"seed={seed} wf={wf} ctxseed={ctx.seed}")
                    job_history(ctx, world, n_ens, workers, steps, seed, wf, len(kinds),
                                _pyrandom.Random(label), label, outs,
                                plan=[kinds, n_inst, n_ens, workers, steps, wf, seed, label])
                shutil.rmtree(work / f"w{pi}", ignore_errors=True)
            for ci, (kinds, n_inst, n_ens, segs, steps, wf) in enumerate(CHAINS_QUICK + CHAINS_CRASH if ctx.quick
                                                                         else CHAINS_QUICK + CHAINS_CRASH + CHAINS_MORE):
                try:
                    world = World(ctx, work / f"c{ci}", kinds, n_inst)
                except Exception as ex:  # noqa: BLE001
                    ctx.hit(f"c07_jobs_build_error:{'+'.join(kinds)}:{err_kind(ex)}")
                    continue
                for seed in (seeds[:2] if ctx.quick else seeds[:5]):
                    label = (f"job-chain kinds={kinds} inst={n_inst} n_ens={n_ens} segments={segs} steps={steps} "
                             f"seed={seed} wf={wf} ctxseed={ctx.seed}")
                    job_chain(ctx, world, n_ens, segs, steps, seed, wf, len(kinds), label, outs,
                              plan=["chain", kinds, n_inst, n_ens, segs, steps, wf, seed, label])
                shutil.rmtree(work / f"c{ci}", ignore_errors=True)
            engine_calls(ctx, work)
    finally:
        os.chdir(cwd)
        shutil.rmtree(work, ignore_errors=True)
    if ctx._driver_ok:
        for sim, label, jobinfo in outs:
            compare_history(ctx, sim, label, jobinfo)
    ctx.assumptions += [
        "C07 job traces: the order values a move sees are scripted (integer-valued); the engines' own "
        "modify_velocities / _propagate_from run for real first (TurtleMD, ASE in-process; LAMMPS up to the start of "
        "the absent lmp executable) and their draws, seeds and noise are what is compared; GROMACS / CP2K propagation "
        "and gmx's own gen_vel are stand-ins that draw nothing (external programs)",
        "C07 job traces: numpy's Langevin noise of one ASE propagate call is one request (`noise`), its length is not modelled",
        "C07 job traces: the only exception of a real _propagate_from that is passed over is the RuntimeError of the absent "
        "LAMMPS executable; TurtleMD integrator classes that do not take `seed=` (VelocityVerlet, LangevinOverdamped of the "
        "installed turtlemd) raise TypeError after the seed was drawn — that outcome is compared with the model "
        "(JobDraws.tmdPropagate, op tmdprop), the scripted frames after it are a what-if continuation",
    ]


def replay_jobs(ctx, r):
    """re-run the history of a recorded failing job (the whole history: the engine objects carry state)"""
    plan = r.get("plan")
    if not plan:
        print("no plan in this replay file:", r)
        return 1
    work = Path(tempfile.mkdtemp(prefix="c07jobs-", dir="/var/tmp"))
    cwd = os.getcwd()
    try:
        with GenTap(), Tripwire():
            if plan[0] == "chain":
                _tag, kinds, n_inst, n_ens, segs, steps, wf, seed, label = plan
                world = World(ctx, work / "w", kinds, n_inst)
                job_chain(ctx, world, n_ens, [tuple(x) for x in segs], steps, seed, wf, len(kinds), label, [], plan)
            else:
                kinds, n_inst, n_ens, workers, steps, wf, seed, label = plan
                world = World(ctx, work / "w", kinds, n_inst)
                job_history(ctx, world, n_ens, workers, steps, seed, wf, len(kinds), _pyrandom.Random(label), label,
                            [], plan=plan)
    finally:
        os.chdir(cwd)
        shutil.rmtree(work, ignore_errors=True)
    return 1 if (ctx.fails or ctx.known_hits) else 0
